import Mathlib.Data.List.Nodup
import Proofs.RingConv
import Proofs.RingGenEq
import Proofs.ReorgGenEq
import Proofs.MaSampleGenEq
import Mathlib.Data.List.Perm.Subperm

/-!
# C09 — replay buffers hold exactly the most recent transitions, each one intact

Model: `Model/Ring.lean` (`Buf` = `ReplayBuffer`, `Deq` = the `deque(maxlen)` of
`MultiAgentReplayBuffer`).  Every theorem quantifies over *all* capacities and *all* sequences
of batched additions whose width does not exceed the capacity (the real code rejects wider ones).
-/
namespace Ring

/-- the buffer reached from empty by any sequence of (batched) additions -/
def run (cap : Nat) (ops : List (List Nat)) : Buf := ops.foldl Buf.add (Buf.empty cap)

/-- reported length = min(capacity, number added); cursor and counter follow the count -/
theorem C09_len_is_min (cap : Nat) (hpos : 0 < cap) (ops : List (List Nat))
    (hw : ∀ xs ∈ ops, xs.length ≤ cap) :
    (run cap ops).size = min ops.flatten.length cap ∧
    (run cap ops).cursor = ops.flatten.length % cap ∧
    (run cap ops).counter = ops.flatten.length ∧
    (run cap ops).store.length = cap := by
  obtain ⟨h, hc⟩ := inv_adds cap hpos ops hw
  unfold run
  refine ⟨?_, ?_, h.counter, ?_⟩
  · rw [h.size, hc]
  · rw [h.cursor, hc]
  · rw [h.len, hc]

/-- each of the last `min cap count` transitions is stored, the k-th one in slot `k mod cap` -/
theorem C09_recent_are_stored (cap : Nat) (hpos : 0 < cap) (ops : List (List Nat))
    (hw : ∀ xs ∈ ops, xs.length ≤ cap) (k : Nat) (hk : k < ops.flatten.length)
    (hrecent : ops.flatten.length - k ≤ cap) :
    (run cap ops).store[k % cap]? = some (some ops.flatten[k]) := by
  obtain ⟨h, hc⟩ := inv_adds cap hpos ops hw
  have := h.slots k hk (by rw [hc]; exact hrecent)
  rw [hc] at this; exact this

/-- nothing else is stored: every filled slot holds one of the last `cap` transitions -/
theorem C09_stored_are_recent (cap : Nat) (hpos : 0 < cap) (ops : List (List Nat))
    (hw : ∀ xs ∈ ops, xs.length ≤ cap) (j : Nat) (hj : j < (run cap ops).size) :
    ∃ k, ∃ hk : k < ops.flatten.length, ops.flatten.length - k ≤ cap ∧ k % cap = j ∧
      (run cap ops).store[j]? = some (some ops.flatten[k]) := by
  obtain ⟨_, hc⟩ := inv_adds cap hpos ops hw
  obtain ⟨k, hk, h1, h2, h3⟩ := conv_adds cap hpos ops hw j hj
  exact ⟨k, hk, by rw [← hc]; exact h1, by rw [← hc]; exact h2, h3⟩

/-- a uniform sample (a prefix of a permutation of the filled range) returns only stored,
    recent transitions and — when transition ids are distinct — no duplicates -/
theorem C09_sample_stored_distinct (cap : Nat) (hpos : 0 < cap) (ops : List (List Nat))
    (hw : ∀ xs ∈ ops, xs.length ≤ cap) (perm : List Nat) (n : Nat)
    (hrange : ∀ i ∈ perm, i < (run cap ops).size) (hnd : perm.Nodup) (hids : ops.flatten.Nodup) :
    (∀ x ∈ (run cap ops).sample perm n, ∃ k, ∃ hk : k < ops.flatten.length,
        ops.flatten.length - k ≤ cap ∧ x = some ops.flatten[k]) ∧
    ((run cap ops).sample perm n).Nodup := by
  constructor
  · intro x hx
    simp only [Buf.sample, List.mem_map] at hx
    obtain ⟨i, hi, rfl⟩ := hx
    have hi' := hrange i (List.mem_of_mem_take hi)
    obtain ⟨k, hk, h1, _, h3⟩ := C09_stored_are_recent cap hpos ops hw i hi'
    refine ⟨k, hk, h1, ?_⟩
    simp [List.getD_eq_getElem?_getD, h3]
  · unfold Buf.sample
    refine List.Nodup.map_on ?_ (List.Nodup.sublist (List.take_sublist _ _) hnd)
    intro i hi j hj hij
    have hi' := hrange i (List.mem_of_mem_take hi)
    have hj' := hrange j (List.mem_of_mem_take hj)
    obtain ⟨k1, hk1, _, m1, s1⟩ := C09_stored_are_recent cap hpos ops hw i hi'
    obtain ⟨k2, hk2, _, m2, s2⟩ := C09_stored_are_recent cap hpos ops hw j hj'
    simp only [List.getD_eq_getElem?_getD, s1, s2, Option.getD_some, Option.some.injEq] at hij
    have : k1 = k2 := (List.Nodup.getElem_inj_iff hids).mp hij
    subst this
    exact m1.symm.trans m2

/-- `clear()` empties the buffer; apart from the running counter it is a fresh buffer -/
theorem C09_clear_resets (b : Buf) :
    b.clear.size = 0 ∧ b.clear.contents = [] ∧ { b.clear with counter := 0 } = Buf.empty b.cap := by
  simp [Buf.clear, Buf.contents, Buf.empty]

/-- multi-agent buffer: the bounded deque holds exactly the last `cap` transitions, in order -/
theorem C09_deque_refines_last_n (cap : Nat) (xs : List Nat) :
    ((Deq.empty cap).pushMany xs).items = lastN cap xs ∧
    ((Deq.empty cap).pushMany xs).counter = xs.length := by
  suffices H : ∀ (d : Deq) (hist : List Nat), d.cap = cap → d.items = lastN cap hist →
      d.counter = hist.length →
      (d.pushMany xs).items = lastN cap (hist ++ xs) ∧ (d.pushMany xs).counter = (hist ++ xs).length by
    simpa using H (Deq.empty cap) [] rfl (by simp [Deq.empty, lastN]) rfl
  induction xs with
  | nil => intro d hist _ h1 h2; simpa [Deq.pushMany] using ⟨h1, h2⟩
  | cons x rest ih =>
    intro d hist hc h1 h2
    have := ih (d.push x) (hist ++ [x]) (by simpa [Deq.push] using hc) ?_ ?_
    · simpa [Deq.pushMany, List.append_assoc] using this
    · simp only [Deq.push, h1, hc, lastN, List.length_append, List.length_drop, List.length_cons,
        List.length_nil]
      rw [← List.drop_append_of_le_length (by omega), List.drop_drop]
      congr 1; omega
    · simp [Deq.push, h2]

/-- vectorised multi-agent additions are split per environment without mixing agents or
    environments: entry (env i, agent a) of the result is entry (agent a, env i) of the input -/
theorem C09_reorganize_transpose {α} (numEnv : Nat) (m : List (List α)) (i a : Nat)
    (hi : i < numEnv) (row : List α) (ha : m[a]? = some row) :
    ((reorganize numEnv m)[i]?.bind (·[a]?)) = some row[i]? := by
  simp [reorganize, hi, List.getElem?_map, ha]

/-! ## the same theorems over the definitions generated from the source text

`Gen/RingGen.lean` is written by `harness/py2lean_ring.py` from the source text of
`agilerl/components/replay_buffer.py` (`ReplayBuffer.__init__/__len__/size/add/sample/clear`) and
`agilerl/components/multi_agent_replay_buffer.py` (`MultiAgentReplayBuffer.__init__/__len__/_add/
save_to_memory_single_env/save_to_memory_vect_envs/save_to_memory`) on every run of the check;
`Proofs/RingGenEq.lean` proves that each generated method, on a state meeting the representation invariant,
succeeds and abstracts to the model function.  The theorems below are the C09 theorems with the model
functions replaced by the generated ones: Python integers, Python slice assignment (a row-count mismatch is
`none`), a storage that is `None` until the first `add`, `deque(maxlen)`.  `f` stands for `ReplayBuffer._init`
(assumed: `InitSpec`, it installs `max_size` zero rows), `rp` for `torch.randperm`, `r` for
`_reorganize_dicts` (the per-environment transitions of a vectorised call). -/
section source_translation
open RingGen

/-- the generated buffer reached from the generated `__init__(cap)` by generated `add`s -/
def genRun (f : GBuf → List (Option Nat) → GBuf) (cap : Nat) (ops : List (List Nat)) : Option GBuf :=
  ops.foldlM (fun s xs => ReplayBuffer.add f s (xs.map some)) (ReplayBuffer.init (cap : Int))

/-- no generated `add` of a legal width fails, and the generated state abstracts to the model's `run` -/
theorem C09_source_translation_run (f : GBuf → List (Option Nat) → GBuf) (hf : InitSpec f) (cap : Nat)
    (hpos : 0 < cap) (ops : List (List Nat)) (hw : ∀ xs ∈ ops, xs.length ≤ cap) :
    ∃ st, genRun f cap ops = some st ∧ absBuf st = run cap ops ∧ GenInv st ∧
      (ops ≠ [] → st._storage.isSome) := by
  obtain ⟨st, e, a, i, _, s⟩ := gen_adds_eq f hf ops (ReplayBuffer.init (cap : Int)) (gen_init_inv cap hpos)
    (fun xs hx => by simp only [ReplayBuffer.init]; exact_mod_cast hw xs hx)
  exact ⟨st, e, by rw [a, gen_init_eq]; rfl, i, s⟩

/-- generated code: `len(buffer)` = min(capacity, number added); `_cursor` and `counter` follow the count -/
theorem C09_source_translation_len_is_min (f : GBuf → List (Option Nat) → GBuf) (hf : InitSpec f) (cap : Nat)
    (hpos : 0 < cap) (ops : List (List Nat)) (hw : ∀ xs ∈ ops, xs.length ≤ cap) :
    ∃ st, genRun f cap ops = some st ∧
      ReplayBuffer.len st = ((min ops.flatten.length cap : Nat) : Int) ∧
      ReplayBuffer.size st = ((min ops.flatten.length cap : Nat) : Int) ∧
      st._cursor = ((ops.flatten.length % cap : Nat) : Int) ∧
      st.counter = (ops.flatten.length : Int) ∧
      (∀ s, st._storage = some s → s.length = cap) := by
  obtain ⟨st, e, a, i, _⟩ := C09_source_translation_run f hf cap hpos ops hw
  obtain ⟨h1, h2, h3, h4⟩ := C09_len_is_min cap hpos ops hw
  rw [← a] at h1 h2 h3 h4
  obtain ⟨l1, l2⟩ := gen_len_eq st i
  have hc := i.cursor_nonneg
  have hk := i.counter_nonneg
  refine ⟨st, e, by rw [l1, h1], by rw [l2, h1], ?_, ?_, ?_⟩
  · simp only [absBuf] at h2; omega
  · simp only [absBuf] at h3; omega
  · intro s hs
    simp only [absBuf, hs, Option.getD_some] at h4
    exact h4

/-- generated code: each of the last `min cap count` transitions is stored, the k-th one in row `k mod cap`
    of the storage -/
theorem C09_source_translation_recent_are_stored (f : GBuf → List (Option Nat) → GBuf) (hf : InitSpec f)
    (cap : Nat) (hpos : 0 < cap) (ops : List (List Nat)) (hw : ∀ xs ∈ ops, xs.length ≤ cap) (k : Nat)
    (hk : k < ops.flatten.length) (hrecent : ops.flatten.length - k ≤ cap) :
    ∃ st s, genRun f cap ops = some st ∧ st._storage = some s ∧
      s[k % cap]? = some (some ops.flatten[k]) := by
  obtain ⟨st, e, a, i, hs⟩ := C09_source_translation_run f hf cap hpos ops hw
  have hne : ops ≠ [] := by rintro rfl; simp at hk
  obtain ⟨s, hs'⟩ := Option.isSome_iff_exists.mp (hs hne)
  have := C09_recent_are_stored cap hpos ops hw k hk hrecent
  rw [← a] at this
  simp only [absBuf, hs', Option.getD_some] at this
  exact ⟨st, s, e, hs', this⟩

/-- generated code: nothing else is stored — every row below `len(buffer)` holds one of the last `cap`
    transitions -/
theorem C09_source_translation_stored_are_recent (f : GBuf → List (Option Nat) → GBuf) (hf : InitSpec f)
    (cap : Nat) (hpos : 0 < cap) (ops : List (List Nat)) (hw : ∀ xs ∈ ops, xs.length ≤ cap) :
    ∃ st, genRun f cap ops = some st ∧ ∀ j : Nat, (j : Int) < ReplayBuffer.len st →
      ∃ s k, ∃ hk : k < ops.flatten.length, st._storage = some s ∧ ops.flatten.length - k ≤ cap ∧
        k % cap = j ∧ s[j]? = some (some ops.flatten[k]) := by
  obtain ⟨st, e, a, i, hs⟩ := C09_source_translation_run f hf cap hpos ops hw
  refine ⟨st, e, fun j hj => ?_⟩
  rw [(gen_len_eq st i).1, a] at hj
  obtain ⟨k, hk, h1, h2, h3⟩ := C09_stored_are_recent cap hpos ops hw j (by exact_mod_cast hj)
  have hne : ops ≠ [] := by rintro rfl; simp at hk
  obtain ⟨s, hs'⟩ := Option.isSome_iff_exists.mp (hs hne)
  rw [← a] at h3
  simp only [absBuf, hs', Option.getD_some] at h3
  exact ⟨s, k, hk, hs', h1, h2, h3⟩

/-- generated code: `sample(batch_size)` — a prefix of `randperm(self.size)` gathered from the storage —
    succeeds on a non-empty buffer, returns only stored, recent transitions and, when transition ids are
    distinct, no duplicates.  Assumed about `torch.randperm(n)`: distinct values in `[0, n)`. -/
theorem C09_source_translation_sample_stored_distinct (f : GBuf → List (Option Nat) → GBuf) (hf : InitSpec f)
    (rp : Int → List Int) (hrp : ∀ n, (rp n).Nodup ∧ ∀ i ∈ rp n, 0 ≤ i ∧ i < n)
    (cap : Nat) (hpos : 0 < cap) (ops : List (List Nat)) (hw : ∀ xs ∈ ops, xs.length ≤ cap) (hne : ops ≠ [])
    (n : Int) (hn : 0 ≤ n) (ret : Bool) (hids : ops.flatten.Nodup) :
    ∃ st batch, genRun f cap ops = some st ∧ ReplayBuffer.sample rp st n ret = some batch ∧
      (∀ x ∈ batch, ∃ k, ∃ hk : k < ops.flatten.length,
        ops.flatten.length - k ≤ cap ∧ x = some ops.flatten[k]) ∧
      batch.Nodup := by
  obtain ⟨st, e, a, i, hs⟩ := C09_source_translation_run f hf cap hpos ops hw
  obtain ⟨s, hs'⟩ := Option.isSome_iff_exists.mp (hs hne)
  obtain ⟨hnd, hr⟩ := hrp (ReplayBuffer.size st)
  have hsz := (gen_len_eq st i).2
  have hlen : s.length = cap := by
    have h4 := (C09_len_is_min cap hpos ops hw).2.2.2
    rw [← a] at h4
    simpa only [absBuf, hs', Option.getD_some] using h4
  have hsize_le : (absBuf st).size ≤ cap := by
    rw [a, (C09_len_is_min cap hpos ops hw).1]; exact Nat.min_le_right _ _
  have hrange : ∀ j ∈ rp (ReplayBuffer.size st), 0 ≤ j ∧ j.toNat < s.length := by
    intro j hj
    obtain ⟨h0, h1⟩ := hr j hj
    rw [hsz] at h1
    omega
  have hperm : ∀ j ∈ (rp (ReplayBuffer.size st)).map Int.toNat, j < (run cap ops).size := by
    intro j hj
    obtain ⟨j', hj', rfl⟩ := List.mem_map.mp hj
    obtain ⟨h0, h1⟩ := hr j' hj'
    rw [hsz, a] at h1
    omega
  have hpnd : ((rp (ReplayBuffer.size st)).map Int.toNat).Nodup := by
    refine List.Nodup.map_on ?_ hnd
    intro x hx y hy hxy
    have := (hr x hx).1
    have := (hr y hy).1
    omega
  obtain ⟨c1, c2⟩ := C09_sample_stored_distinct cap hpos ops hw _ n.toNat hperm hpnd hids
  refine ⟨st, _, e, gen_sample_eq rp st s hs' n hn ret hrange, ?_, ?_⟩
  · rw [a]; exact c1
  · rw [a]; exact c2

/-- generated code: `clear()` succeeds, the buffer is empty afterwards and, apart from the running counter,
    it is the buffer the generated `__init__` makes -/
theorem C09_source_translation_clear_resets (st : GBuf) (h : GenInv st) :
    ∃ st', ReplayBuffer.clear st = some st' ∧ ReplayBuffer.len st' = 0 ∧ (absBuf st').contents = [] ∧
      { st' with counter := 0 } = ReplayBuffer.init st.max_size := by
  obtain ⟨st', e, a, i, _, _⟩ := gen_clear_eq st h
  obtain ⟨c1, c2, _⟩ := C09_clear_resets (absBuf st)
  refine ⟨st', e, ?_, by rw [a]; exact c2, ?_⟩
  · rw [(gen_len_eq st' i).1, a, c1]; rfl
  · cases e; rfl

/-- the generated multi-agent buffer reached from the generated `__init__(cap)` by generated
    `save_to_memory(x, is_vectorised=b)` calls -/
def genMaRun (r : Nat → List Nat) (cap : Nat) (calls : List (Nat × Bool)) : Option GDeq :=
  (MultiAgentReplayBuffer.init (cap : Int)).bind
    (fun st => calls.foldlM (fun s c => MultiAgentReplayBuffer.save_to_memory r s c.1 c.2) st)

/-- generated code: after any sequence of single and vectorised `save_to_memory` calls the deque holds
    exactly the last `cap` transitions, in order; `len` and `counter` follow the count -/
theorem C09_source_translation_deque_last_n (r : Nat → List Nat) (cap : Nat) (hpos : 0 < cap)
    (calls : List (Nat × Bool)) :
    ∃ st, genMaRun r cap calls = some st ∧
      st.memory.items = lastN cap (maHist r calls) ∧
      st.counter = ((maHist r calls).length : Int) ∧
      MultiAgentReplayBuffer.len st = ((min cap (maHist r calls).length : Nat) : Int) := by
  obtain ⟨st0, e0, a0, i0⟩ := gen_ma_init_eq cap hpos
  obtain ⟨st, e, a, i⟩ := gen_ma_run_eq r calls st0 i0
  obtain ⟨h1, h2⟩ := C09_deque_refines_last_n cap (maHist r calls)
  rw [a0] at a
  rw [← a] at h1 h2
  have hk := i.counter_nonneg
  refine ⟨st, by simp only [genMaRun, e0, Option.bind_some]; exact e, h1, ?_, ?_⟩
  · simp only [absDeq] at h2; omega
  · rw [gen_ma_len_eq]
    have h1' : st.memory.items = lastN cap (maHist r calls) := h1
    show ((st.memory.items.length : Nat) : Int) = _
    rw [h1']
    simp only [lastN, List.length_drop]
    omega

/-! non-vacuity of the source-translation theorems: the generated functions on concrete histories -/
example : (genRun (fun st _ => { st with _storage := some (List.replicate st.max_size.toNat none), initialized := true })
    3 [[1, 2], [3, 4], [5]]).map (fun st => (st._storage, ReplayBuffer.len st))
    = some (some [some 4, some 5, some 3], 3) := by decide
example : (genMaRun (fun n => [n, n + 1]) 2 [(1, false), (5, true)]).map (fun st => (st.memory.items, st.counter))
    = some ([5, 6], 3) := by decide

end source_translation

/-! ## the per-environment split of vectorised multi-agent experiences and the shape normalisation of single-agent
transitions, brought inside the model

`Model/Ring.lean` (section Reorg): a vectorised experience field is an association list agent ↦ value, a value an
array (list of per-environment rows), a dict of arrays or a tuple of arrays.  `Gen/ReorgGen.lean` is the translation
of `_reorganize_dicts`, `_add`, `save_to_memory*` (multi_agent_replay_buffer.py), of `to_tensordict`,
`to_torch_tensor`, `Transition.__post_init__` (data.py) and of the reshape loop of `ReplayBuffer.add`;
`Proofs/ReorgGenEq.lean` proves generated = model.  All theorems hold for every number of fields, agents,
environments, container kinds and key orders. -/
section reorg
variable {κ α : Type}

/-- **(i) `_reorganize_dicts` is the transpose.**  When the call succeeds, the result has one list per field, each
    with one dict per environment (`n` = length of the first value of the first field), and entry `i` of list `j`
    is exactly column `i` of field `j`: `results[j][i] = fieldCol i args[j]` — nothing lost, nothing duplicated. -/
theorem C09_reorganize_is_transpose (args : List (Field κ α)) (res : List (List (EnvField κ α)))
    (h : reorganizeDicts args = some res) :
    ∃ n, numEntries args = some n ∧ res.length = args.length ∧ (∀ l ∈ res, l.length = n) ∧
      ∀ (j : Nat) (hj : j < args.length) (i : Nat), i < n →
        ∃ d, fieldCol i args[j] = some d ∧ (res[j]?.bind (·[i]?)) = some d := by
  unfold reorganizeDicts at h
  cases hp : perEnv args with
  | none => simp [hp] at h
  | some envs =>
    simp only [hp, Option.some.injEq] at h
    subst h
    obtain ⟨_, hl, n, hn, hen⟩ := perEnv_lengths args envs hp
    obtain ⟨t1, t2⟩ := transposeTo_length args.length envs hl
    refine ⟨n, hn, t1, fun l hl' => by rw [t2 l hl', hen], ?_⟩
    intro j hj i hi
    rw [transposeTo_get args.length envs hl i j hj]
    unfold perEnv at hp
    simp only [hn] at hp
    have g1 := optAll_getElem _ _ hp i (by simpa using hi)
    simp only [List.getElem?_map, List.getElem?_range hi, Option.map_some, envTransition] at g1
    have hi' : i < envs.length := by omega
    rw [List.getElem?_eq_getElem hi'] at g1 ⊢
    have g2 := optAll_getElem _ _ (Option.some.inj g1) j (by simpa using hj)
    simp only [List.getElem?_map, List.getElem?_eq_getElem hj, Option.map_some] at g2
    have hj' : j < envs[i].length := by rw [hl _ (List.getElem_mem _)]; exact hj
    rw [List.getElem?_eq_getElem hj'] at g2
    exact ⟨envs[i][j], Option.some.inj g2, by simp [List.getElem?_eq_getElem hj']⟩

/-- **(i, inside one field)** column `i` of a field keeps the agents and their order, and every agent's entry is
    column `i` of that agent's own value -/
theorem C09_reorganize_keeps_agents (i : Nat) (f : Field κ α) (d : EnvField κ α) (h : fieldCol i f = some d) :
    d.map Prod.fst = f.map Prod.fst ∧
    ∀ (a : Nat) (ha : a < f.length), ∃ e, Val.col i f[a].2 = some e ∧ d[a]? = some (f[a].1, e) := by
  unfold fieldCol at h
  have hlen := optAll_length _ _ h
  simp only [List.length_map] at hlen
  have pt : ∀ (a : Nat) (ha : a < f.length), ∃ e, Val.col i f[a].2 = some e ∧ d[a]? = some (f[a].1, e) := by
    intro a ha
    have g := optAll_getElem _ _ h a (by simpa using ha)
    simp only [List.getElem?_map, List.getElem?_eq_getElem ha, Option.map_some] at g
    cases hc : Val.col i f[a].2 with
    | none => simp [hc] at g; omega
    | some e =>
      simp only [hc, Option.some.injEq] at g
      exact ⟨e, rfl, g.symm⟩
  refine ⟨?_, pt⟩
  apply List.ext_getElem (by simp [hlen])
  intro a h1 h2
  have ha : a < f.length := by simpa using h2
  obtain ⟨e, _, he⟩ := pt a ha
  have hd : a < d.length := by omega
  rw [List.getElem?_eq_getElem hd] at he
  simp [Option.some.inj he]

/-- **(i, inside one value)** an array contributes its row `i`; a dict of arrays contributes, under the same
    sub-keys in the same order, row `i` of each member; a tuple of arrays row `i` of each member in order -/
theorem C09_reorganize_entry (i : Nat) :
    (∀ (rows : List α) (e : Ent κ α), Val.col i (Val.arr rows : Val κ α) = some e ↔ ∃ r, rows[i]? = some r ∧ e = Ent.arr r) ∧
    (∀ (kv : List (κ × List α)) (e : Ent κ α), Val.col i (Val.dict kv : Val κ α) = some e →
      ∃ l, e = Ent.dict l ∧ l.map Prod.fst = kv.map Prod.fst ∧
        ∀ (k : Nat) (hk : k < kv.length), ∃ r, kv[k].2[i]? = some r ∧ l[k]? = some (kv[k].1, r)) ∧
    (∀ (xs : List (List α)) (e : Ent κ α), Val.col i (Val.tup xs : Val κ α) = some e →
      ∃ l, e = Ent.tup l ∧ l.length = xs.length ∧ ∀ (k : Nat) (hk : k < xs.length), xs[k][i]? = l[k]?) := by
  refine ⟨?_, ?_, ?_⟩
  · intro rows e
    show (match rows[i]? with | none => none | some r => some (Ent.arr r)) = some e ↔ _
    cases rows[i]? with
    | none => simp
    | some r => simp [eq_comm]
  · intro kv e h0
    have h : (match optAll (kv.map (fun p => match p.2[i]? with | none => none | some r => some (p.1, r))) with
        | none => none | some l => some (Ent.dict l : Ent κ α)) = some e := h0
    cases ho : optAll (kv.map (fun p => match p.2[i]? with | none => none | some r => some (p.1, r))) with
    | none => simp [ho] at h
    | some l =>
      simp only [ho, Option.some.injEq] at h
      have hlen := optAll_length _ _ ho
      simp only [List.length_map] at hlen
      have pt : ∀ (k : Nat) (hk : k < kv.length), ∃ r, kv[k].2[i]? = some r ∧ l[k]? = some (kv[k].1, r) := by
        intro k hk
        have g := optAll_getElem _ _ ho k (by simpa using hk)
        simp only [List.getElem?_map, List.getElem?_eq_getElem hk, Option.map_some] at g
        cases hc : kv[k].2[i]? with
        | none => simp [hc] at g; omega
        | some r =>
          simp only [hc, Option.some.injEq] at g
          exact ⟨r, rfl, g.symm⟩
      refine ⟨l, h.symm, ?_, pt⟩
      apply List.ext_getElem (by simp [hlen])
      intro a h1 h2
      have ha : a < kv.length := by simpa using h2
      obtain ⟨r, _, hr⟩ := pt a ha
      have hd : a < l.length := by omega
      rw [List.getElem?_eq_getElem hd] at hr
      simp [Option.some.inj hr]
  · intro xs e h0
    have h : (match optAll (xs.map (fun v => v[i]?)) with
        | none => none | some l => some (Ent.tup l : Ent κ α)) = some e := h0
    cases ho : optAll (xs.map (fun v => v[i]?)) with
    | none => simp [ho] at h
    | some l =>
      simp only [ho, Option.some.injEq] at h
      have hlen := optAll_length _ _ ho
      simp only [List.length_map] at hlen
      refine ⟨l, h.symm, hlen, ?_⟩
      intro k hk
      have g := optAll_getElem _ _ ho k (by simpa using hk)
      simpa [List.getElem?_map, List.getElem?_eq_getElem hk] using g

/-- **(iii) the number of environments is read off the first value of the first field only.**  If any array of any
    field and agent has FEWER rows than that, the call raises (IndexError) and nothing is stored … -/
theorem C09_reorganize_short_field_raises (args : List (Field κ α)) (n : Nat) (hn : numEntries args = some n)
    (f : Field κ α) (hf : f ∈ args) (k : κ) (rows : List α) (hk : (k, Val.arr rows) ∈ f) (hshort : rows.length < n) :
    reorganizeDicts args = none ∧ perEnv args = none := by
  have hcol : fieldCol rows.length f = none := by
    unfold fieldCol
    apply optAll_none_of_mem
    refine List.mem_map.mpr ⟨(k, Val.arr rows), hk, ?_⟩
    simp [Val.col]
  have henv : envTransition args rows.length = none := by
    unfold envTransition
    exact optAll_none_of_mem _ (List.mem_map.mpr ⟨f, hf, hcol⟩)
  have hp : perEnv args = none := by
    unfold perEnv
    simp only [hn]
    exact optAll_none_of_mem _ (List.mem_map.mpr ⟨rows.length, List.mem_range.mpr hshort, henv⟩)
  exact ⟨by simp [reorganizeDicts, hp], hp⟩

/-- … but an array with MORE rows is cut silently: here the reward field carries three environments, the state
    field (first) two; the call succeeds, two transitions come out and row `30` is dropped without an error.
    (`save_to_memory` is only called with equally long fields by the training loops; the property's "nothing
    lost" holds under that precondition, stated as `hsame` in `C09_reorganize_nothing_lost`.) -/
theorem C09_reorganize_silent_truncation_witness :
    reorganizeDicts ([[(0, Val.arr [1, 2])], [(0, Val.arr [10, 20, 30])]] : List (Field Nat Nat))
      = some [[[(0, Ent.arr 1)], [(0, Ent.arr 2)]], [[(0, Ent.arr 10)], [(0, Ent.arr 20)]]] := by rfl

/-- **nothing lost**: when every array has exactly `n` rows (`hsame`, stated for plain arrays), every row of every
    array of every field and agent appears in the result, at (field `j`, environment `i`, same agent position) -/
theorem C09_reorganize_nothing_lost (args : List (Field κ α)) (res : List (List (EnvField κ α)))
    (h : reorganizeDicts args = some res) (j : Nat) (hj : j < args.length) (a : Nat) (ha : a < args[j].length)
    (rows : List α) (hv : args[j][a].2 = Val.arr rows) (i : Nat) (hi : i < rows.length)
    (n : Nat) (hn : numEntries args = some n) (hsame : rows.length = n) :
    ∃ d, (res[j]?.bind (·[i]?)) = some d ∧ d[a]? = some (args[j][a].1, Ent.arr rows[i]) := by
  obtain ⟨n', hn', _, _, hall⟩ := C09_reorganize_is_transpose args res h
  have : n' = n := by rw [hn] at hn'; exact (Option.some.inj hn').symm
  subst this
  obtain ⟨d, hd, hr⟩ := hall j hj i (by omega)
  obtain ⟨_, hag⟩ := C09_reorganize_keeps_agents i args[j] d hd
  obtain ⟨e, he, hda⟩ := hag a ha
  rw [hv] at he
  simp only [Val.col, List.getElem?_eq_getElem hi, Option.some.injEq] at he
  exact ⟨d, hr, by rw [hda, ← he]⟩

section source_translation_reorg
open ReorgGen
variable [DecidableEq κ]

/-- **(i) over the generated code**: the translated `_reorganize_dicts` (three nested loops, `maybe_to_array`,
    `results[j].append`) returns, whenever it returns, exactly the transpose; it raises exactly when the model
    says so.  Assumed: `np.array(x)` keeps the content of a row; dict keys are distinct. -/
theorem C09_source_translation_reorg_is_transpose (np : α → α) (isnd : α → Bool) (hnp : ∀ x, np x = x)
    (args : List (Field κ α)) (hkeys : ∀ f ∈ args, (f.map Prod.fst).Nodup) (res : List (List (EnvField κ α)))
    (h : MultiAgentReplayBuffer.reorganize_dicts np isnd args = some res) :
    ∃ n, numEntries args = some n ∧ res.length = args.length ∧ (∀ l ∈ res, l.length = n) ∧
      ∀ (j : Nat) (hj : j < args.length) (i : Nat), i < n →
        ∃ d, fieldCol i args[j] = some d ∧ (res[j]?.bind (·[i]?)) = some d := by
  rw [gen_reorganize_dicts_eq np isnd hnp args hkeys] at h
  exact C09_reorganize_is_transpose args res h

/-- **(iii) over the generated code**: a shorter array anywhere makes the translated call raise; the longer one of
    the witness is cut silently by the translated code as well -/
theorem C09_source_translation_reorg_length_mismatch (np : α → α) (isnd : α → Bool) (hnp : ∀ x, np x = x)
    (args : List (Field κ α)) (hkeys : ∀ f ∈ args, (f.map Prod.fst).Nodup) (n : Nat) (hn : numEntries args = some n)
    (f : Field κ α) (hf : f ∈ args) (k : κ) (rows : List α) (hk : (k, Val.arr rows) ∈ f) (hshort : rows.length < n) :
    MultiAgentReplayBuffer.reorganize_dicts np isnd args = none := by
  rw [gen_reorganize_dicts_eq np isnd hnp args hkeys]
  exact (C09_reorganize_short_field_raises args n hn f hf k rows hk hshort).1

theorem C09_source_translation_reorg_silent_truncation_witness :
    MultiAgentReplayBuffer.reorganize_dicts id (fun _ => true)
      ([[(0, Val.arr [1, 2])], [(0, Val.arr [10, 20, 30])]] : List (Field Nat Nat))
      = some [[[(0, Ent.arr 1)], [(0, Ent.arr 2)]], [[(0, Ent.arr 10)], [(0, Ent.arr 20)]]] := by rfl

/-- **(ii) `save_to_memory_vect_envs` appends exactly `num_envs` transitions in environment order**: the translated
    method (`_reorganize_dicts`, `zip(*…)`, `_add`, `counter += 1`) raises iff the split raises; otherwise the deque
    holds the last `m` of (what it held ++ the per-environment transitions), the counter grows by their number,
    and the number is `numEntries`. -/
theorem C09_source_translation_reorg_vect_appends (np : α → α) (isnd : α → Bool) (hnp : ∀ x, np x = x)
    (st : MA κ α) (m : Nat) (hinv : MAInv st m) (args : List (Field κ α)) (hkeys : ∀ f ∈ args, (f.map Prod.fst).Nodup) :
    (perEnv args = none → MultiAgentReplayBuffer.save_to_memory np isnd st args [] true = none) ∧
    (∀ envs, perEnv args = some envs →
      ∃ st', MultiAgentReplayBuffer.save_to_memory np isnd st args [] true = some st' ∧ MAInv st' m ∧
        st'.memory.items = lastN m (st.memory.items ++ envs) ∧ st'.counter = st.counter + envs.length ∧
        numEntries args = some envs.length) := by
  have g := gen_reorg_vect_eq np isnd hnp st m hinv args hkeys
  constructor
  · intro hp
    rw [hp] at g
    simp [MultiAgentReplayBuffer.save_to_memory, g]
  · intro envs hp
    rw [hp] at g
    obtain ⟨st', e, i, it, c⟩ := g
    obtain ⟨_, _, n, hn, hl⟩ := perEnv_lengths args envs hp
    exact ⟨st', by simp [MultiAgentReplayBuffer.save_to_memory, e], i, it, c, by rw [hn, hl]⟩

/-- a call of `save_to_memory`: vectorised arguments or one transition -/
inductive MACall (κ α : Type) where
  | vect (args : List (Field κ α))
  | single (t : Trans κ α)

/-- what a sequence of calls adds, in order (`none` if a vectorised call raises) -/
def maCallHist : List (MACall κ α) → Option (List (Trans κ α))
  | [] => some []
  | MACall.vect a :: r => match perEnv a, maCallHist r with | some e, some h => some (e ++ h) | _, _ => none
  | MACall.single t :: r => match maCallHist r with | some h => some (t :: h) | none => none

/-- the generated buffer after a sequence of generated `save_to_memory` calls -/
def genReorgRun (np : α → α) (isnd : α → Bool) (st : MA κ α) (calls : List (MACall κ α)) : Option (MA κ α) :=
  calls.foldlM (fun s c => match c with
    | MACall.vect a => MultiAgentReplayBuffer.save_to_memory np isnd s a [] true
    | MACall.single t => MultiAgentReplayBuffer.save_to_memory np isnd s [] t false) st

/-- **(ii) lifted to histories**: after any sequence of single and vectorised calls (none of which raises) the
    buffer holds exactly the last `m` per-environment transitions, each one the transpose column of its call,
    in order of addition; the counter counts them -/
theorem C09_source_translation_reorg_last_n (np : α → α) (isnd : α → Bool) (hnp : ∀ x, np x = x) (m : Nat) :
    ∀ (calls : List (MACall κ α)) (st : MA κ α) (hist : List (Trans κ α)), MAInv st m →
      (∀ c ∈ calls, ∀ a, c = MACall.vect a → ∀ f ∈ a, (f.map Prod.fst).Nodup) →
      maCallHist calls = some hist →
      ∃ st', genReorgRun np isnd st calls = some st' ∧ MAInv st' m ∧
        st'.memory.items = lastN m (st.memory.items ++ hist) ∧ st'.counter = st.counter + hist.length := by
  intro calls
  induction calls with
  | nil =>
    intro st hist hinv _ hh
    simp only [maCallHist, Option.some.injEq] at hh
    subst hh
    refine ⟨st, rfl, hinv, ?_, by simp⟩
    have := hinv.len
    simp only [List.append_nil, lastN]
    have : st.memory.items.length - m = 0 := by omega
    simp [this]
  | cons c rest ih =>
    intro st hist hinv hkeys hh
    cases c with
    | vect a =>
      simp only [maCallHist] at hh
      cases hp : perEnv a with
      | none => simp [hp] at hh
      | some envs =>
        cases hr : maCallHist rest with
        | none => simp [hp, hr] at hh
        | some h' =>
          simp only [hp, hr, Option.some.injEq] at hh
          subst hh
          obtain ⟨st1, e1, i1, it1, c1, _⟩ :=
            (C09_source_translation_reorg_vect_appends np isnd hnp st m hinv a
              (hkeys _ (by simp) a rfl)).2 envs hp
          obtain ⟨st2, e2, i2, it2, c2⟩ := ih st1 h' i1 (fun c hc => hkeys c (List.mem_cons_of_mem _ hc)) hr
          refine ⟨st2, by simp only [genReorgRun, List.foldlM_cons, e1]; exact e2, i2, ?_, ?_⟩
          · rw [it2, it1, lastN_append_lastN, List.append_assoc]
          · rw [c2, c1]; simp only [List.length_append]; push_cast; omega
    | single t =>
      simp only [maCallHist] at hh
      cases hr : maCallHist rest with
      | none => simp [hr] at hh
      | some h' =>
        simp only [hr, Option.some.injEq] at hh
        subst hh
        obtain ⟨st1, e1, i1, it1, c1⟩ := gen_reorg_single_eq np isnd st m hinv t
        obtain ⟨st2, e2, i2, it2, c2⟩ := ih st1 h' i1 (fun c hc => hkeys c (List.mem_cons_of_mem _ hc)) hr
        refine ⟨st2, ?_, i2, ?_, ?_⟩
        · simp only [genReorgRun, List.foldlM_cons, MultiAgentReplayBuffer.save_to_memory, e1]
          exact e2
        · rw [it2, it1, lastN_append_lastN]; simp
        · rw [c2, c1]; simp only [List.length_cons]; push_cast; omega

/-- **(iv) shape normalisation, unvectorised path**: a scalar reward / done (`shape = []`, one number `x`) leaves
    `Transition.__post_init__` with shape `[1]`; after the caller's `unsqueeze(0)` it is `[1, 1]`, `batch_size = [1]`
    is accepted, `add` sees `_n_transitions = 1`, its reshape loop leaves the leaf alone, and the single row is `[x]`:
    exactly one row per add -/
theorem C09_source_translation_reorg_scalar_one_row (t : Transition α) (x y : α)
    (hr : t.reward = { shape := [], data := [x] }) (hd : t.done = { shape := [], data := [y] }) :
    ∃ t', t.post_init = some t' ∧ t'.reward.shape = [1] ∧ t'.done.shape = [1] ∧
      t'.reward.unsqueeze0.batchOk 1 = true ∧ t'.done.unsqueeze0.batchOk 1 = true ∧
      add_n_transitions [1] = some 1 ∧
      add_leaf_top 1 t'.reward.unsqueeze0 = some t'.reward.unsqueeze0 ∧
      t'.reward.unsqueeze0.row 0 = [x] ∧ t'.done.unsqueeze0.row 0 = [y] := by
  obtain ⟨t', e, r1, r2, d1, d2, _⟩ := gen_post_init_eq t
  refine ⟨t', e, ?_, ?_, ?_, ?_, by decide, ?_, ?_, ?_⟩ <;>
    simp [PyT.unsqueeze0, PyT.batchOk, PyT.row, add_leaf_top, PyT.ndim, r1, r2, d1, d2, hr, hd, normLeaf]

/-- **(iv) vectorised path**: a reward of `E` environments (`shape = [E]`) passes `__post_init__` unchanged,
    `batch_size = [E]` is accepted, `add` sees `_n_transitions = E`, the reshape loop makes it `(E, 1)` without
    touching the content, and row `e` is `[rs[e]]`: `E` rows, in environment order -/
theorem C09_source_translation_reorg_vector_rows (t : Transition α) (rs : List α)
    (hr : t.reward = { shape := [rs.length], data := rs }) :
    ∃ t' v, t.post_init = some t' ∧ t'.reward = t.reward ∧ t'.reward.batchOk rs.length = true ∧
      add_n_transitions [rs.length] = some rs.length ∧
      add_leaf_top rs.length t'.reward = some v ∧ add_leaf_nested rs.length t'.reward = some v ∧
      v.shape = [rs.length, 1] ∧ ∀ (e : Nat) (he : e < rs.length), v.row e = [rs[e]] := by
  obtain ⟨t', e, r1, r2, _⟩ := gen_post_init_eq t
  have hrew : t'.reward = t.reward := by
    cases h : t'.reward; cases h2 : t.reward
    simp only [h, h2, hr, normLeaf] at r1 r2 hr
    simp_all
  obtain ⟨v, a1, a2, a3, a4⟩ := gen_add_leaf_eq rs.length t'.reward (by rw [hrew, hr]; simp)
  refine ⟨t', v, e, hrew, by simp [hrew, hr, PyT.batchOk], by simp [add_n_transitions, pyIndex], a1, a2, ?_, ?_⟩
  · rw [a3, hrew, hr]; simp [addLeafShape]
  · intro e he
    have hs : v.shape = [rs.length, 1] := by rw [a3, hrew, hr]; simp [addLeafShape]
    have hdv : v.data = rs := by rw [a4, hrew, hr]
    simp [PyT.row, hs, hdv, List.take_one, he]

/-- **(iv) keys**: a tuple observation of `k` members becomes a TensorDict with keys `tuple_obs_0 … tuple_obs_{k-1}`
    holding the members in order; a dict observation keeps its keys and order -/
theorem C09_source_translation_reorg_obs_keys (xs : List (PyT α)) (kv : List (String × PyT α)) :
    (∃ l, to_tensordict (PyObs.tup xs) = PyObsTD.td l ∧ l.map Prod.fst = tupleKeys xs.length ∧ l.map Prod.snd = xs) ∧
    to_tensordict (PyObs.dict kv) = PyObsTD.td kv :=
  ⟨gen_to_tensordict_tuple_eq xs, rfl⟩

/-! non-vacuity: a concrete vectorised call with a plain, a dict and a tuple member, keys in different orders -/
example : MultiAgentReplayBuffer.reorganize_dicts id (fun _ => false)
    ([[(1, Val.arr [11, 12]), (0, Val.dict [(7, [71, 72]), (5, [51, 52])])], [(0, Val.tup [[1, 2], [3, 4]]), (1, Val.arr [8, 9])]]
      : List (Field Nat Nat))
    = some [[[(1, Ent.arr 11), (0, Ent.dict [(7, 71), (5, 51)])], [(1, Ent.arr 12), (0, Ent.dict [(7, 72), (5, 52)])]],
            [[(0, Ent.tup [1, 3]), (1, Ent.arr 8)], [(0, Ent.tup [2, 4]), (1, Ent.arr 9)]]] := by rfl
example : MAInv ({ memory := { maxlen := some 2, items := [] }, counter := 0 } : MA Nat Nat) 2 := ⟨rfl, by decide⟩
example : ((MultiAgentReplayBuffer.save_to_memory id (fun _ => true)
      ({ memory := { maxlen := some 2, items := [] }, counter := 0 } : MA Nat Nat)
      [[(0, Val.arr [1, 2, 3])], [(0, Val.arr [10, 20, 30])]] [] true).map (fun st => (st.memory.items, st.counter)))
    = some ([[[(0, Ent.arr 2)], [(0, Ent.arr 20)]], [[(0, Ent.arr 3)], [(0, Ent.arr 30)]]], 3) := by rfl

end source_translation_reorg
end reorg

/-! non-vacuity: concrete wrap-around histories satisfy the hypotheses and the conclusions
    are the expected concrete buffers -/
example : (run 3 [[1, 2], [3, 4], [5]]).store = [some 4, some 5, some 3] := by decide
example : (run 3 [[1, 2], [3, 4], [5]]).size = 3 ∧ (run 3 [[1, 2], [3, 4], [5]]).cursor = 2 := by decide
example : ∀ xs ∈ [[1, 2], [3, 4], [5]], xs.length ≤ 3 := by decide
example : ((Deq.empty 2).pushMany [1, 2, 3]).items = [2, 3] := by decide

end Ring

namespace Ring
open ReorgGen MaSampleGen

/-! ## read side of `MultiAgentReplayBuffer`: `sample` / `_process_transition` / `stack_transitions`
(model: `Ring.maSample`; generated: `Gen/MaSampleGen.lean`; equalities: `Proofs/MaSampleGenEq.lean`) -/
section MaSample
variable {κ α : Type} [DecidableEq κ]

/-- pointwise reading of `optAll (l.map g) = some out` -/
theorem optAll_map_spec {β γ : Type} (g : β → Option γ) : ∀ (l : List β) (out : List γ), optAll (l.map g) = some out →
    out.length = l.length ∧ ∀ (i : Nat) (x : β), l[i]? = some x → ∃ y, g x = some y ∧ out[i]? = some y
  | [], out, h => by
    simp only [List.map_nil, optAll, Option.some.injEq] at h
    subst h; simp
  | b :: l, out, h => by
    rw [List.map_cons, optAll_cons] at h
    cases hg : g b with
    | none => simp [hg] at h
    | some y0 =>
      cases hr : optAll (l.map g) with
      | none => simp [hg, hr] at h
      | some ys =>
        simp only [hg, hr, Option.map_some, Option.some.injEq] at h
        subst h
        obtain ⟨hl, hp⟩ := optAll_map_spec g l ys hr
        refine ⟨by simp [hl], ?_⟩
        intro i x hx
        cases i with
        | zero => simp only [List.getElem?_cons_zero, Option.some.injEq] at hx; subst hx; exact ⟨y0, hg, by simp⟩
        | succ i => simp only [List.getElem?_cons_succ] at hx ⊢; exact hp i x hx

/-- row `r` of a stacked value holds exactly the members of the entry `e` (same container kind; for a dict the keys
    of the batch, for a tuple its member positions) -/
def Val.rowIs (v : Val κ α) (r : Nat) (e : Ent κ α) : Prop :=
  match v with
  | Val.arr rows => ∃ x, rows[r]? = some x ∧ e = Ent.arr x
  | Val.dict m => e.isDict = true ∧ ∀ (i : Nat) (p : κ × List α), m[i]? = some p → ∃ x, p.2[r]? = some x ∧ e.getKey p.1 = some x
  | Val.tup m => e.isTup = true ∧ ∀ (i : Nat) (rows : List α), m[i]? = some rows → ∃ x, rows[r]? = some x ∧ e.getIdx i = some x

/-- **`stack_transitions` keeps every row**: row `r` of the stacked value is entry `r` of the batch, member by member;
    dict keys / tuple length are those of the first entry -/
theorem C09_stack_rows (es : List (Ent κ α)) (w : Val κ α) (h : stackEnts es = some w) :
    ∀ r e, es[r]? = some e → Val.rowIs w r e := by
  intro r e hre
  cases es with
  | nil => simp [stackEnts] at h
  | cons e0 rest =>
    rcases e0 with x | kv | xs
    · simp only [stackEnts] at h
      cases ho : optAll ((Sum.inl x :: rest : List (Ent κ α)).map Ent.asArr) with
      | none => rw [ho] at h; simp at h
      | some rows =>
        rw [ho] at h; simp only [Option.map_some, Option.some.injEq] at h
        subst h
        obtain ⟨_, hp⟩ := optAll_map_spec Ent.asArr _ rows ho
        obtain ⟨y, hy, hry⟩ := hp r e hre
        refine ⟨y, hry, ?_⟩
        rcases e with x' | kv' | xs' <;> simp [Ent.asArr] at hy
        subst hy; rfl
    · simp only [stackEnts] at h
      cases hall : (Sum.inr (Sum.inl kv) :: rest : List (Ent κ α)).all Ent.isDict with
      | false => rw [hall] at h; simp at h
      | true =>
        rw [hall] at h; simp only [if_true] at h
        cases ho : optAll (kv.map (fun p => (optAll ((Sum.inr (Sum.inl kv) :: rest : List (Ent κ α)).map
            (fun e => e.getKey p.1))).map (fun rows => (p.1, rows)))) with
        | none => rw [ho] at h; simp at h
        | some m =>
          rw [ho] at h; simp only [Option.map_some, Option.some.injEq] at h
          subst h
          refine ⟨List.all_eq_true.mp hall e (List.mem_of_getElem? hre), ?_⟩
          intro i p hmp
          obtain ⟨hl, hp⟩ := optAll_map_spec _ kv m ho
          have hi : i < kv.length := by
            have := (List.getElem?_eq_some_iff.mp hmp).1; omega
          obtain ⟨y, hy, hmy⟩ := hp i kv[i] (List.getElem?_eq_getElem hi)
          rw [hmp] at hmy
          cases hrows : optAll ((Sum.inr (Sum.inl kv) :: rest : List (Ent κ α)).map (fun e => e.getKey kv[i].1)) with
          | none => rw [hrows] at hy; simp at hy
          | some rows =>
            rw [hrows] at hy; simp only [Option.map_some, Option.some.injEq] at hy
            simp only [Option.some.injEq] at hmy
            subst hmy; subst hy
            obtain ⟨_, hq⟩ := optAll_map_spec _ _ rows hrows
            obtain ⟨x, hx, hrx⟩ := hq r e hre
            exact ⟨x, hrx, hx⟩
    · simp only [stackEnts] at h
      cases hall : (Sum.inr (Sum.inr xs) :: rest : List (Ent κ α)).all Ent.isTup with
      | false => rw [hall] at h; simp at h
      | true =>
        rw [hall] at h; simp only [if_true] at h
        cases ho : optAll ((List.range xs.length).map (fun i => optAll ((Sum.inr (Sum.inr xs) :: rest : List (Ent κ α)).map
            (fun e => e.getIdx i)))) with
        | none => rw [ho] at h; simp at h
        | some m =>
          rw [ho] at h; simp only [Option.map_some, Option.some.injEq] at h
          subst h
          refine ⟨List.all_eq_true.mp hall e (List.mem_of_getElem? hre), ?_⟩
          intro i rows hmp
          obtain ⟨hl, hp⟩ := optAll_map_spec _ _ m ho
          have hi : i < xs.length := by
            have := (List.getElem?_eq_some_iff.mp hmp).1; simp at hl; omega
          obtain ⟨y, hy, hmy⟩ := hp i i (by simp [hi])
          rw [hmp] at hmy
          simp only [Option.some.injEq] at hmy
          subst hmy
          obtain ⟨_, hq⟩ := optAll_map_spec _ _ rows hy
          obtain ⟨x, hx, hrx⟩ := hq r e hre
          exact ⟨x, hrx, hx⟩

/-- **what `sample` returns, cell by cell**: it raises unless `0 ≤ k ≤ len`; otherwise the batch has one dict per field
    name (in `field_names` order), each listing every agent (in `agent_ids` order), and the value at (field `f`, agent
    `a`) is the stack of the entries stored for (`f`, `a`) in the drawn experiences `mem[draw[0]], mem[draw[1]], …`,
    in draw order, then cast (flag fields) and converted -/
theorem C09_masample_cells (cast tt : α → α) (names : List String) (agents : List κ) (mem : List (Trans κ α)) (k : Int)
    (draw : List Nat) (batch : List (Field κ α)) (h : maSample cast tt names agents mem k draw = some batch) :
    (0 ≤ k ∧ k ≤ (mem.length : Int)) ∧ batch.length = names.length ∧
    ∃ exps, optAll (draw.map (fun i => mem[i]?)) = some exps ∧ exps.length = draw.length ∧
      (∀ (r i : Nat), draw[r]? = some i → ∃ e, mem[i]? = some e ∧ exps[r]? = some e) ∧
      ∀ (j : Nat) (f : String), names[j]? = some f → ∃ fld, batch[j]? = some fld ∧ fld.length = agents.length ∧
        ∀ (n : Nat) (a : κ), agents[n]? = some a → ∃ v es w, fld[n]? = some (a, v) ∧
          maColumn names exps f a = some es ∧ stackEnts es = some w ∧ maPost cast tt f w = some v := by
  unfold maSample at h
  by_cases hk : k < 0 ∨ k > (mem.length : Int)
  · simp [hk] at h
  · rw [if_neg hk] at h
    cases hd : optAll (draw.map (fun i => mem[i]?)) with
    | none => rw [hd] at h; simp at h
    | some exps =>
      rw [hd] at h
      simp only [Option.bind_some] at h
      cases hp : maProcess cast tt names agents exps with
      | none => rw [hp] at h; simp at h
      | some t =>
        rw [hp] at h
        simp only [Option.map_some, Option.some.injEq] at h
        subst h
        obtain ⟨hel, hep⟩ := optAll_map_spec (fun i => mem[i]?) draw exps hd
        obtain ⟨htl, htp⟩ := optAll_map_spec _ names t hp
        refine ⟨by omega, by simp [htl], exps, rfl, hel, ?_, ?_⟩
        · intro r i hri
          obtain ⟨e, he, her⟩ := hep r i hri
          exact ⟨e, he, her⟩
        · intro j f hjf
          obtain ⟨y, hy, hty⟩ := htp j f hjf
          cases hrow : maFieldRow cast tt names agents exps f with
          | none => rw [hrow] at hy; simp at hy
          | some row =>
            rw [hrow] at hy
            simp only [Option.map_some, Option.some.injEq] at hy
            subst hy
            obtain ⟨hrl, hrp⟩ := optAll_map_spec _ agents row hrow
            refine ⟨row, by simp [hty], hrl, ?_⟩
            intro n a hna
            obtain ⟨y, hy, hry⟩ := hrp n a hna
            cases hcell : maCell cast tt names exps f a with
            | none => rw [hcell] at hy; simp at hy
            | some v =>
              rw [hcell] at hy
              simp only [Option.map_some, Option.some.injEq] at hy
              subst hy
              unfold maCell at hcell
              cases hc : maColumn names exps f a with
              | none => rw [hc] at hcell; simp at hcell
              | some es =>
                rw [hc] at hcell
                simp only [Option.bind_some] at hcell
                cases hs : stackEnts es with
                | none => rw [hs] at hcell; simp at hcell
                | some w =>
                  rw [hs] at hcell
                  simp only [Option.bind_some] at hcell
                  exact ⟨v, es, w, hry, rfl, hs, hcell⟩

/-- **(i) every returned row is a stored transition, intact**: row `r` of the batch is the experience stored at the
    drawn position `draw[r]` - for EVERY field and EVERY agent row `r` holds (member by member, `Val.rowIs`) the entry
    that this ONE experience stores for that field and agent, before the flag cast / tensor conversion `maPost` -/
theorem C09_masample_rows_intact (cast tt : α → α) (names : List String) (agents : List κ) (mem : List (Trans κ α))
    (k : Int) (draw : List Nat) (batch : List (Field κ α)) (h : maSample cast tt names agents mem k draw = some batch) :
    ∀ (r i : Nat), draw[r]? = some i → ∃ e, mem[i]? = some e ∧
      ∀ (j : Nat) (f : String), names[j]? = some f → ∀ (n : Nat) (a : κ), agents[n]? = some a →
        ∃ fld v w d ent, batch[j]? = some fld ∧ fld[n]? = some (a, v) ∧ maPost cast tt f w = some v ∧
          getField names e f = some d ∧ dget d a = some ent ∧ Val.rowIs w r ent := by
  obtain ⟨_, _, exps, _, _, hdraw, hcells⟩ := C09_masample_cells cast tt names agents mem k draw batch h
  intro r i hri
  obtain ⟨e, hme, her⟩ := hdraw r i hri
  refine ⟨e, hme, ?_⟩
  intro j f hjf n a hna
  obtain ⟨fld, hb, _, hfld⟩ := hcells j f hjf
  obtain ⟨v, es, w, hfn, hcol, hst, hpost⟩ := hfld n a hna
  obtain ⟨_, hcp⟩ := optAll_map_spec _ exps es hcol
  obtain ⟨ent, hent, hesr⟩ := hcp r e her
  cases hg : getField names e f with
  | none => rw [hg] at hent; simp at hent
  | some d =>
    rw [hg] at hent
    simp only [Option.bind_some] at hent
    exact ⟨fld, v, w, d, ent, hb, hfn, hpost, rfl, hent, C09_stack_rows es w hst r ent hesr⟩

omit [DecidableEq κ] in
/-- the post-processing of a non-flag field only converts the leaves; with a content-preserving conversion it is the
    identity (dtype erased) -/
theorem C09_masample_post_nonflag (cast tt : α → α) (f : String) (hf : isFlag f = false) (w v : Val κ α)
    (h : maPost cast tt f w = some v) : v = Val.mapLeaves tt w := by
  unfold maPost at h
  rw [hf] at h
  simpa using h.symm

/-- **(ii) duplicates within a batch = duplicates in the draw**: the code draws with `random.sample`, WITHOUT
    replacement, so the positions are pairwise distinct and two rows of one batch are two different slots of the
    memory; (a sampler with replacement would hand out the same slot twice: `C09_masample_replacement_witness`) -/
theorem C09_masample_no_duplicates (draw : List Nat) (hnd : draw.Nodup) (r r' i i' : Nat) (hr : draw[r]? = some i)
    (hr' : draw[r']? = some i') (hne : r ≠ r') : i ≠ i' := by
  intro hii
  subst hii
  obtain ⟨h1, e1⟩ := List.getElem?_eq_some_iff.mp hr
  obtain ⟨h2, e2⟩ := List.getElem?_eq_some_iff.mp hr'
  exact hne ((List.Nodup.getElem_inj_iff hnd).mp (e1.trans e2.symm))

theorem C09_masample_replacement_witness :
    maSample (κ := Nat) (α := Nat) id id ["state"] [0] [[[(0, Ent.arr 7)]], [[(0, Ent.arr 8)]]] 2 [1, 1] =
      some [[(0, Val.arr [8, 8])]] := by rfl

/-- **(iii) `sample` reads, it does not write**: the result depends on the stored transitions only, and an `_add`
    afterwards does not change what the same draw returned before (values; aliasing is measured by the harness) -/
theorem C09_masample_frame (cast tt : α → α) (names : List String) (agents : List κ) (mem : List (Trans κ α))
    (k : Int) (draw : List Nat) (batch : List (Field κ α)) (h : maSample cast tt names agents mem k draw = some batch)
    (x : Trans κ α) (hk : k ≤ (mem.length : Int)) :
    maSample cast tt names agents (mem ++ [x]) k draw = some batch := by
  obtain ⟨⟨hk0, _⟩, _, exps, hd, _, hdraw, _⟩ := C09_masample_cells cast tt names agents mem k draw batch h
  unfold maSample at h ⊢
  have hk1 : ¬ (k < 0 ∨ k > (mem.length : Int)) := by omega
  have hk2 : ¬ (k < 0 ∨ k > ((mem ++ [x]).length : Int)) := by simp; omega
  rw [if_neg hk1] at h
  rw [if_neg hk2]
  have : draw.map (fun i => (mem ++ [x])[i]?) = draw.map (fun i => mem[i]?) := by
    apply List.map_congr_left
    intro i hi
    obtain ⟨r, hr, rfl⟩ := List.getElem_of_mem hi
    obtain ⟨e, he, _⟩ := hdraw r draw[r] (List.getElem?_eq_getElem hr)
    have := (List.getElem?_eq_some_iff.mp he).1
    simp [List.getElem?_append_left this]
  rw [this]; exact h

/-! ### the same over the definitions generated from the source (`Gen/MaSampleGen.lean`) -/

/-- what `random.sample(population, k)` guarantees about the positions it draws: `k` of them, pairwise distinct
    (WITHOUT replacement), all inside the population -/
structure DrawOK (n : Nat) (k : Int) (draw : List Nat) : Prop where
  len : (draw.length : Int) = k
  nodup : draw.Nodup
  lt : ∀ i ∈ draw, i < n

example : DrawOK 5 3 [4, 0, 2] := ⟨rfl, by decide, by decide⟩

/-- every dict entry of a stored transition has distinct keys (Python dicts) -/
def TransKeysOK (t : Trans κ α) : Prop :=
  ∀ fd ∈ t, ∀ p ∈ fd, ∀ kv, p.2 = Ent.dict kv → (kv.map Prod.fst).Nodup

omit [DecidableEq κ] in
theorem getField_mem {β : Type} : ∀ (ns : List String) (e : List β) (f : String) (d : β), getField ns e f = some d → d ∈ e
  | [], e, f, d, h => by cases e <;> simp [getField] at h
  | n :: ns, [], f, d, h => by simp [getField] at h
  | n :: ns, x :: xs, f, d, h => by
    simp only [getField] at h
    by_cases hn : n = f
    · simp only [hn, if_true, Option.some.injEq] at h; subst h; simp
    · simp only [hn, if_false] at h; exact List.mem_cons_of_mem _ (getField_mem ns xs f d h)

theorem dget_mem {β : Type} : ∀ (d : List (κ × β)) (a : κ) (v : β), dget d a = some v → (a, v) ∈ d
  | [], a, v, h => by simp [dget] at h
  | (k', v') :: r, a, v, h => by
    simp only [dget] at h
    by_cases hk : k' = a
    · simp only [hk, if_true, Option.some.injEq] at h; subst h; subst hk; simp
    · simp only [hk, if_false] at h; exact List.mem_cons_of_mem _ (dget_mem r a v h)

/-- the key hypothesis of the equalities follows from well-formed stored transitions -/
theorem colKeysOK_of_stored (names : List String) (exps : List (Trans κ α)) (h : ∀ t ∈ exps, TransKeysOK t) :
    ColKeysOK names exps := by
  intro f a es hcol kv r hes
  obtain ⟨hl, hp⟩ := optAll_map_spec _ exps es hcol
  cases exps with
  | nil => subst hes; simp at hl
  | cons e rest =>
    obtain ⟨y, hy, hy0⟩ := hp 0 e rfl
    subst hes
    simp only [List.getElem?_cons_zero, Option.some.injEq] at hy0
    subst hy0
    cases hg : getField names e f with
    | none => rw [hg] at hy; simp at hy
    | some d =>
      rw [hg] at hy
      simp only [Option.bind_some] at hy
      exact h e (by simp) d (getField_mem names e f d hg) _ (dget_mem d a _ hy) kv rfl

variable (np : α → α) (rn : α → Nat) (ex : Int → α → α) (au tt : α → α)

/-- **(i) over the generated `sample`**: whenever the translated `sample(k)` returns a batch, row `r` of EVERY field and
    EVERY agent holds, member by member, what the ONE experience stored at the drawn position `draw[r]` holds for that
    field and agent (before the flag cast / tensor conversion): each returned row is a stored transition, intact -/
theorem C09_source_translation_masample_rows_intact (hnp : ∀ x, np x = x) (hex : ∀ a x, ex a x = x)
    (names : List String) (ags : List κ) (st : MA κ α) (k : Int) (draw : List Nat)
    (hstored : ∀ t ∈ st.memory.items, TransKeysOK t) (hnames : names.Nodup) (hags : ags.Nodup)
    (batch : List (Field κ α))
    (h : MultiAgentReplayBuffer.sample np rn ex au tt names ags st k draw = some batch) :
    (0 ≤ k ∧ k ≤ RingGen.MultiAgentReplayBuffer.len st) ∧ batch.length = names.length ∧
    ∀ (r i : Nat), draw[r]? = some i → ∃ e, st.memory.items[i]? = some e ∧
      ∀ (j : Nat) (f : String), names[j]? = some f → ∀ (n : Nat) (a : κ), ags[n]? = some a →
        ∃ fld v w d ent, batch[j]? = some fld ∧ fld[n]? = some (a, v) ∧ maPost au tt f w = some v ∧
          getField names e f = some d ∧ dget d a = some ent ∧ Val.rowIs w r ent := by
  have hcol : ∀ exps, optAll (draw.map (fun i => st.memory.items[i]?)) = some exps → ColKeysOK names exps := by
    intro exps hd
    apply colKeysOK_of_stored
    intro t ht
    obtain ⟨_, hp⟩ := optAll_map_spec (fun i => st.memory.items[i]?) draw exps hd
    obtain ⟨r, hr, rfl⟩ := List.getElem_of_mem ht
    have hr' : r < draw.length := by omega
    obtain ⟨y, hy, hyr⟩ := hp r draw[r] (List.getElem?_eq_getElem hr')
    rw [List.getElem?_eq_getElem hr] at hyr
    simp only [Option.some.injEq] at hyr
    subst hyr
    exact hstored _ (List.mem_of_getElem? hy)
  rw [gen_masample_eq np rn ex au tt hnp hex names ags st k draw hcol hnames hags] at h
  obtain ⟨hk, hl, _⟩ := C09_masample_cells au tt names ags st.memory.items k draw batch h
  exact ⟨by simpa [RingGen.MultiAgentReplayBuffer.len, RingGen.PyDeque.len] using hk, hl,
    C09_masample_rows_intact au tt names ags st.memory.items k draw batch h⟩

omit [DecidableEq κ] in
theorem optAll_map_total {β γ : Type} (g : β → Option γ) : ∀ (l : List β), (∀ x ∈ l, ∃ y, g x = some y) →
    ∃ out, optAll (l.map g) = some out
  | [], _ => ⟨[], rfl⟩
  | b :: l, h => by
    obtain ⟨y, hy⟩ := h b (by simp)
    obtain ⟨out, ho⟩ := optAll_map_total g l (fun x hx => h x (List.mem_cons_of_mem _ hx))
    exact ⟨y :: out, by rw [List.map_cons, optAll_cons, hy, ho]; rfl⟩

omit [DecidableEq κ] in
/-- **(ii) over the generated `sample`**: `random.sample` is the sampler, so under its guarantee (`DrawOK`: `k` positions
    drawn WITHOUT replacement) the call does not raise for `k ≤ len`, two rows of one batch come from two different
    slots, and every slot lies inside the memory -/
theorem C09_source_translation_masample_no_duplicates (st : MA κ α) (k : Int) (draw : List Nat)
    (hd : DrawOK st.memory.items.length k draw) :
    (∀ (r r' i i' : Nat), draw[r]? = some i → draw[r']? = some i' → r ≠ r' → i ≠ i') ∧
    ∃ exps, pyRandomSample st.memory.items k draw = some exps ∧ exps.length = draw.length ∧
      ∀ (r i : Nat), draw[r]? = some i → i < st.memory.items.length ∧ exps[r]? = st.memory.items[i]? := by
  refine ⟨fun r r' i i' h1 h2 hne => C09_masample_no_duplicates draw hd.nodup r r' i i' h1 h2 hne, ?_⟩
  have hle : draw.length ≤ st.memory.items.length := by
    have := (List.Nodup.subperm hd.nodup (l₂ := List.range st.memory.items.length)
      (fun i hi => List.mem_range.mpr (hd.lt i hi))).length_le
    simpa using this
  obtain ⟨exps, he⟩ := optAll_map_total (fun i => st.memory.items[i]?) draw (fun i hi =>
    ⟨st.memory.items[i]'(hd.lt i hi), List.getElem?_eq_getElem (hd.lt i hi)⟩)
  obtain ⟨hl, hp⟩ := optAll_map_spec _ draw exps he
  refine ⟨exps, ?_, hl, ?_⟩
  · unfold pyRandomSample
    have hk : ¬ (k < 0 ∨ k > (st.memory.items.length : Int)) := by have := hd.len; omega
    rw [if_neg hk, pyAll_eq, he]
  · intro r i hri
    obtain ⟨y, hy, hyr⟩ := hp r i hri
    exact ⟨hd.lt i (List.mem_of_getElem? hri), by rw [hyr, hy]⟩

/-- asking for more than is stored, or for a negative number, raises (`ValueError` of `random.sample`) -/
theorem C09_source_translation_masample_raises_beyond_len (names : List String) (ags : List κ) (st : MA κ α) (k : Int)
    (draw : List Nat) (hk : k < 0 ∨ k > RingGen.MultiAgentReplayBuffer.len st) :
    MultiAgentReplayBuffer.sample np rn ex au tt names ags st k draw = none := by
  unfold MultiAgentReplayBuffer.sample pyRandomSample
  simp only [RingGen.MultiAgentReplayBuffer.len, RingGen.PyDeque.len] at hk
  simp [hk]

/-- **(iii) over the generated methods**: `sample` returns the batch only - the translated method has no state output,
    the deque after the call IS the deque before - and a batch handed out is a value: after a later
    `save_to_memory_single_env` (buffer not yet full, so no slot moves) the same draw still gives the same batch -/
theorem C09_source_translation_masample_frame (hnp : ∀ x, np x = x) (hex : ∀ a x, ex a x = x) (isnd : α → Bool)
    (names : List String) (ags : List κ) (st : MA κ α) (m : Nat) (hinv : MAInv st m) (k : Int) (draw : List Nat)
    (hstored : ∀ t ∈ st.memory.items, TransKeysOK t) (hnames : names.Nodup) (hags : ags.Nodup)
    (batch : List (Field κ α)) (h : MultiAgentReplayBuffer.sample np rn ex au tt names ags st k draw = some batch)
    (x : Trans κ α) (hx : TransKeysOK x) (hroom : st.memory.items.length < m) :
    ∃ st', MultiAgentReplayBuffer.save_to_memory_single_env np isnd st x = some st' ∧
      st'.memory.items = st.memory.items ++ [x] ∧
      MultiAgentReplayBuffer.sample np rn ex au tt names ags st' k draw = some batch := by
  obtain ⟨st', hs, _, hit, _⟩ := gen_reorg_single_eq np isnd st m hinv x
  have hit' : st'.memory.items = st.memory.items ++ [x] := by
    rw [hit, lastN]
    have : (st.memory.items ++ [x]).length - m = 0 := by simp; omega
    rw [this]; rfl
  refine ⟨st', hs, hit', ?_⟩
  have mkcol : ∀ (s : MA κ α), (∀ t ∈ s.memory.items, TransKeysOK t) →
      ∀ exps, optAll (draw.map (fun i => s.memory.items[i]?)) = some exps → ColKeysOK names exps := by
    intro s hst exps hd
    apply colKeysOK_of_stored
    intro t ht
    obtain ⟨_, hp⟩ := optAll_map_spec (fun i => s.memory.items[i]?) draw exps hd
    obtain ⟨r, hr, rfl⟩ := List.getElem_of_mem ht
    have hr' : r < draw.length := by omega
    obtain ⟨y, hy, hyr⟩ := hp r draw[r] (List.getElem?_eq_getElem hr')
    rw [List.getElem?_eq_getElem hr] at hyr
    simp only [Option.some.injEq] at hyr
    subst hyr
    exact hst _ (List.mem_of_getElem? hy)
  have hst' : ∀ t ∈ st'.memory.items, TransKeysOK t := by
    intro t ht
    rw [hit'] at ht
    rcases List.mem_append.mp ht with h1 | h1
    · exact hstored t h1
    · simp only [List.mem_singleton] at h1; subst h1; exact hx
  rw [gen_masample_eq np rn ex au tt hnp hex names ags st k draw (mkcol st hstored) hnames hags] at h
  rw [gen_masample_eq np rn ex au tt hnp hex names ags st' k draw (mkcol st' hst') hnames hags, hit']
  obtain ⟨⟨_, hk⟩, _⟩ := C09_masample_cells au tt names ags st.memory.items k draw batch h
  exact C09_masample_frame au tt names ags st.memory.items k draw batch h x hk

/-- **(iv) `len` and recency, composed with the storage side**: after any history of single and vectorised
    `save_to_memory` calls on an empty buffer of capacity `m`, `len(buffer)` is `min(m, number added)`, `sample(k)` raises
    for `k` beyond it, and every experience a batch row comes from is one of the last `m` transitions added -/
theorem C09_source_translation_masample_len_recent (hnp : ∀ x, np x = x) (isnd : α → Bool) (m : Nat)
    (calls : List (MACall κ α)) (st : MA κ α) (hist : List (Trans κ α)) (hinv : MAInv st m) (hempty : st.memory.items = [])
    (hkeys : ∀ c ∈ calls, ∀ a, c = MACall.vect a → ∀ f ∈ a, (f.map Prod.fst).Nodup)
    (hh : maCallHist calls = some hist) :
    ∃ st', genReorgRun np isnd st calls = some st' ∧
      RingGen.MultiAgentReplayBuffer.len st' = ((min m hist.length : Nat) : Int) ∧
      (∀ (names : List String) (ags : List κ) (k : Int) (draw : List Nat), k > ((min m hist.length : Nat) : Int) →
        MultiAgentReplayBuffer.sample np rn ex au tt names ags st' k draw = none) ∧
      ∀ (i : Nat) (e : Trans κ α), st'.memory.items[i]? = some e → e ∈ lastN m hist := by
  obtain ⟨st', hrun, _, hit, _⟩ := C09_source_translation_reorg_last_n np isnd hnp m calls st hist hinv hkeys hh
  rw [hempty, List.nil_append] at hit
  have hlen : RingGen.MultiAgentReplayBuffer.len st' = ((min m hist.length : Nat) : Int) := by
    simp only [RingGen.MultiAgentReplayBuffer.len, RingGen.PyDeque.len, hit, lastN, List.length_drop]
    congr 1; omega
  refine ⟨st', hrun, hlen, ?_, ?_⟩
  · intro names ags k draw hk
    exact C09_source_translation_masample_raises_beyond_len np rn ex au tt names ags st' k draw (Or.inr (by rw [hlen]; exact hk))
  · intro i e hie
    rw [hit] at hie
    exact List.mem_of_getElem? hie

example : TransKeysOK ([[(0, Ent.arr 7), (1, Ent.dict [(3, 1), (4, 2)])]] : Trans Nat Nat) := by
  intro fd hfd p hp kv hkv
  simp only [List.mem_singleton] at hfd
  subst hfd
  simp only [List.mem_cons, List.not_mem_nil, or_false] at hp
  rcases hp with rfl | rfl
  · cases hkv
  · cases hkv; decide

example : MultiAgentReplayBuffer.sample (κ := Nat) (α := Nat) id (fun _ => 1) (fun _ x => x) id id ["state", "done"] [0, 1]
    { memory := { maxlen := some 3, items := [[[(0, Ent.arr 10), (1, Ent.tup [11, 12])], [(1, Ent.arr 0), (0, Ent.arr 1)]],
                                              [[(1, Ent.tup [21, 22]), (0, Ent.arr 20)], [(0, Ent.arr 1), (1, Ent.arr 1)]]] },
      counter := 2 } 2 [1, 0] =
    some [[(0, Val.arr [20, 10]), (1, Val.tup [[21, 11], [22, 12]])], [(0, Val.arr [1, 1]), (1, Val.arr [1, 0])]] := by rfl

end MaSample
end Ring
