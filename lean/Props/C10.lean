import Props.C09
import Proofs.NStepAlign
import Proofs.NStepGenEq
import Proofs.SamplerGenEq

/-!
# C10 — n-step returns never cross an episode boundary and stay aligned with 1-step data

Model: `Model/NStep.lean`.  A *row* is one vectorised transition (one `Cell` per environment), a
*window* is the content of `MultiStepReplayBuffer.n_step_buffer` (oldest row first), a *stream* is
the list of all rows ever passed to `n_step_memory.add`, `run n γ fixed capN capO stream` is the
state of the n-step buffer and of the 1-step buffer that `train_off_policy` fills alongside it.

`fuseAt true`  models `_get_n_step_info` as repaired by `fixes/C10-first-done.diff`;
`fuseAt false` models the code before the repair (it never looked at `done` of window row 0); the
`…_witness` theorems record that this variant violates the property.

Every theorem quantifies over all `n ≥ 1`, all discounts, all capacities, all numbers of
environments and all streams / windows (no size bound).  "Episode end" is what the buffer is told
through the `done` field.
-/
namespace NStep
open Finset Ring

/-- **fused record = specification.**  For every non-empty window and every environment `e` the
    stored record carries obs / action of row 0, the discounted sum `Σ_{i<k} γ^i · r_i` over the
    first `k` rows, and next_obs / done of row `k-1`, where `k` = 1 + index of the first row whose
    `done.any()` holds (row 0 included), capped at the window length (= n for a full window). -/
theorem C10_fused_is_spec (γ : Rat) (w : List Row) (hne : w ≠ []) (e : Nat) :
    fuseAt true γ w e =
      { obs := (cellAt w 0 e).obs, act := (cellAt w 0 e).act,
        rew := ∑ i ∈ range (cutLen w), γ ^ i * (cellAt w i e).rew,
        nxt := (cellAt w (cutLen w - 1) e).nxt,
        done := (cellAt w (cutLen w - 1) e).done } ∧
    cutLen w = min (w.findIdx rowDone + 1) w.length ∧ 1 ≤ cutLen w ∧ cutLen w ≤ w.length :=
  ⟨fuseAt_spec γ w hne e, cutLen_eq_findIdx w, cutLen_pos hne, cutLen_le w⟩

/-- the rows that are summed form one episode segment: none of them except the last is terminal in
    any environment, and a window that was cut short ends on a terminal row -/
theorem C10_cut_at_first_terminal (w : List Row) :
    (∀ j, j + 1 < cutLen w → ∀ e, e < (w.getD j []).length → (cellAt w j e).done = false) ∧
    (cutLen w < w.length → rowDone (w.getD (cutLen w - 1) []) = true) := by
  refine ⟨?_, cutLen_last_done w⟩
  intro j hj e he
  have h := cutLen_before_not_done w j hj
  cases hd : (cellAt w j e).done with
  | false => rfl
  | true => rw [rowDone_of_cell _ e he hd] at h; exact absurd h (by decide)

/-- **nothing after a terminal step is mixed in** (window form).  If row `d` of the window is
    terminal in some environment, the fused record of every environment is the same whatever rows
    follow `d` — rewards, next observations and done flags behind it cannot enter. -/
theorem C10_no_cross_episode (γ : Rat) (p : List Row) (d : Row) (hd : rowDone d = true)
    (rest rest' : List Row) (e : Nat) :
    fuseAt true γ (p ++ d :: rest) e = fuseAt true γ (p ++ d :: rest') e :=
  fuseAt_indep γ e p d hd rest rest'

/-- the same for the environment's own terminal step -/
theorem C10_no_cross_episode_own_env (γ : Rat) (p : List Row) (d : Row) (e : Nat) (he : e < d.length)
    (hd : (d.getD e default).done = true) (rest rest' : List Row) :
    fuseAt true γ (p ++ d :: rest) e = fuseAt true γ (p ++ d :: rest') e :=
  fuseAt_indep γ e p d (rowDone_of_cell d e he hd) rest rest'

/-- **nothing after a terminal step is mixed in** (stream form, arbitrary streams).  Two streams
    that coincide up to and including a terminal row `d` at position `pre.length` produce the same
    k-th n-step record for every start position `k ≤ pre.length`, whatever happens afterwards. -/
theorem C10_no_cross_episode_stream (n m capN capO : Nat) (γ : Rat) (hn : 1 ≤ n)
    (pre post post' : List Row) (d : Row) (hd : rowDone d = true)
    (h1 : ∀ r ∈ pre ++ d :: post, r.length = m) (h2 : ∀ r ∈ pre ++ d :: post', r.length = m)
    (k : Nat) (hk : k ≤ pre.length)
    (hk1 : k < (pre ++ d :: post).length + 1 - n) (hk2 : k < (pre ++ d :: post').length + 1 - n) :
    (run n γ true capN capO (pre ++ d :: post)).nRows.getD k [] =
      (run n γ true capN capO (pre ++ d :: post')).nRows.getD k [] := by
  rw [(sinv_kth (run_inv n γ true capN capO m hn _ h1) k hk1).1,
    (sinv_kth (run_inv n γ true capN capO m hn _ h2) k hk2).1]
  exact window_indep γ n k pre d hd post post' hk

/-- **every stored transition starts from an observed pair**: obs and action of the fused record
    are those of window row 0 (holds for the repaired and the unrepaired variant) -/
theorem C10_starts_observed (fixed : Bool) (γ : Rat) (w : List Row) (e : Nat) :
    (fuseAt fixed γ w e).obs = (cellAt w 0 e).obs ∧ (fuseAt fixed γ w e).act = (cellAt w 0 e).act :=
  fuseAt_key fixed γ w e

/-- **k-th n-step record ↔ k-th 1-step record**, for arbitrary streams (induction over the stream).
    After any stream of `L` rows both buffers have received exactly `K = L + 1 - n` records per
    environment; the k-th n-step record is the fusion of the window starting at stream position `k`,
    the k-th 1-step record is stream row `k` itself, and both describe the same (obs, action). -/
theorem C10_kth_records_aligned (n m capN capO : Nat) (γ : Rat) (fixed : Bool) (hn : 1 ≤ n)
    (rows : List Row) (hrows : ∀ r ∈ rows, r.length = m) :
    let s := run n γ fixed capN capO rows
    s.nRows.length = rows.length + 1 - n ∧ s.oRows.length = rows.length + 1 - n ∧
    s.window = rows.drop (rows.length - n) ∧
    ∀ k e, k < rows.length + 1 - n → e < m →
      cellAt s.nRows k e = fuseAt fixed γ ((rows.drop k).take n) e ∧
      cellAt s.oRows k e = cellAt rows k e ∧
      (cellAt s.nRows k e).obs = (cellAt s.oRows k e).obs ∧
      (cellAt s.nRows k e).act = (cellAt s.oRows k e).act := by
  intro s
  have inv := run_inv n γ fixed capN capO m hn rows hrows
  obtain ⟨c1, c2⟩ := sinv_counts hn inv
  refine ⟨c1, c2, inv.window, ?_⟩
  intro k e hk he
  obtain ⟨a, b⟩ := sinv_cells hn hrows inv k e hk he
  have key := fuseAt_key fixed γ ((rows.drop k).take n) e
  rw [window_cellAt_zero rows n k e hn (by omega)] at key
  exact ⟨a, b, by rw [a, b]; exact key.1, by rw [a, b]; exact key.2⟩

/-- **alignment survives wrap-around** (by the C09 ring theorems).  With equal capacities and
    `m ≤ cap` environments, after any stream both storages have the same fill level, and every
    filled slot `j` holds in the n-step storage the fused record of (start position `k`,
    environment `e`) and in the 1-step storage the raw transition of the *same* `(k, e)`; that
    record is one of the `cap` most recent ones and sits in slot `(k·m+e) mod cap`. -/
theorem C10_aligned_through_wraparound (n m cap : Nat) (γ : Rat) (fixed : Bool) (hn : 1 ≤ n)
    (hm : 0 < m) (hmc : m ≤ cap) (rows : List Row) (hrows : ∀ r ∈ rows, r.length = m) :
    let s := run n γ fixed cap cap rows
    let K := rows.length + 1 - n
    s.nbuf.size = min (K * m) cap ∧ s.obuf.size = s.nbuf.size ∧
    ∀ j, j < s.nbuf.size → ∃ k e, k < K ∧ e < m ∧ (k * m + e) % cap = j ∧ K * m - (k * m + e) ≤ cap ∧
      s.nSlot j = some (fuseAt fixed γ ((rows.drop k).take n) e) ∧
      s.oSlot j = some (cellAt rows k e) ∧
      (fuseAt fixed γ ((rows.drop k).take n) e).obs = (cellAt rows k e).obs ∧
      (fuseAt fixed γ ((rows.drop k).take n) e).act = (cellAt rows k e).act := by
  intro s K
  have hpos : 0 < cap := by omega
  have inv := run_inv n γ fixed cap cap m hn rows hrows
  obtain ⟨c1, c2⟩ := sinv_counts hn inv
  obtain ⟨w1, w2⟩ := sinv_widths hn hrows inv
  have hops : ∀ xs ∈ batches K m, xs.length ≤ cap := by
    intro xs hx; rw [batches_width K m xs hx]; exact hmc
  have hflat : (batches K m).flatten.length = K * m := by rw [batches_flatten]; simp
  have hnb : s.nbuf = Ring.run cap (batches K m) := inv.nbuf
  have hob : s.obuf = Ring.run cap (batches K m) := inv.obuf
  have hsz := (C09_len_is_min cap hpos (batches K m) hops).1
  rw [hflat] at hsz
  refine ⟨by rw [hnb]; exact hsz, by rw [hnb, hob], ?_⟩
  intro j hj
  rw [hnb] at hj
  obtain ⟨i, hi, hrec, hmod, hst⟩ := C09_stored_are_recent cap hpos (batches K m) hops j hj
  have hid : (batches K m).flatten[i] = i := by
    rw [List.getElem_of_eq (batches_flatten K m) hi, List.getElem_range]
  rw [hid] at hst
  rw [hflat] at hi hrec
  have hdm : i / m * m + i % m = i := Nat.div_add_mod' i m
  have hk : i / m < K := (Nat.div_lt_iff_lt_mul hm).mpr hi
  have he : i % m < m := Nat.mod_lt _ hm
  obtain ⟨a, b⟩ := sinv_cells hn hrows inv (i / m) (i % m) hk he
  have key := fuseAt_key fixed γ ((rows.drop (i / m)).take n) (i % m)
  rw [window_cellAt_zero rows n (i / m) (i % m) hn (by omega)] at key
  refine ⟨i / m, i % m, hk, he, by rw [hdm]; exact hmod, by rw [hdm]; exact hrec, ?_, ?_, key.1, key.2⟩
  · unfold State.nSlot
    rw [hnb, List.getD_eq_getElem?_getD, hst]
    simp only [Option.getD_some]
    have hf := flat_cell s.nRows w1 (i / m) (i % m) (by rw [c1]; exact hk) he
    rw [hdm] at hf
    rw [hf, a]
  · unfold State.oSlot
    rw [hob, List.getD_eq_getElem?_getD, hst]
    simp only [Option.getD_some]
    have hf := flat_cell s.oRows w2 (i / m) (i % m) (by rw [c2]; exact hk) he
    rw [hdm] at hf
    rw [hf, b]

/-- conversely, each of the `cap` most recent records is still present, in both storages, in the
    same slot -/
theorem C10_recent_records_stored (n m cap : Nat) (γ : Rat) (fixed : Bool) (hn : 1 ≤ n)
    (hmc : m ≤ cap) (hpos : 0 < cap) (rows : List Row) (hrows : ∀ r ∈ rows, r.length = m)
    (k e : Nat) (hk : k < rows.length + 1 - n) (he : e < m)
    (hrecent : (rows.length + 1 - n) * m - (k * m + e) ≤ cap) :
    let s := run n γ fixed cap cap rows
    s.nSlot ((k * m + e) % cap) = some (fuseAt fixed γ ((rows.drop k).take n) e) ∧
    s.oSlot ((k * m + e) % cap) = some (cellAt rows k e) := by
  intro s
  have inv := run_inv n γ fixed cap cap m hn rows hrows
  obtain ⟨c1, c2⟩ := sinv_counts hn inv
  obtain ⟨w1, w2⟩ := sinv_widths hn hrows inv
  obtain ⟨a, b⟩ := sinv_cells hn hrows inv k e hk he
  have hnb0 := inv.nbuf
  have hob0 := inv.obuf
  generalize hK : rows.length + 1 - n = K at *
  have hops : ∀ xs ∈ batches K m, xs.length ≤ cap := by
    intro xs hx; rw [batches_width K m xs hx]; exact hmc
  have hflat : (batches K m).flatten.length = K * m := by rw [batches_flatten]; simp
  have hi : k * m + e < (batches K m).flatten.length := by
    rw [hflat]
    calc k * m + e < k * m + m := by omega
      _ = (k + 1) * m := by rw [Nat.succ_mul]
      _ ≤ K * m := Nat.mul_le_mul_right m hk
  have hst := C09_recent_are_stored cap hpos (batches K m) hops (k * m + e) hi (by rw [hflat]; exact hrecent)
  have hid : (batches K m).flatten[k * m + e] = k * m + e := by
    rw [List.getElem_of_eq (batches_flatten K m) hi, List.getElem_range]
  rw [hid] at hst
  have hnb : s.nbuf = Ring.run cap (batches K m) := hnb0
  have hob : s.obuf = Ring.run cap (batches K m) := hob0
  constructor
  · unfold State.nSlot
    rw [hnb, List.getD_eq_getElem?_getD, hst]
    simp only [Option.getD_some]
    rw [flat_cell s.nRows w1 _ _ (by rw [c1]; exact hk) he, a]
  · unfold State.oSlot
    rw [hob, List.getD_eq_getElem?_getD, hst]
    simp only [Option.getD_some]
    rw [flat_cell s.oRows w2 _ _ (by rw [c2]; exact hk) he, b]

/-! ### the theorems over the definitions generated from the source text

`Gen/NStepGen.lean` is written by `harness/py2lean_nstep.py` from the text of
`MultiStepReplayBuffer.add` / `_get_n_step_info` on every run; `Proofs/NStepGenEq.lean` proves the
generated definitions equal to the model.  A transition is `NStepGen.TD` (one vector per key, one entry
per environment); `TDWF m t` says its five vectors have length `m` (`batch_size = [m]`). -/
section source_translation
open NStepGen

/-- every generated definition equals the hand-written model function: the `for` loop with `break`
    on whole vectors is the model's loop per environment, `_get_n_step_info` is `fuseRow true`,
    `deque.append` is `push`, `add` is the window / stored / returned part of `State.add`, and folding
    `add` over a stream is `run` -/
theorem C10_source_translation_equalities (n m : Nat) (γ : Rat) :
    (∀ (rest : List Row) (i : Nat) (first : TD) (nsr : List Rat), (∀ r ∈ rest, r.length = m) →
      first.next_obs.length = m → first.done.length = m → nsr.length = m →
      get_n_step_info_loop0 n γ i (rest.map toTD) first nsr =
        pack m first (fun e => loop γ e i (accAt first nsr e) rest)) ∧
    (∀ (w : List Row), w ≠ [] → (∀ r ∈ w, r.length = m) →
      get_n_step_info n γ (w.map toTD) = some (toTD (fuseRow true γ w))) ∧
    (∀ (w : List Row) (r : Row), dequeAppend n (w.map toTD) (toTD r) = (push n w r).map toTD) ∧
    (1 ≤ n → ∀ (w : List Row) (r : Row), (∀ x ∈ w, x.length = m) → r.length = m →
      NStepGen.add n γ (w.map toTD) (toTD r) = some (addSpec n γ w r)) ∧
    (1 ≤ n → ∀ (capN capO : Nat) (rows : List Row), (∀ r ∈ rows, r.length = m) →
      genRun n γ (rows.map toTD) = some (genView (run n γ true capN capO rows))) ∧
    (∀ t, TDWF m t → toTD (ofTD t) = t) ∧ (∀ r : Row, ofTD (toTD r) = r) :=
  ⟨gen_loop_eq n γ m, fun w h1 h2 => gen_get_n_step_info_eq n γ m w h1 h2, dequeAppend_toTD n,
   fun hn w r hw hr => gen_add_eq n γ m hn w r hw hr,
   fun hn capN capO rows h => gen_run_eq n m capN capO γ hn rows h, toTD_ofTD m, ofTD_toTD⟩

/-- **fused record = specification**, over the generated `_get_n_step_info`.  For every non-empty
    window of well-formed transitions the call succeeds and, for every environment `e`, the record
    carries obs / action of row 0, the discounted sum `Σ_{i<k} γ^i · r_i` over the first `k` rows and
    next_obs / done of row `k-1`, where `k = genCut W` = 1 + index of the first row whose `done.any()`
    holds (row 0 included), capped at the window length. -/
theorem C10_source_translation_fused_is_spec (n m : Nat) (γ : Rat) (W : List TD)
    (hW : ∀ t ∈ W, TDWF m t) (hne : W ≠ []) :
    ∃ F, get_n_step_info n γ W = some F ∧ TDWF m F ∧
      genCut W = min (W.findIdx (fun t => tAny t.done) + 1) W.length ∧ 1 ≤ genCut W ∧ genCut W ≤ W.length ∧
      ∀ e, e < m →
        F.obs.getD e 0 = (W.getD 0 default).obs.getD e 0 ∧
        F.action.getD e 0 = (W.getD 0 default).action.getD e 0 ∧
        F.reward.getD e 0 = ∑ i ∈ range (genCut W), γ ^ i * (W.getD i default).reward.getD e 0 ∧
        F.next_obs.getD e 0 = (W.getD (genCut W - 1) default).next_obs.getD e 0 ∧
        F.done.getD e false = (W.getD (genCut W - 1) default).done.getD e false := by
  have hw := map_ofTD_widths m W hW
  have hne' : W.map ofTD ≠ [] := by simpa using hne
  have heq := gen_get_n_step_info_eq n γ m (W.map ofTD) hne' hw
  rw [map_toTD_ofTD m W hW] at heq
  have hcut := cutLen_ofTD m W hW
  have hpos : 1 ≤ genCut W := hcut ▸ cutLen_pos hne'
  have hle : genCut W ≤ W.length := by have := cutLen_le (W.map ofTD); rw [hcut] at this; simpa using this
  have hlen : (fuseRow true γ (W.map ofTD)).length = m := by
    rw [fuseRow_length]
    cases W with
    | nil => exact absurd rfl hne
    | cons t rest => exact ofTD_width m t (hW t (by simp))
  refine ⟨_, heq, hlen ▸ toTD_wf _, genCut_eq_findIdx W, hpos, hle, ?_⟩
  intro e he
  obtain ⟨g1, g2, g3, g4, g5⟩ := toTD_getD (fuseRow true γ (W.map ofTD)) e (by omega)
  have hhead : e < ((W.map ofTD).headD []).length := by
    cases W with
    | nil => exact absurd rfl hne
    | cons t rest => simpa [ofTD_width m t (hW t (by simp))] using he
  have hspec := fuseAt_spec γ (W.map ofTD) hne' e
  rw [g1, g2, g3, g4, g5, fuseRow_getD true γ _ e hhead, hspec, hcut]
  have c0 := cellAt_ofTD m W hW 0 e (by omega) he
  have cl := cellAt_ofTD m W hW (genCut W - 1) e (by omega) he
  refine ⟨by rw [c0], by rw [c0], ?_, by rw [cl], by rw [cl]⟩
  show (∑ i ∈ range (genCut W), γ ^ i * (cellAt (W.map ofTD) i e).rew) = _
  apply Finset.sum_congr rfl
  intro i hi
  rw [cellAt_ofTD m W hW i e (by have := Finset.mem_range.mp hi; omega) he]

/-- **nothing after a terminal row enters**, over the generated `_get_n_step_info`: if row `d` of the
    window is terminal in some environment, the result is the same whatever rows follow `d` -/
theorem C10_source_translation_no_cross_episode (n m : Nat) (γ : Rat) (p : List TD) (d : TD)
    (hd : tAny d.done = true) (rest rest' : List TD)
    (h1 : ∀ t ∈ p ++ d :: rest, TDWF m t) (h2 : ∀ t ∈ p ++ d :: rest', TDWF m t) :
    get_n_step_info n γ (p ++ d :: rest) = get_n_step_info n γ (p ++ d :: rest') := by
  have hdw : TDWF m d := h1 d (by simp)
  have e1 := gen_get_n_step_info_eq n γ m ((p ++ d :: rest).map ofTD) (by simp) (map_ofTD_widths m _ h1)
  have e2 := gen_get_n_step_info_eq n γ m ((p ++ d :: rest').map ofTD) (by simp) (map_ofTD_widths m _ h2)
  rw [map_toTD_ofTD m _ h1] at e1
  rw [map_toTD_ofTD m _ h2] at e2
  rw [e1, e2]
  simp only [List.map_append, List.map_cons]
  rw [fuseRow_indep γ (p.map ofTD) (ofTD d) (by rw [rowDone_ofTD m d hdw]; exact hd)]

/-- **a window that starts on a terminal row is returned unchanged**, over the generated
    `_get_n_step_info` (the repair of defect D-C10: nothing of the next episode is mixed in) -/
theorem C10_source_translation_terminal_first_unchanged (n m : Nat) (γ : Rat) (r0 : TD) (rest : List TD)
    (hd : tAny r0.done = true) (h : ∀ t ∈ r0 :: rest, TDWF m t) :
    get_n_step_info n γ (r0 :: rest) = some r0 := by
  have h0 : TDWF m r0 := h r0 (by simp)
  have e1 := gen_get_n_step_info_eq n γ m ((r0 :: rest).map ofTD) (by simp) (map_ofTD_widths m _ h)
  rw [map_toTD_ofTD m _ h] at e1
  rw [e1, List.map_cons, fuseRow_first_done γ _ _ (by rw [rowDone_ofTD m r0 h0]; exact hd), toTD_ofTD m r0 h0]

/-- **k-th n-step record ↔ k-th 1-step record**, over the generated `add` folded over an arbitrary
    stream (`one = n_step_memory.add(t); if one is not None: memory.add(one)`): the fold succeeds, both
    storages have received `K = L + 1 - n` records, the deque holds the last `n` rows, the k-th record
    handed to the 1-step buffer is stream row `k` itself and the k-th record handed to the n-step
    storage is `_get_n_step_info` of the window starting at stream position `k`. -/
theorem C10_source_translation_kth_records_aligned (n m : Nat) (γ : Rat) (hn : 1 ≤ n) (X : List TD)
    (hX : ∀ t ∈ X, TDWF m t) :
    ∃ g, genRun n γ X = some g ∧
      g.stored.length = X.length + 1 - n ∧ g.ret.length = X.length + 1 - n ∧
      g.buf = X.drop (X.length - n) ∧
      ∀ k, k < X.length + 1 - n →
        g.ret[k]? = X[k]? ∧ get_n_step_info n γ ((X.drop k).take n) = g.stored[k]? := by
  have hw := map_ofTD_widths m X hX
  have hrun := gen_run_eq n m 1 1 γ hn (X.map ofTD) hw
  rw [map_toTD_ofTD m X hX] at hrun
  have inv := run_inv n γ true 1 1 m hn (X.map ofTD) hw
  obtain ⟨c1, c2⟩ := sinv_counts hn inv
  simp only [List.length_map] at c1 c2
  refine ⟨_, hrun, by simp [genView, c1], by simp [genView, c2], ?_, ?_⟩
  · simp only [genView]
    rw [inv.window, List.length_map, ← List.map_drop, map_toTD_ofTD m _ (fun t ht => hX t (List.mem_of_mem_drop ht))]
  · intro k hk
    have hk' : k < (X.map ofTD).length + 1 - n := by simpa using hk
    obtain ⟨a, b⟩ := sinv_kth inv k hk'
    have hkl : k < X.length := by omega
    have hsub : ∀ t ∈ (X.drop k).take n, TDWF m t :=
      fun t ht => hX t (List.mem_of_mem_drop (List.mem_of_mem_take ht))
    have hne : ((X.drop k).take n).map ofTD ≠ [] := by
      intro h0
      have := congrArg List.length h0
      simp only [List.length_map, List.length_take, List.length_drop, List.length_nil] at this
      omega
    constructor
    · simp only [genView, List.getElem?_map]
      have hb : (run n γ true 1 1 (X.map ofTD)).oRows[k]? = some (ofTD X[k]) := by
        have hko : k < (run n γ true 1 1 (X.map ofTD)).oRows.length := by rw [c2]; exact hk
        rw [List.getD_eq_getElem?_getD, List.getD_eq_getElem?_getD, List.getElem?_eq_getElem hko,
          List.getElem?_map, List.getElem?_eq_getElem hkl] at b
        rw [List.getElem?_eq_getElem hko]
        simpa using b
      rw [hb, List.getElem?_eq_getElem hkl]
      simp [toTD_ofTD m _ (hX _ (List.getElem_mem hkl))]
    · have e1 := gen_get_n_step_info_eq n γ m (((X.drop k).take n).map ofTD) hne (map_ofTD_widths m _ hsub)
      rw [map_toTD_ofTD m _ hsub] at e1
      rw [e1]
      simp only [genView, List.getElem?_map]
      have hkn : k < (run n γ true 1 1 (X.map ofTD)).nRows.length := by rw [c1]; exact hk
      rw [List.getD_eq_getElem?_getD, List.getElem?_eq_getElem hkn] at a
      rw [List.getElem?_eq_getElem hkn]
      simp only [Option.getD_some] at a
      rw [a, List.map_take, List.map_drop]
      rfl

-- non-vacuity: `demoTD` (Proofs/NStepGenEq.lean) is a well-formed stream of width 2 whose second row is
-- terminal in environment 1; with n = 2 the generated `add` stores two records, the second one unchanged
example : (genRun 2 (1/2) demoTD).map (fun g => (g.stored, g.ret, g.buf)) =
    some ([⟨[10, 20], [10, 20], [3, 6], [12, 22], [false, true]⟩, demoTD.getD 1 default],
          demoTD.take 2, demoTD.drop 1) := by decide +kernel
example : tAny (demoTD.getD 1 default).done = true ∧ genCut demoTD = 2 := by decide

end source_translation

/-! ### the unrepaired variant (history of defect D-C10: `done` of window row 0 was never read) -/

/-- the two variants agree on every window whose first row is not terminal -/
theorem C10_buggy_agrees_when_first_not_done (γ : Rat) (r0 : Row) (rest : List Row)
    (h : rowDone r0 = false) (e : Nat) :
    fuseAt false γ (r0 :: rest) e = fuseAt true γ (r0 :: rest) e :=
  fuseAt_buggy_eq γ r0 rest h e

/-- rewards 1 (terminal), 10, 100 with γ = 1/2, n = 3: the unrepaired code stored 31 together with
    next_obs and done of the *following* episode; the repaired code stores the terminal step itself -/
theorem C10_buggy_value_witness :
    fuseAt false (1/2) [[⟨0, 0, 1, 1, true⟩], [⟨1, 1, 10, 2, false⟩], [⟨2, 2, 100, 3, false⟩]] 0
      = ⟨0, 0, 31, 3, false⟩ ∧
    fuseAt true (1/2) [[⟨0, 0, 1, 1, true⟩], [⟨1, 1, 10, 2, false⟩], [⟨2, 2, 100, 3, false⟩]] 0
      = ⟨0, 0, 1, 1, true⟩ := by decide +kernel

/-- the unrepaired variant violates `C10_no_cross_episode`: what follows a terminal row changes
    the stored record -/
theorem C10_buggy_crosses_episode_witness :
    ¬ (∀ (γ : Rat) (p : List Row) (d : Row), rowDone d = true → ∀ (rest rest' : List Row) (e : Nat),
        fuseAt false γ (p ++ d :: rest) e = fuseAt false γ (p ++ d :: rest') e) := by
  intro h
  have := h (1/2) [] [⟨0, 0, 1, 1, true⟩] (by decide) [[⟨1, 1, 10, 2, false⟩]] [[⟨1, 1, 20, 2, false⟩]] 0
  revert this
  decide +kernel

/-- index alignment needs equal capacities: with capacities 2 and 3 the third record overwrites
    slot 0 of the n-step storage only -/
theorem C10_unequal_capacities_witness :
    let rows : List Row := [[⟨1, 1, 0, 2, false⟩], [⟨2, 2, 0, 3, false⟩], [⟨3, 3, 0, 4, false⟩]]
    ((run 1 (1/2) true 2 3 rows).nSlot 0).map (·.obs) = some 3 ∧
    ((run 1 (1/2) true 2 3 rows).oSlot 0).map (·.obs) = some 1 := by decide +kernel

/-! ### non-vacuity: concrete streams satisfy the hypotheses, the conclusions are the expected values -/

/-- two environments, n = 3, capacity 4 (both storages wrap), environment 1 ends at step 1,
    environment 0 ends at step 3 -/
def demo : List Row :=
  [ [⟨10, 10, 1, 11, false⟩, ⟨20, 20, 2, 21, false⟩],
    [⟨11, 11, 4, 12, false⟩, ⟨21, 21, 8, 22, true⟩],
    [⟨12, 12, 16, 13, false⟩, ⟨30, 30, 32, 31, false⟩],
    [⟨13, 13, 64, 14, true⟩, ⟨31, 31, 128, 32, false⟩],
    [⟨40, 40, 256, 41, false⟩, ⟨32, 32, 512, 33, false⟩] ]

example : ∀ r ∈ demo, r.length = 2 := by decide
example : demo ≠ [] ∧ rowDone (demo.getD 1 []) = true ∧ rowDone (demo.getD 0 []) = false := by decide
-- window 0 is cut after row 1 (environment 1 ends there): env 0 gets 1 + 4/2, env 1 gets 2 + 8/2
example : (run 3 (1/2) true 4 4 demo).nRows.getD 0 [] = [⟨10, 10, 3, 12, false⟩, ⟨20, 20, 6, 22, true⟩] := by
  decide +kernel
-- window 1 starts on the terminal row: nothing of the next episode (32, 128) is added
example : (run 3 (1/2) true 4 4 demo).nRows.getD 1 [] = [⟨11, 11, 4, 12, false⟩, ⟨21, 21, 8, 22, true⟩] := by
  decide +kernel
-- window 2: 16 + 64/2, 32 + 128/2, cut at environment 0's terminal step
example : (run 3 (1/2) true 4 4 demo).nRows.getD 2 [] = [⟨12, 12, 48, 14, true⟩, ⟨30, 30, 96, 32, false⟩] := by
  decide +kernel
-- both storages wrapped identically: slots 0,1 hold record 2, slots 2,3 hold record 1
example : (run 3 (1/2) true 4 4 demo).nbuf.store = [some 4, some 5, some 2, some 3] ∧
    (run 3 (1/2) true 4 4 demo).obuf.store = [some 4, some 5, some 2, some 3] := by decide +kernel
example : ((run 3 (1/2) true 4 4 demo).nSlot 0).map (·.obs) = some 12 ∧
    ((run 3 (1/2) true 4 4 demo).oSlot 0).map (·.obs) = some 12 ∧
    ((run 3 (1/2) true 4 4 demo).window).length = 3 := by decide +kernel
-- the unrepaired variant on the same stream: window 1 swallows the next episode of environment 1
example : (run 3 (1/2) false 4 4 demo).nRows.getD 1 [] =
    [⟨11, 11, 4 + 16/2 + 64/4, 14, true⟩, ⟨21, 21, 8 + 32/2 + 128/4, 32, false⟩] := by decide +kernel


/-! ### the sampling path: which rows a learn step pairs

`sampleBlock flat per oneStep nStep drawn` (Model/NStep.lean) is what one `agent.learn(experiences, n_experiences)`
call of `train_off_policy` receives when the 1-step buffer drew the indices `drawn`: the 1-step rows, the index
entry (a (B,1) column for PER), the n-step rows read by `Sampler.sample_n_step` with these indices.
`flat = true` is the code as repaired (the column is flattened first). -/

/-- **which method a `Sampler` installs** is decided by the class of its buffer: prioritised ↦ `sample_per`,
    multi-step ↦ `sample_n_step`, every other buffer ↦ `sample_standard`; no memory and no dataset / dataloader
    is refused; a dataset with a torch `DataLoader` always selects the distributed method -/
theorem C10_sampler_mode_by_class :
    (∀ c, c ≠ MemClass.none → samplerMode c false false false =
      some (match c with | .prioritized => SMode.per | .multiStep => SMode.nStep | _ => SMode.standard)) ∧
    (∀ ds lt, samplerMode .none ds false lt = none) ∧ (∀ lg lt, samplerMode .none false lg lt = none) ∧
    (∀ c, samplerMode c true true true = some .distributed) := by
  refine ⟨?_, ?_, ?_, ?_⟩
  · intro c hc; cases c <;> first | exact absurd rfl hc | rfl
  · intro ds lt; cases ds <;> cases lt <;> rfl
  · intro lg lt; cases lg <;> cases lt <;> rfl
  · intro c; cases c <;> rfl

/-- **row i of the n-step batch and row i of the 1-step batch carry the same index**, for every index list,
    uniform or prioritised: both batches have one record per row (no extra axis), the same number of rows, and
    row `i` of either is its storage read at `drawn[i]`; the index entry handed on is `drawn` itself -/
theorem C10_paired_rows_same_index {α : Type} (per : Bool) (oneStep nStep : Nat → α) (drawn : List Nat) :
    let p := sampleBlock true per oneStep (some nStep) drawn
    p.oneExtra = 0 ∧ p.nstExtra = 0 ∧ p.one.length = drawn.length ∧ p.oneIdx.map (·.vals) = some drawn ∧
    ∃ nrows, p.nst = some nrows ∧ nrows.length = drawn.length ∧
      ∀ i (hi : i < drawn.length), p.one[i]? = some (oneStep drawn[i]) ∧ nrows[i]? = some (nStep drawn[i]) := by
  intro p
  refine ⟨rfl, rfl, by simp [p, sampleBlock], by cases per <;> rfl, _, rfl, by simp [pairedSample], ?_⟩
  intro i hi
  simp [p, sampleBlock, pairedSample, hi]

/-- **… hence the same (obs, action)**: when the two storages are those reached by `train_off_policy`'s storing
    statements from any stream (equal capacities, any wrap-around) and the indices lie in the filled part, row `i`
    of the n-step batch is the fused record of some (start position `k`, environment `e`) and row `i` of the
    1-step batch is the raw transition of the *same* `(k, e)` -/
theorem C10_paired_rows_same_obs_action (n m cap : Nat) (γ : Rat) (fixed : Bool) (hn : 1 ≤ n)
    (hm : 0 < m) (hmc : m ≤ cap) (rows : List Row) (hrows : ∀ r ∈ rows, r.length = m) (per : Bool)
    (drawn : List Nat) (hd : ∀ j ∈ drawn, j < (run n γ fixed cap cap rows).nbuf.size) :
    let s := run n γ fixed cap cap rows
    let p := sampleBlock true per s.oSlot (some s.nSlot) drawn
    p.oneExtra = 0 ∧ p.nstExtra = 0 ∧ ∃ nrows, p.nst = some nrows ∧ nrows.length = p.one.length ∧
      ∀ i, i < p.one.length → ∃ k e, k < rows.length + 1 - n ∧ e < m ∧
        p.one[i]? = some (some (cellAt rows k e)) ∧
        nrows[i]? = some (some (fuseAt fixed γ ((rows.drop k).take n) e)) ∧
        (fuseAt fixed γ ((rows.drop k).take n) e).obs = (cellAt rows k e).obs ∧
        (fuseAt fixed γ ((rows.drop k).take n) e).act = (cellAt rows k e).act := by
  intro s p
  obtain ⟨h1, h2, h3, _, nrows, h5, h6, h7⟩ := C10_paired_rows_same_index per s.oSlot s.nSlot drawn
  refine ⟨h1, h2, nrows, h5, by rw [h6, h3], ?_⟩
  intro i hi
  have hi' : i < drawn.length := by rw [← h3]; exact hi
  obtain ⟨a, b⟩ := h7 i hi'
  have hj := hd drawn[i] (List.getElem_mem hi')
  obtain ⟨_, _, hall⟩ := C10_aligned_through_wraparound n m cap γ fixed hn hm hmc rows hrows
  obtain ⟨k, e, hk, he, _, _, hns, hos, ho, ha⟩ := hall drawn[i] hj
  exact ⟨k, e, hk, he, by rw [a]; exact congrArg some hos, by rw [b]; exact congrArg some hns, ho, ha⟩

/-- **for PER the indices whose priorities are updated are the ones sampled**: a learner that hands back the
    index entry of its 1-step batch makes `memory.update_priorities` receive exactly the drawn indices (as the
    (B,1) column); without PER nothing is updated -/
theorem C10_per_update_indices_are_sampled {α : Type} (oneStep : Nat → α) (nStep : Option (Nat → α))
    (drawn : List Nat) (learnIdx : Paired α → Option IdxCol) (hecho : ∀ p, learnIdx p = p.oneIdx) :
    updatesOf true (learnIdx (sampleBlock true true oneStep nStep drawn)) = [some ⟨drawn, 1⟩] ∧
    updatesOf false (learnIdx (sampleBlock true false oneStep nStep drawn)) = [] := by
  rw [hecho]; exact ⟨rfl, rfl⟩

/-- history of the defect found in seeded round 3: before `Sampler.sample_n_step` flattened the index tensor, the
    n-step batch sampled next to a prioritised buffer inherited the extra axis of the (B,1) column (every sample
    was then broadcast against every n-step return); the uniform path was never affected -/
theorem C10_unflattened_index_column_witness :
    (sampleBlock false true (fun j => j) (some fun j => 10 * j) [3, 1]).nstExtra = 1 ∧
    (sampleBlock true true (fun j => j) (some fun j => 10 * j) [3, 1]).nstExtra = 0 ∧
    (sampleBlock false false (fun j => j) (some fun j => 10 * j) [3, 1]).nstExtra = 0 := by decide

-- non-vacuity on the wrapped `demo` storages: slots 2 and 0 are filled; the paired rows are (obs 11 | obs 11), (12 | 12)
example : (run 3 (1/2) true 4 4 demo).nbuf.size = 4 := by decide +kernel
example : ((sampleBlock true true (run 3 (1/2) true 4 4 demo).oSlot (some (run 3 (1/2) true 4 4 demo).nSlot) [2, 0]).one.map
      (·.map (·.obs)),
    ((sampleBlock true true (run 3 (1/2) true 4 4 demo).oSlot (some (run 3 (1/2) true 4 4 demo).nSlot) [2, 0]).nst.getD []).map
      (·.map (·.obs))) = ([some 11, some 12], [some 11, some 12]) := by decide +kernel

/-! ### the sampling path over the definitions generated from the source text

`Gen/SamplerGen.lean` is written by `harness/py2lean_sampler.py` from the text of `ReplayBuffer.sample`,
`MultiStepReplayBuffer.sample_from_indices`, `PrioritizedReplayBuffer.sample`, the class statements of
replay_buffer.py, `Sampler.__init__ / sample_standard / sample_per / sample_n_step` and the sampler set-up, the
storing statements and the `if per:` learn blocks of `train_off_policy`; `Proofs/SamplerGenEq.lean` proves them
equal to the model. -/
section sampler_translation
open SamplerGen

/-- every generated definition equals the model: `isinstance` = the class tests, `Sampler.__init__` =
    `samplerMode`, the three buffer methods and the three sampler methods read the storage with the drawn /
    given indices, all learn blocks have one translation, SETUP + LEARN = `sampleBlock true`, the storing
    statements = the pairing of `genStep` -/
theorem C10_source_translation_sampler_equalities {α β ω π : Type} :
    (∀ c, isinstance_PrioritizedReplayBuffer (toKind c) = decide (c = .prioritized) ∧
      isinstance_MultiStepReplayBuffer (toKind c) = decide (c = .multiStep) ∧
      isinstance_ReplayBuffer (toKind c) = decide (c = .replay ∨ c = .multiStep ∨ c = .prioritized) ∧
      isinstance_MultiAgentReplayBuffer (toKind c) = decide (c = .multiAgent)) ∧
    (∀ c (store : Nat → α) size ds dl, (Sampler_init ⟨toKind c, store, size⟩ ds dl).map (·.sample) =
      (samplerMode c ds (dl != .none) (dl == .DataLoader)).map toMode) ∧
    (∀ (mem : Mem α) (env : Env β ω) B r, ReplayBuffer_sample mem env B r =
      some { rows := (pairedSample ((env.randperm 0 mem.size).take B) mem.store mem.store).1, extra := 0,
             idxs := if r then some ⟨(env.randperm 0 mem.size).take B, 0, true⟩ else none, weights := none }) ∧
    (∀ (mem : Mem α) (env : Env β ω) B b, PrioritizedReplayBuffer_sample mem env B b =
      some { rows := (pairedSample (env.sample_proportional 0 B) mem.store mem.store).1, extra := 0,
             idxs := some ⟨env.sample_proportional 0 B, 1, true⟩,
             weights := some (env.calculate_weights ⟨env.sample_proportional 0 B, 0, true⟩ b) }) ∧
    (∀ (s : Sampler α), s.memory.kind = .MultiStepReplayBuffer → ∀ (env : Env β ω) (i : IdxT),
      (Sampler_sample_n_step s env i : Option (Batch α ω)) =
        some { rows := i.vals.map s.memory.store, extra := if i.tensor then 0 else i.extra, idxs := none,
               weights := none }) ∧
    (∀ b ∈ (learn_blocks : List (Bool → Mem α → Option (Mem α) → Sampler α → Option (Sampler α) → (Nat → Env β ω) → Nat → β →
      (Batch α ω → Option (Batch α ω) → Bool → LearnRet π) → Option (BlockOut α ω π))), b = learn_block_0) ∧
    (∀ n γ g x, genStoreStep n γ g x = genStep n γ g x) :=
  ⟨gen_isinstance_eq, gen_sampler_init_eq, gen_replay_sample_eq, gen_per_sample_eq,
   fun s h env i => gen_sample_n_step_eq s h env i, gen_learn_blocks_eq, gen_store_block_eq⟩

/-- **row i of the n-step batch and row i of the 1-step batch describe the same (obs, action)**, over the
    generated set-up and learn block.  The two storages are those reached from any stream by the storing
    statements (equal capacities, any wrap-around); the 1-step buffer is uniform or prioritised and `per` is set
    accordingly; `drawn` (the permutation prefix resp. the proportional draw) lies in the filled part.  Then the
    block makes exactly one `agent.learn` call, both batches have one record per row, and row `i` of the n-step
    batch is the fused record of the very `(k, e)` whose raw transition is row `i` of the 1-step batch. -/
theorem C10_source_translation_sampler_rows_aligned {β ω π : Type} (n m cap : Nat) (γ : Rat) (fixed : Bool) (hn : 1 ≤ n)
    (hm : 0 < m) (hmc : m ≤ cap) (rows : List Row) (hrows : ∀ r ∈ rows, r.length = m)
    (c : MemClass) (hc : c = .replay ∨ c = .prioritized) (env : Nat → Env β ω) (B : Nat) (b : β)
    (learn : Batch (Option Cell) ω → Option (Batch (Option Cell) ω) → Bool → LearnRet π)
    (hd : ∀ j ∈ (if decide (c = .prioritized) then (env 0).sample_proportional 0 B
                 else ((env 0).randperm 0 (run n γ fixed cap cap rows).obuf.size).take B),
            j < (run n γ fixed cap cap rows).nbuf.size) :
    let s := run n γ fixed cap cap rows
    let memory : Mem (Option Cell) := ⟨toKind c, s.oSlot, s.obuf.size⟩
    let nmem : Option (Mem (Option Cell)) := some ⟨.MultiStepReplayBuffer, s.nSlot, s.nbuf.size⟩
    let per := decide (c = .prioritized)
    ∃ out call nb, ((setup memory nmem).bind fun p => learn_block_0 per memory nmem p.1 p.2 env B b learn) = some out ∧
      out.calls = [call] ∧ call.per = per ∧ call.n_experiences = some nb ∧
      call.experiences.extra = 0 ∧ nb.extra = 0 ∧ nb.rows.length = call.experiences.rows.length ∧
      ∀ i, i < call.experiences.rows.length → ∃ k e, k < rows.length + 1 - n ∧ e < m ∧
        call.experiences.rows[i]? = some (some (cellAt rows k e)) ∧
        nb.rows[i]? = some (some (fuseAt fixed γ ((rows.drop k).take n) e)) ∧
        (fuseAt fixed γ ((rows.drop k).take n) e).obs = (cellAt rows k e).obs ∧
        (fuseAt fixed γ ((rows.drop k).take n) e).act = (cellAt rows k e).act := by
  intro s memory nmem per
  obtain ⟨out, call, h1, h2, h3, h4, _, _⟩ :=
    gen_train_sample_eq (π := π) c hc s.oSlot s.obuf.size (some s.nSlot) s.nbuf.size env B b learn
  obtain ⟨p1, p2, nrows, p3, p4, p5⟩ :=
    C10_paired_rows_same_obs_action n m cap γ fixed hn hm hmc rows hrows per _ hd
  rw [← h4] at p1 p2 p3 p4 p5
  simp only [viewCall] at p1 p2 p3 p4 p5
  cases hne : call.n_experiences with
  | none => rw [hne] at p3; simp at p3
  | some nb =>
    rw [hne] at p2 p3
    simp only [Option.map_some, Option.getD_some] at p2 p3
    have : nb.rows = nrows := by simpa using p3
    subst this
    exact ⟨out, call, nb, h1, h2, h3, hne, p1, p2, p4, p5⟩

/-- **for PER the indices whose priorities are updated are the ones sampled**, over the generated blocks: with a
    prioritised buffer and a learner that returns the `idxs` entry of the batch it was given, the single
    `memory.update_priorities` call receives the proportional draw (as the (B,1) column) and the weights handed to
    the learner are those of the same draw; with a uniform buffer `update_priorities` is not called.  With or
    without an n-step memory. -/
theorem C10_source_translation_sampler_per_update {α β ω π : Type} (store : Nat → α) (size : Nat)
    (nstore : Option (Nat → α)) (nsize : Nat) (env : Nat → Env β ω) (B : Nat) (b : β)
    (learn : Batch α ω → Option (Batch α ω) → Bool → LearnRet π) (hecho : ∀ e ne p, (learn e ne p).idxs = e.idxs) :
    let nmem : Option (Mem α) := nstore.map (fun s => ⟨.MultiStepReplayBuffer, s, nsize⟩)
    (∃ out call, ((setup ⟨.PrioritizedReplayBuffer, store, size⟩ nmem).bind fun p =>
        learn_block_0 true ⟨.PrioritizedReplayBuffer, store, size⟩ nmem p.1 p.2 env B b learn) = some out ∧
      out.calls = [call] ∧ call.per = true ∧
      out.updates.map (fun u => u.1.map viewIdx) = [some ⟨(env 0).sample_proportional 0 B, 1⟩] ∧
      call.experiences.rows = ((env 0).sample_proportional 0 B).map store ∧
      call.experiences.weights = some ((env 0).calculate_weights ⟨(env 0).sample_proportional 0 B, 0, true⟩ b)) ∧
    (∃ out, ((setup ⟨.ReplayBuffer, store, size⟩ nmem).bind fun p =>
        learn_block_0 false ⟨.ReplayBuffer, store, size⟩ nmem p.1 p.2 env B b learn) = some out ∧ out.updates = []) := by
  intro nmem
  constructor
  · obtain ⟨out, call, h1, h2, h3, h4, h5, h6⟩ :=
      gen_train_sample_eq .prioritized (Or.inr rfl) store size nstore nsize env B b learn
    refine ⟨out, call, h1, h2, h3, ?_, ?_, h6 rfl⟩
    · rw [h5, hecho]
      have := congrArg Paired.oneIdx h4
      simp only [viewCall] at this
      simp [updatesOf, this, sampleBlock]
    · have := congrArg Paired.one h4
      simpa [viewCall, sampleBlock] using this
  · obtain ⟨out, call, h1, _, _, _, h5, _⟩ :=
      gen_train_sample_eq .replay (Or.inl rfl) store size nstore nsize env B b learn
    exact ⟨out, h1, h5⟩

/-- **index k of both buffers describes the same step**, over the generated storing statements
    (`one = n_step_memory.add(t); if one is not None: memory.add(one)`) folded over an arbitrary stream with the
    generated `MultiStepReplayBuffer.add` as `n_step_memory.add`: both buffers receive `K = L + 1 - n` records,
    the k-th record handed to the 1-step buffer is stream row `k`, the k-th record handed to the n-step storage is
    `_get_n_step_info` of the window starting at `k`; without an n-step memory the transition itself is stored -/
theorem C10_source_translation_sampler_store_pairing (n m : Nat) (γ : Rat) (hn : 1 ≤ n) (X : List NStepGen.TD)
    (hX : ∀ t ∈ X, TDWF m t) :
    (∃ g, X.foldl (genStoreStep n γ) (some ⟨[], [], []⟩) = some g ∧
      g.stored.length = X.length + 1 - n ∧ g.ret.length = X.length + 1 - n ∧
      ∀ k, k < X.length + 1 - n →
        g.ret[k]? = X[k]? ∧ NStepGen.get_n_step_info n γ ((X.drop k).take n) = g.stored[k]?) ∧
    (∀ (σ τ : Type) (nAdd : σ → τ → Option (σ × Option τ)) (t : τ), store_block none nAdd t = some (none, [t])) := by
  refine ⟨?_, fun _ _ nAdd t => gen_store_block_plain nAdd t⟩
  rw [gen_store_run_eq]
  obtain ⟨g, h1, h2, h3, _, h5⟩ := C10_source_translation_kth_records_aligned n m γ hn X hX
  exact ⟨g, h1, h2, h3, h5⟩

-- non-vacuity: a prioritised 1-step buffer beside a multi-step buffer, indices [2, 0] drawn: one learn call,
-- rows read at 2 and 0 from either storage, no extra axis on the n-step batch, the update receives the column
example :
    (((setup (⟨.PrioritizedReplayBuffer, fun j => 100 + j, 4⟩ : Mem Nat) (some ⟨.MultiStepReplayBuffer, fun j => 200 + j, 4⟩)).bind
        fun p => learn_block_0 (π := Unit) true ⟨.PrioritizedReplayBuffer, fun j => 100 + j, 4⟩
          (some ⟨.MultiStepReplayBuffer, fun j => 200 + j, 4⟩) p.1 p.2
          (fun _ => (⟨fun _ _ => [], fun _ _ => [2, 0], fun _ _ => ()⟩ : Env Unit Unit)) 2 () (fun e _ _ => ⟨e.idxs, none⟩)).map
      fun o => (o.calls.map fun c => (c.experiences.rows, c.n_experiences.map (fun nb => (nb.rows, nb.extra)), c.per),
                o.updates.map (·.1))) =
      some ([([102, 100], some ([202, 200], 0), true)], [some ⟨[2, 0], 1, true⟩]) := by rfl

end sampler_translation

end NStep
