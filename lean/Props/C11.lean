import Proofs.SegTreeSample
import Proofs.SegTreeRpow
import Proofs.SegTreeGenEq
import Proofs.PerGenEq

/-!
# C11 — prioritised replay samples stored items with consistent priorities and weights

Model: `Model/SegTree.lean` (array segment trees of `segment_tree.py`, `PrioritizedReplayBuffer`
of `replay_buffer.py`).  Numbers are exact rationals; `pw` stands for `p ↦ p ** alpha`
(only `0 < p → 0 < pw p` is used), `f` for `x ↦ x ** (-beta)` (positive, antitone on the positive
numbers; instantiated with the real power at the end), the uniform draws are explicit inputs.
Every theorem about the buffer quantifies over *all* capacities (power of two or not) and *all*
legal operation sequences: batched additions of `1 … max_size` transitions (with wrap-around) and
priority updates — any values, repeated indices — of stored indices (what `sample` hands out and
`train_off_policy` feeds back).  What floats add to this (rounding inside the tree) is outside
the theorems and is bridged by the correspondence run (`harness/c11.py`).
-/
open Finset

namespace SegTree

/-- the buffer reached from `PrioritizedReplayBuffer(max_size = m)` by an operation sequence -/
def reach (pw : Rat → Rat) (m : Nat) (ops : List Op) : PER := (PER.new m).run pw ops

/-! ## the segment tree, for any operation -/

/-- **tree invariant**: starting from the initial tree, after *any* sequence of `tree[i] = v`
    every internal node is the operation of its two children, and leaf `i` holds the last value
    written to it (else the initial value).  Needs only `op init init = init`. -/
theorem C11_tree_invariant {α : Type} (op : α → α → α) (d : α) (hd : op d d = d) (cap : Nat)
    (ws : List (Nat × α)) (hw : ∀ w ∈ ws, w.1 < cap) :
    Inv op d cap (setMany op d cap (initTree cap d) ws) ∧
    ∀ i, i < cap → nd d (setMany op d cap (initTree cap d) ws) (cap + i) = lastWritten d ws i := by
  have h0 := initTree_inv op d cap hd
  refine ⟨setMany_inv op d cap ws _ h0 hw, fun i hi => ?_⟩
  rw [setMany_leaf op d cap ws _ h0 hw i hi, nd_initTree]

/-- the root of a sum tree is the sum of all leaves -/
theorem C11_sum_is_fold (k : Nat) (t : List Rat) (hinv : Inv (fun a b : Rat => a + b) 0 (2 ^ k) t) :
    nd 0 t 1 = ∑ j ∈ range (2 ^ k), nd 0 t (2 ^ k + j) := by
  rw [root_fold sumMonoid k t hinv, foldN_sum]
  apply sum_congr rfl; intro j _; simp

/-- the root of a min tree is the minimum of all leaves (`none` = `+inf` iff every leaf is) -/
theorem C11_min_is_fold (k : Nat) (t : List (Option Rat)) (hinv : Inv minInf none (2 ^ k) t) :
    (nd none t 1 = none ↔ ∀ j, j < 2 ^ k → nd none t (2 ^ k + j) = none) ∧
    ∀ m, nd none t 1 = some m →
      (∃ j, j < 2 ^ k ∧ nd none t (2 ^ k + j) = some m) ∧
      ∀ j, j < 2 ^ k → ∀ x, nd none t (2 ^ k + j) = some x → m ≤ x := by
  rw [root_fold minMonoid k t hinv]
  have := foldN_min (fun j => nd none t (2 ^ k + j)) 0 (2 ^ k)
  simpa using this

/-- `operate(start, end)` (Python: `end` exclusive, `end = 0` means `capacity`) over a feasible
    range is the left fold of the operation over the leaves `start … end-1`; infeasible ranges
    are rejected.  For any associative operation whose identity is the initial value. -/
theorem C11_operate_is_fold {α : Type} (op : α → α → α) (d : α) (hm : IsMonoid op d) (k : Nat)
    (t : List α) (hinv : Inv op d (2 ^ k) t) (s e : Nat) :
    (s < e → e ≤ 2 ^ k →
      operate op d (2 ^ k) t s e = some (foldN op d (fun j => nd d t (2 ^ k + j)) s (e - s))) ∧
    (s < 2 ^ k →
      operate op d (2 ^ k) t s 0 = some (foldN op d (fun j => nd d t (2 ^ k + j)) s (2 ^ k - s))) ∧
    (e ≠ 0 → (e ≤ s ∨ 2 ^ k < e) → operate op d (2 ^ k) t s e = none) := by
  refine ⟨fun h1 h2 => ?_, fun h1 => ?_, fun h0 h1 => ?_⟩
  · have he : e ≠ 0 := by omega
    have := operate_spec hm k t hinv s e (by simp only [he, if_false]; omega)
    simpa [he] using this
  · have := operate_spec hm k t hinv s 0 (by simp only [if_true]; omega)
    simpa using this
  · apply operate_infeasible
    simp only [h0, if_false]; omega

/-- range sums and range minima of the two trees -/
theorem C11_range_sum_min (k : Nat) (ts : List Rat) (tm : List (Option Rat))
    (hs : Inv (fun a b : Rat => a + b) 0 (2 ^ k) ts) (hmn : Inv minInf none (2 ^ k) tm)
    (s e : Nat) (h1 : s < e) (h2 : e ≤ 2 ^ k) :
    operate (fun a b : Rat => a + b) 0 (2 ^ k) ts s e = some (∑ j ∈ range (e - s), nd 0 ts (2 ^ k + (s + j))) ∧
    ∃ r, operate minInf none (2 ^ k) tm s e = some r ∧
      (r = none ↔ ∀ j, j < e - s → nd none tm (2 ^ k + (s + j)) = none) ∧
      ∀ m, r = some m → (∃ j, j < e - s ∧ nd none tm (2 ^ k + (s + j)) = some m) ∧
        ∀ j, j < e - s → ∀ x, nd none tm (2 ^ k + (s + j)) = some x → m ≤ x := by
  constructor
  · rw [(C11_operate_is_fold _ _ sumMonoid k ts hs s e).1 h1 h2, foldN_sum]
  · exact ⟨_, (C11_operate_is_fold _ _ minMonoid k tm hmn s e).1 h1 h2,
      foldN_min (fun j => nd none tm (2 ^ k + j)) s (e - s)⟩

/-- **retrieve specification**: on any sum tree that satisfies the invariant, for every mass
    `0 ≤ u < total` the prefix-sum walk ends in a leaf `i < capacity` with
    `prefix i ≤ u < prefix i + leaf i` — in particular `leaf i > 0` — and the assertion of
    `retrieve` passes. -/
theorem C11_retrieve_spec (k : Nat) (t : List Rat) (hinv : Inv (fun a b : Rat => a + b) 0 (2 ^ k) t)
    (u : Rat) (h0 : 0 ≤ u) (h1 : u < nd 0 t 1) :
    retrieve (2 ^ k) t u = some (retrieveWalk (2 ^ k) t u) ∧
    retrieveWalk (2 ^ k) t u < 2 ^ k ∧
    (∑ j ∈ range (retrieveWalk (2 ^ k) t u), nd 0 t (2 ^ k + j)) ≤ u ∧
    u < (∑ j ∈ range (retrieveWalk (2 ^ k) t u), nd 0 t (2 ^ k + j)) + nd 0 t (2 ^ k + retrieveWalk (2 ^ k) t u) ∧
    0 < nd 0 t (2 ^ k + retrieveWalk (2 ^ k) t u) := by
  obtain ⟨a, c, e⟩ := retrieveWalk_spec k t hinv u h0 h1
  have hassert : 0 ≤ u ∧ u ≤ nd 0 t 1 + eps :=
    ⟨h0, le_trans (le_of_lt h1) (le_add_of_nonneg_right (le_of_lt eps_pos))⟩
  refine ⟨by unfold retrieve; rw [if_pos hassert], a, c, e, ?_⟩
  unfold prefixSum at c e
  linarith

/-! ## the prioritised buffer, for all legal operation sequences -/

section buffer
variable (pw : Rat → Rat) (m : Nat) (ops : List Op)

/-- invariant of every reachable state, used by all theorems below -/
theorem reach_inv (hm : 0 < m) (hl : Legal pw (PER.new m) ops) :
    PInv pw (reach pw m ops) (countAdded ops) (seenPriorities ops) := by
  have := run_inv pw ops (PER.new m) 0 [] (new_inv pw m hm) hl
  simpa [reach] using this

/-- both trees keep the node invariant, on a capacity that is a power of two `≥ max_size` -/
theorem C11_trees_consistent (hm : 0 < m) (hl : Legal pw (PER.new m) ops) :
    Inv (fun a b : Rat => a + b) 0 (reach pw m ops).cap (reach pw m ops).sumT ∧
    Inv minInf none (reach pw m ops).cap (reach pw m ops).minT ∧
    (∃ k, (reach pw m ops).cap = 2 ^ k) ∧ (reach pw m ops).maxSize ≤ (reach pw m ops).cap := by
  have h := reach_inv pw m ops hm hl
  exact ⟨h.t.sumInv, h.t.minInv, h.t.capPow, h.t.capGe⟩

/-- **the write pointer of the trees follows the ring cursor** (both are `count mod max_size`),
    and the length is `min count max_size`, after any sequence of batched additions and updates -/
theorem C11_ptr_follows_cursor (hm : 0 < m) (hl : Legal pw (PER.new m) ops) :
    (reach pw m ops).treePtr = (reach pw m ops).cursor ∧
    (reach pw m ops).cursor = countAdded ops % (reach pw m ops).maxSize ∧
    (reach pw m ops).size = min (countAdded ops) (reach pw m ops).maxSize := by
  have h := reach_inv pw m ops hm hl
  exact ⟨by rw [h.ptr, h.cur], h.cur, h.size⟩

/-- leaves of stored slots hold `priority ** alpha` of a positive priority (the same one in both
    trees) not above `max_priority`; leaves of unstored slots are `0` / `+inf` -/
theorem C11_stored_leaves (hm : 0 < m) (hl : Legal pw (PER.new m) ops) :
    (∀ i, i < (reach pw m ops).size → ∃ p, 0 < p ∧ p ≤ (reach pw m ops).maxPriority ∧
        (reach pw m ops).leaf i = pw p ∧ (reach pw m ops).minLeaf i = some (pw p)) ∧
    (∀ i, (reach pw m ops).size ≤ i → i < (reach pw m ops).cap →
        (reach pw m ops).leaf i = 0 ∧ (reach pw m ops).minLeaf i = none) := by
  have h := reach_inv pw m ops hm hl
  exact ⟨fun i hi => h.stored i hi, fun i h1 h2 => h.unstored i h2 h1⟩

/-- **running total and minimum agree with a direct computation over the stored priorities** -/
theorem C11_total_and_min_agree (hpw : ∀ p, 0 < p → 0 < pw p) (hm : 0 < m)
    (hl : Legal pw (PER.new m) ops) :
    (reach pw m ops).total = ∑ j ∈ range (reach pw m ops).size, (reach pw m ops).leaf j ∧
    (0 < (reach pw m ops).size →
      ∃ mn, (reach pw m ops).minRoot = some mn ∧ 0 < mn ∧
        (∃ j, j < (reach pw m ops).size ∧ (reach pw m ops).leaf j = mn) ∧
        ∀ i, i < (reach pw m ops).size → mn ≤ (reach pw m ops).leaf i) := by
  have h := reach_inv pw m ops hm hl
  exact ⟨h.total_eq, fun hs => h.minRoot_spec hpw hs⟩

/-- `max_priority` is the highest priority seen so far: the maximum of the initial `1.0` and every
    (clamped) priority ever passed to `update_priorities` -/
theorem C11_max_priority_is_highest_seen (hm : 0 < m) (hl : Legal pw (PER.new m) ops) :
    (reach pw m ops).maxPriority = (seenPriorities ops).foldl max 1 := by
  have h := reach_inv pw m ops hm hl
  exact h.maxEq

/-- **a new transition gets the highest priority seen so far**: a further batch of `n` additions
    writes `max_priority ** alpha` into the `n` slots starting at the cursor (mod `max_size`) and
    leaves `max_priority` unchanged -/
theorem C11_new_gets_max (hm : 0 < m) (hl : Legal pw (PER.new m) ops) (n : Nat) :
    ((reach pw m ops).add pw n).maxPriority = (reach pw m ops).maxPriority ∧
    ∀ j, j < n →
      ((reach pw m ops).add pw n).leaf (((reach pw m ops).cursor + j) % (reach pw m ops).maxSize)
        = pw (reach pw m ops).maxPriority := by
  have h := reach_inv pw m ops hm hl
  obtain ⟨_, a2, _, a4⟩ := add_inv pw _ _ _ h n
  refine ⟨a2, fun j hj => ?_⟩
  have := a4 j hj
  rw [h.ptr, ← h.cur] at this
  exact this

/-- **only stored transitions are sampled**: for every batch size and all draws in `[0, 1)`,
    `_sample_proportional` succeeds, returns one index per draw, and every index is `< len(buffer)` -/
theorem C11_sample_stored (hpw : ∀ p, 0 < p → 0 < pw p) (hm : 0 < m) (hl : Legal pw (PER.new m) ops)
    (hs : 0 < (reach pw m ops).size) (rs : List Rat) (hne : rs ≠ []) (hr : ∀ r ∈ rs, 0 ≤ r ∧ r < 1) :
    ∃ idxs, (reach pw m ops).sampleIdx rs = some idxs ∧ idxs.length = rs.length ∧
      idxs = (strata (reach pw m ops).total rs).map (retrieveWalk (reach pw m ops).cap (reach pw m ops).sumT) ∧
      ∀ i ∈ idxs, i < (reach pw m ops).size := by
  have h := reach_inv pw m ops hm hl
  obtain ⟨e, hmem⟩ := sampleIdx_spec hpw h hs rs hne hr
  refine ⟨_, e, by rw [List.length_map, strata_length], rfl, ?_⟩
  intro i hi
  obtain ⟨u, hu, rfl⟩ := List.mem_map.mp hi
  exact (hmem u hu).2.2

/-- **index `i` is sampled with probability proportional to `priority_i ** alpha`**: the `j`-th
    query mass lies in the `j`-th stratum of `[0, total)`, and a mass `u` is mapped to index `i`
    iff `prefix i ≤ u < prefix i + leaf i` — the set of masses mapped to `i` is an interval of
    length `leaf i = priority_i ** alpha`, so under uniform `u` the index `i` has probability
    `leaf i / total`. -/
theorem C11_sample_proportional (hpw : ∀ p, 0 < p → 0 < pw p) (hm : 0 < m)
    (hl : Legal pw (PER.new m) ops) (hs : 0 < (reach pw m ops).size) (rs : List Rat)
    (hr : ∀ r ∈ rs, 0 ≤ r ∧ r < 1) (j : Nat) (u : Rat)
    (hu : (strata (reach pw m ops).total rs)[j]? = some u) :
    (reach pw m ops).total / (rs.length : Rat) * (j : Rat) ≤ u ∧
    u < (reach pw m ops).total / (rs.length : Rat) * ((j : Rat) + 1) ∧
    0 ≤ u ∧ u < (reach pw m ops).total ∧
    ∀ i, i < (reach pw m ops).cap →
      (retrieveWalk (reach pw m ops).cap (reach pw m ops).sumT u = i ↔
        ((reach pw m ops).prefix i ≤ u ∧ u < (reach pw m ops).prefix i + (reach pw m ops).leaf i)) := by
  have h := reach_inv pw m ops hm hl
  obtain ⟨b1, b2, b3, b4⟩ := strata_bounds _ (h.total_pos hpw hs) rs hr j u hu
  exact ⟨b1, b2, b3, b4, fun i hi => retrieve_iff hpw h u b3 b4 i hi⟩

/-- **importance weights**: for stored indices the weights are
    `f (N · P(i)) / f (N · P_min)` with `P(i) = leaf i / total`, `P_min = min leaf / total`;
    `f (N · P_min)` is the largest such weight and every returned weight lies in `(0, 1]` — for
    every positive antitone `f` (`x ↦ x ** (-beta)`, `beta ≥ 0`) -/
theorem C11_weights_in_unit_interval (hpw : ∀ p, 0 < p → 0 < pw p) (hm : 0 < m)
    (hl : Legal pw (PER.new m) ops) (hs : 0 < (reach pw m ops).size) (idxs : List Nat)
    (hidx : ∀ i ∈ idxs, i < (reach pw m ops).size)
    (f : Rat → Rat) (hfpos : ∀ x, 0 < x → 0 < f x) (hanti : ∀ x y, 0 < x → x ≤ y → f y ≤ f x) :
    ∃ mn, (reach pw m ops).minRoot = some mn ∧
      (reach pw m ops).weights f idxs = some (idxs.map (fun i =>
        f ((reach pw m ops).leaf i / (reach pw m ops).total * ((reach pw m ops).size : Rat)) /
        f (mn / (reach pw m ops).total * ((reach pw m ops).size : Rat)))) ∧
      (∀ i, i < (reach pw m ops).size →
        f ((reach pw m ops).leaf i / (reach pw m ops).total * ((reach pw m ops).size : Rat)) ≤
        f (mn / (reach pw m ops).total * ((reach pw m ops).size : Rat))) ∧
      ∀ ws, (reach pw m ops).weights f idxs = some ws → ∀ w ∈ ws, 0 < w ∧ w ≤ 1 := by
  have h := reach_inv pw m ops hm hl
  obtain ⟨mn, h1, m0, hlb, _, h3, h4, h5⟩ := weights_spec hpw h hs idxs hidx f
  have ht := h.total_pos hpw hs
  have hN : (0 : Rat) < ((reach pw m ops).size : Rat) := by exact_mod_cast hs
  refine ⟨mn, h1, h3, ?_, ?_⟩
  · intro i hi
    apply hanti _ _ h4
    exact mul_le_mul_of_nonneg_right (div_le_div_of_nonneg_right (hlb i hi) (le_of_lt ht)) (le_of_lt hN)
  · intro ws hws w hw
    rw [h3] at hws
    cases hws
    obtain ⟨i, hi, rfl⟩ := List.mem_map.mp hw
    exact ratio_unit f hfpos hanti _ _ h4 (h5 i hi)

/-- the same with the real power: `(N·P(i)) ** (-β) / (N·P_min) ** (-β) ∈ (0, 1]` for every real
    `β ≥ 0` and every stored index -/
theorem C11_weights_rpow (hpw : ∀ p, 0 < p → 0 < pw p) (hm : 0 < m) (hl : Legal pw (PER.new m) ops)
    (hs : 0 < (reach pw m ops).size) (i : Nat) (hi : i < (reach pw m ops).size) (β : ℝ) (hβ : 0 ≤ β) :
    ∃ mn, (reach pw m ops).minRoot = some mn ∧
      (reach pw m ops).bases [i] = some (mn / (reach pw m ops).total * ((reach pw m ops).size : Rat),
        [(reach pw m ops).leaf i / (reach pw m ops).total * ((reach pw m ops).size : Rat)]) ∧
      0 < (((reach pw m ops).leaf i / (reach pw m ops).total * ((reach pw m ops).size : Rat) : ℚ) : ℝ) ^ (-β) /
          ((mn / (reach pw m ops).total * ((reach pw m ops).size : Rat) : ℚ) : ℝ) ^ (-β) ∧
      (((reach pw m ops).leaf i / (reach pw m ops).total * ((reach pw m ops).size : Rat) : ℚ) : ℝ) ^ (-β) /
          ((mn / (reach pw m ops).total * ((reach pw m ops).size : Rat) : ℚ) : ℝ) ^ (-β) ≤ 1 := by
  have h := reach_inv pw m ops hm hl
  obtain ⟨mn, h1, _, _, h2, _, h4, h5⟩ := weights_spec hpw h hs [i] (by simpa using hi) id
  obtain ⟨r1, r2⟩ := rpow_ratio_unit β hβ _ _ h4 (h5 i (by simp))
  exact ⟨mn, h1, by simpa using h2, r1, r2⟩

end buffer

/-! ## the same statements about the definitions GENERATED from the source text

`Gen/SegTreeGen.lean` is written by `harness/py2lean_segtree.py` from
`agilerl/components/segment_tree.py` on every run of the check; `Proofs/SegTreeGenEq.lean` proves
each generated definition equal to its model counterpart.  The theorems below restate the tree
theorems directly over the generated definitions (`SegTreeGen.SegmentTree.setitem`, `…operate`,
`SumSegmentTree.retrieve`, the operation / initial value each subclass passes), so a change of the
source that alters its meaning breaks them. -/
section source_translation
open SegTreeGen

/-- every generated definition equals the hand-written model function, for all inputs and all fuel -/
theorem C11_source_translation_equalities {α : Type} (op : α → α → α) (d : α) (cap : Nat) (t : List α) :
    (∀ c, SegmentTree.init c d = if isPow2 c = true then some (initTree c d) else none) ∧
    (∀ fuel idx t', SegmentTree.setitem_loop0 op d cap fuel t' idx = fixUp op d fuel idx t') ∧
    (∀ i v, SegmentTree.setitem op d cap t (i + cap) i v = setItem op d cap t i v) ∧
    (∀ fuel s e node ns ne,
      SegmentTree.operate_helper op d cap t fuel s e node ns ne = operateAux op d t fuel s e node ns ne) ∧
    (∀ s e, (s ≤ (if e = 0 then e + cap else e) - 1 ∧ (if e = 0 then e + cap else e) - 1 < cap) →
      SegmentTree.operate op d cap t (cap + 1) s e = operate op d cap t s e) ∧
    (∀ i, SegmentTree.getitem op d cap t i = if i < cap then some (nd d t (cap + i)) else none) ∧
    SumSegmentTree.op = (fun a b : Rat => a + b) ∧ SumSegmentTree.initValue = 0 ∧
    MinSegmentTree.op = minInf ∧ MinSegmentTree.initValue = none ∧
    (∀ (o : Rat → Rat → Rat) (ts : List Rat) fuel idx u,
      SumSegmentTree.retrieve_loop0 o 0 cap ts fuel u idx = retrieveLoop cap ts fuel idx u) ∧
    (∀ (o : Rat → Rat → Rat) (ts : List Rat) u, 0 < cap →
      SumSegmentTree.retrieve o 0 cap ts cap u = retrieve cap ts u) :=
  ⟨gen_init_eq d, gen_setitem_loop_eq op d cap, gen_setitem_eq op d cap t, gen_operate_helper_eq op d cap t,
    gen_operate_eq op d cap t, gen_getitem_eq op d cap t, gen_sum_op_eq, gen_sum_init_value_eq, gen_min_op_eq,
    gen_min_init_value_eq, fun o ts => gen_retrieve_loop_eq o cap ts, fun o ts u hc => gen_retrieve_eq o cap hc ts u⟩

/-- **tree invariant over the generated code**: a tree made by the generated `__init__` and then
    written by any sequence of generated `__setitem__` calls satisfies the node invariant and
    holds in leaf `i` the last value written to it -/
theorem C11_source_translation_tree_invariant {α : Type} (op : α → α → α) (d : α) (hd : op d d = d)
    (c : Nat) (t0 : List α) (h0 : SegmentTree.init c d = some t0) (ws : List (Nat × α))
    (hw : ∀ w ∈ ws, w.1 < c) :
    Inv op d c (ws.foldl (fun t w => SegmentTree.setitem op d c t (w.1 + c) w.1 w.2) t0) ∧
    ∀ i, i < c →
      (ws.foldl (fun t w => SegmentTree.setitem op d c t (w.1 + c) w.1 w.2) t0).getD (c + i) d
        = lastWritten d ws i := by
  have ht0 : t0 = initTree c d := by
    rw [gen_init_eq] at h0
    split at h0
    · exact (Option.some.inj h0).symm
    · cases h0
  have hf : (fun (t : List α) (w : Nat × α) => SegmentTree.setitem op d c t (w.1 + c) w.1 w.2) =
      fun t w => setItem op d c t w.1 w.2 := by
    funext t w; exact gen_setitem_eq op d c t w.1 w.2
  rw [hf, ht0]
  exact C11_tree_invariant op d hd c ws hw

/-- **roots and ranges over the generated code**: `sum()` / `min()` of the generated subclasses
    (with the operation and initial value they pass to `super().__init__`) return the sum / the
    minimum of all leaves, and `sum(s, e)` the sum of the leaves `s … e-1` -/
theorem C11_source_translation_roots (k : Nat) (ts : List Rat) (tm : List (Option Rat))
    (hs : Inv SumSegmentTree.op SumSegmentTree.initValue (2 ^ k) ts)
    (hmn : Inv MinSegmentTree.op MinSegmentTree.initValue (2 ^ k) tm) (fuel : Nat) :
    SumSegmentTree.sum SumSegmentTree.op SumSegmentTree.initValue (2 ^ k) ts (fuel + 1) 0 0
      = some (∑ j ∈ range (2 ^ k), ts.getD (2 ^ k + j) 0) ∧
    (∀ s e, s < e → e ≤ 2 ^ k →
      SumSegmentTree.sum SumSegmentTree.op SumSegmentTree.initValue (2 ^ k) ts (2 ^ k + 1) s e
        = some (∑ j ∈ range (e - s), ts.getD (2 ^ k + (s + j)) 0)) ∧
    ∃ r, MinSegmentTree.min MinSegmentTree.op MinSegmentTree.initValue (2 ^ k) tm (fuel + 1) 0 0 = some r ∧
      (r = none ↔ ∀ j, j < 2 ^ k → tm.getD (2 ^ k + j) none = none) ∧
      ∀ m, r = some m → (∃ j, j < 2 ^ k ∧ tm.getD (2 ^ k + j) none = some m) ∧
        ∀ j, j < 2 ^ k → ∀ x, tm.getD (2 ^ k + j) none = some x → m ≤ x := by
  rw [gen_min_op_eq, gen_min_init_value_eq] at hmn ⊢
  have hs' : Inv (fun a b : Rat => a + b) 0 (2 ^ k) ts := hs
  refine ⟨?_, ?_, ?_⟩
  · rw [gen_sum_eq, gen_operate_full, gen_sum_init_value_eq, C11_sum_is_fold k ts hs']; rfl
  · intro s e h1 h2
    have he : e ≠ 0 := by omega
    rw [gen_sum_eq, gen_operate_eq _ _ _ _ _ _ (by simp only [he, if_false]; omega)]
    exact (C11_range_sum_min k ts tm hs' hmn s e h1 h2).1
  · refine ⟨_, by rw [gen_min_eq, gen_operate_full], ?_⟩
    exact C11_min_is_fold k tm hmn

/-- **retrieve specification over the generated code**: on a sum tree that satisfies the invariant,
    for `0 ≤ u < total` the generated `retrieve` (assertion included) returns a leaf `i < capacity`
    with `prefix i ≤ u < prefix i + leaf i`, hence of positive mass -/
theorem C11_source_translation_retrieve_spec (k : Nat) (t : List Rat)
    (hinv : Inv SumSegmentTree.op SumSegmentTree.initValue (2 ^ k) t) (u : Rat) (h0 : 0 ≤ u)
    (h1 : u < t.getD 1 0) :
    ∃ i, SumSegmentTree.retrieve SumSegmentTree.op SumSegmentTree.initValue (2 ^ k) t (2 ^ k) u = some i ∧
      i < 2 ^ k ∧
      (∑ j ∈ range i, t.getD (2 ^ k + j) 0) ≤ u ∧
      u < (∑ j ∈ range i, t.getD (2 ^ k + j) 0) + t.getD (2 ^ k + i) 0 ∧
      0 < t.getD (2 ^ k + i) 0 := by
  have hinv' : Inv (fun a b : Rat => a + b) 0 (2 ^ k) t := hinv
  obtain ⟨a, b, c, e, f⟩ := C11_retrieve_spec k t hinv' u h0 h1
  refine ⟨retrieveWalk (2 ^ k) t u, ?_, b, c, e, f⟩
  rw [gen_sum_init_value_eq, gen_retrieve_eq _ _ (Nat.pos_of_ne_zero (by simp))]
  exact a

end source_translation

/-! ## the buffer theorems about the definitions GENERATED from `PrioritizedReplayBuffer`

`Gen/PerGen.lean` is written by `harness/py2lean_per.py` from the class `PrioritizedReplayBuffer` of
`agilerl/components/replay_buffer.py` on every run; its functions call the generated tree functions.
`Proofs/PerGenEq.lean` proves them equal to the PER part of the model (for every `fuel ≥ 2 · tree capacity`; the
`ReplayBuffer` base class is the cursor / size arithmetic of the C09 ring, `ringEnv`).  `genReach pw f fuel m ops` is
the state obtained by running the generated `__init__`, `add` and `update_priorities` on a legal history. -/
section per_source_translation
open SegTreeGen PerGen
variable (pw f : Rat → Rat) (m : Nat) (ops : List Op)

/-- the generated buffer code simulates the model on every legal history: it never raises, and its state is the
    model state (`toModel`) -/
theorem C11_source_translation_per_simulates (hm : 0 < m) (fuel : Nat) (hf : 2 * treeCapacity m ≤ fuel)
    (hl : Legal pw (PER.new m) ops) :
    ∃ st, genReach pw f fuel m ops = some st ∧ Good fuel st ∧ toModel st = reach pw m ops := by
  obtain ⟨st, e, hg, ht⟩ := gen_per_reach_sim pw f m hm fuel hf ops hl
  exact ⟨st, e, hg, ht⟩

/-- **`tree_ptr` follows the ring cursor** in the generated code, after any legal history -/
theorem C11_source_translation_per_ptr_follows_cursor (hm : 0 < m) (fuel : Nat) (hf : 2 * treeCapacity m ≤ fuel)
    (hl : Legal pw (PER.new m) ops) :
    ∃ st, genReach pw f fuel m ops = some st ∧ st.tree_ptr = st.ring.cursor ∧
      st.ring.cursor = countAdded ops % st.ring.maxSize ∧ st.ring.size = min (countAdded ops) st.ring.maxSize := by
  obtain ⟨st, e, _, ht⟩ := C11_source_translation_per_simulates pw f m ops hm fuel hf hl
  obtain ⟨h1, h2, h3⟩ := C11_ptr_follows_cursor pw m ops hm hl
  rw [← ht] at h1 h2 h3
  exact ⟨st, e, h1, h2, h3⟩

/-- **a new transition gets the highest priority seen so far** in the generated code: a further generated `add`
    of `n` rows succeeds, leaves `max_priority` unchanged and makes the generated `sum_tree[…]` of the `n` slots
    from the cursor on equal to `max_priority ** alpha` -/
theorem C11_source_translation_per_new_gets_max (hm : 0 < m) (fuel : Nat) (hf : 2 * treeCapacity m ≤ fuel)
    (hl : Legal pw (PER.new m) ops) (n : Nat) :
    ∃ st st', genReach pw f fuel m ops = some st ∧
      PrioritizedReplayBuffer.add (ringEnv pw f) fuel st n = some st' ∧
      st'.max_priority = st.max_priority ∧
      st.max_priority = (seenPriorities ops).foldl max 1 ∧
      ∀ j, j < n → SegmentTree.getitem SumSegmentTree.op SumSegmentTree.initValue st'.sum_tree_cap st'.sum_tree
        ((st.ring.cursor + j) % st.ring.maxSize) = some (pw st.max_priority) := by
  obtain ⟨st, e, hg, ht⟩ := C11_source_translation_per_simulates pw f m ops hm fuel hf hl
  obtain ⟨st', e', hg', ht'⟩ := gen_per_add_eq pw f fuel st _ ⟨hg, ht⟩ n
  obtain ⟨a1, a2⟩ := C11_new_gets_max pw m ops hm hl n
  have hmax := C11_max_priority_is_highest_seen pw m ops hm hl
  have hinv := reach_inv pw m ops hm hl
  obtain ⟨_, _, hms, _⟩ := add_inv pw _ _ _ hinv n
  rw [← ht'] at a1 a2 hms
  rw [← ht] at a1 a2 hmax hms
  refine ⟨st, st', e, e', a1, hmax, fun j hj => ?_⟩
  rw [gen_getitem_eq]
  have hlt : (st.ring.cursor + j) % st.ring.maxSize < st'.sum_tree_cap := by
    have h1 : (st.ring.cursor + j) % st.ring.maxSize < st.ring.maxSize := Nat.mod_lt _ hg.pos
    have h2 : st'.ring.maxSize ≤ st'.sum_tree_cap := hg'.le
    have h3 : st'.ring.maxSize = st.ring.maxSize := hms
    omega
  rw [if_pos hlt]
  exact congrArg some (a2 j hj)

/-- **only stored transitions of positive mass are sampled, index `i` owning an interval of length
    `priority_i ** alpha`** — for the generated `_sample_proportional` with explicit draws in `[0, 1)`: it succeeds,
    returns one index per draw, namely the end of the model's walk for the stratified mass `u`, which is a stored
    index with `prefix i ≤ u < prefix i + leaf i` -/
theorem C11_source_translation_per_sample (hpw : ∀ p, 0 < p → 0 < pw p) (hm : 0 < m) (fuel : Nat)
    (hf : 2 * treeCapacity m ≤ fuel) (hl : Legal pw (PER.new m) ops) (rs : List Rat) (hne : rs ≠ [])
    (hr : ∀ r ∈ rs, 0 ≤ r ∧ r < 1) :
    ∃ st, genReach pw f fuel m ops = some st ∧ (0 < st.ring.size →
      PrioritizedReplayBuffer.sample_proportional (ringEnv pw f) fuel st rs rs.length =
        some ((strata (toModel st).total rs).map (retrieveWalk st.sum_tree_cap st.sum_tree)) ∧
      ∀ u ∈ strata (toModel st).total rs,
        0 ≤ u ∧ u < (toModel st).total ∧
        retrieveWalk st.sum_tree_cap st.sum_tree u < st.ring.size ∧
        (toModel st).prefix (retrieveWalk st.sum_tree_cap st.sum_tree u) ≤ u ∧
        u < (toModel st).prefix (retrieveWalk st.sum_tree_cap st.sum_tree u)
              + (toModel st).leaf (retrieveWalk st.sum_tree_cap st.sum_tree u)) := by
  obtain ⟨st, e, hg, ht⟩ := C11_source_translation_per_simulates pw f m ops hm fuel hf hl
  refine ⟨st, e, fun hs => ?_⟩
  have hinv : PInv pw (toModel st) (countAdded ops) (seenPriorities ops) := by
    rw [ht]; exact reach_inv pw m ops hm hl
  obtain ⟨_, hmem⟩ := sampleIdx_spec hpw hinv hs rs hne hr
  have hlen : ¬ rs.length = 0 := fun h => hne (List.length_eq_zero_iff.mp h)
  constructor
  · rw [gen_per_sample_proportional_eq pw f fuel st _ ⟨hg, rfl⟩ rs, if_neg hlen]
    have hmap : (strata (toModel st).total rs).map (retrieve (toModel st).cap (toModel st).sumT) =
        (strata (toModel st).total rs).map (fun u => some (retrieveWalk (toModel st).cap (toModel st).sumT u)) := by
      apply List.map_congr_left
      intro u hu
      obtain ⟨u0, u1, _⟩ := hmem u hu
      exact (retrieve_stored hinv u u0 u1).1
    rw [hmap, allSome_map_some]
    rfl
  · intro u hu
    obtain ⟨u0, u1, u2⟩ := hmem u hu
    obtain ⟨_, _, c, d⟩ := retrieve_stored hinv u u0 u1
    exact ⟨u0, u1, u2, c, d⟩

/-- **importance weights in `(0, 1]`** for the generated `_calculate_weights` on stored indices: it succeeds and
    returns `f (N·P(i)) / f (N·P_min)` per index, each in `(0, 1]`, for every positive antitone `f` (`x ** -beta`) -/
theorem C11_source_translation_per_weights (hpw : ∀ p, 0 < p → 0 < pw p) (hm : 0 < m) (fuel : Nat)
    (hf : 2 * treeCapacity m ≤ fuel) (hl : Legal pw (PER.new m) ops)
    (hfpos : ∀ x, 0 < x → 0 < f x) (hanti : ∀ x y, 0 < x → x ≤ y → f y ≤ f x) (idxs : List Nat) :
    ∃ st, genReach pw f fuel m ops = some st ∧ (0 < st.ring.size → (∀ i ∈ idxs, i < st.ring.size) →
      ∃ mn ws, (toModel st).minRoot = some mn ∧
        PrioritizedReplayBuffer.calculate_weights (ringEnv pw f) fuel st idxs = some ws ∧
        ws = idxs.map (fun i => f ((toModel st).leaf i / (toModel st).total * ((toModel st).size : Rat)) /
          f (mn / (toModel st).total * ((toModel st).size : Rat))) ∧
        (toModel st).weights f idxs = some ws ∧
        ∀ w ∈ ws, 0 < w ∧ w ≤ 1) := by
  obtain ⟨st, e, hg, ht⟩ := C11_source_translation_per_simulates pw f m ops hm fuel hf hl
  refine ⟨st, e, fun hs hidx => ?_⟩
  have hinv : PInv pw (toModel st) (countAdded ops) (seenPriorities ops) := by
    rw [ht]; exact reach_inv pw m ops hm hl
  obtain ⟨mn, h1, _, _, _, h3, h4, h5⟩ := weights_spec hpw hinv hs idxs hidx f
  have htot := hinv.total_pos hpw hs
  have hcap : ∀ i ∈ idxs, i < (toModel st).cap := by
    intro i hi
    have h1 : i < st.ring.size := hidx i hi
    have h2 : (toModel st).size ≤ (toModel st).maxSize := by rw [hinv.size]; omega
    have h3 : st.ring.maxSize ≤ st.sum_tree_cap := hg.le
    show i < st.sum_tree_cap
    have : st.ring.size ≤ st.ring.maxSize := h2
    omega
  have hgen := gen_per_calculate_weights_eq pw f fuel st _ ⟨hg, rfl⟩ idxs hcap mn h1 (ne_of_gt htot)
    (ne_of_gt (hfpos _ h4))
  refine ⟨mn, _, h1, hgen, rfl, h3, ?_⟩
  intro w hw
  obtain ⟨i, hi, rfl⟩ := List.mem_map.mp hw
  exact ratio_unit f hfpos hanti _ _ h4 (h5 i hi)

end per_source_translation

/-! ## boundary of the property (API misuse) and non-vacuity -/

/-- outside the legal sequences: `update_priorities` accepts any index `< max_size`, also one that
    holds no transition yet; after such a call `sample` returns an unstored index.  (The training
    loop only feeds back indices that `sample` returned.) -/
theorem C11_update_unstored_witness :
    ¬ (∀ i ∈ ((PER.updateMany id ((PER.new 4).add id 1) [(2, 1)]).1.sampleIdx [3/4]).getD [],
        i < (PER.updateMany id ((PER.new 4).add id 1) [(2, 1)]).1.size) := by
  decide +kernel

/-- a legal history with wrap-around, a tiny (clamped), a huge and a repeated update -/
def demoOps : List Op :=
  [.add 2, .update [(0, 1/2), (1, 4), (1, 1/1000000)], .add 2, .update [(2, 1024), (2, 3)], .add 1]

example : Legal id (PER.new 3) demoOps := by decide +kernel

example : countAdded demoOps = 5 ∧ (reach id 3 demoOps).size = 3 ∧ (reach id 3 demoOps).treePtr = 2 ∧
    (reach id 3 demoOps).cursor = 2 ∧ (reach id 3 demoOps).cap = 4 ∧
    (reach id 3 demoOps).maxPriority = 1024 := by decide +kernel
example : (List.range 4).map (reach id 3 demoOps).leaf = [4, 1024, 3, 0] := by decide +kernel
example : (reach id 3 demoOps).total = 1031 ∧ (reach id 3 demoOps).minRoot = some 3 := by decide +kernel
example : (reach id 3 demoOps).sampleIdx [0, 1/2, 3/4, 1/2] = some [0, 1, 1, 1] := by decide +kernel
example : (reach id 3 demoOps).sampleIdx [1/256, 0] = some [0, 1] := by decide +kernel
example : (reach id 3 demoOps).weights (negPowN 1) [0, 1, 2] = some [3/4, 3/1024, 1] := by decide +kernel
/-- the generated code, run on the demo history, reaches the model state and samples / weighs as the model does -/
example : (genReach id (negPowN 1) 8 3 demoOps).map toModel = some (reach id 3 demoOps) := by decide +kernel
example : (genReach id (negPowN 1) 8 3 demoOps).bind (fun st =>
    PerGen.PrioritizedReplayBuffer.sample_proportional (ringEnv id (negPowN 1)) 8 st [0, 1/2, 3/4, 1/2] 4) = some [0, 1, 1, 1] := by
  decide +kernel
example : (genReach id (negPowN 1) 8 3 demoOps).bind (fun st =>
    PerGen.PrioritizedReplayBuffer.calculate_weights (ringEnv id (negPowN 1)) 8 st [0, 1, 2]) = some [3/4, 3/1024, 1] := by
  decide +kernel
example : retrieve 4 (reach id 3 demoOps).sumT 1030 = some 2 ∧
    retrieve 4 (reach id 3 demoOps).sumT 1031 = some 3 ∧       -- u = total: unstored leaf (needs u < total)
    retrieve 4 (reach id 3 demoOps).sumT 1032 = none := by decide +kernel
example : ∀ x, 0 < x → 0 < negPowN 1 x := by
  intro x hx; simp only [negPowN, powN]; rw [one_mul]; exact one_div_pos.mpr hx

end SegTree
