import Proofs.VecEnvWrap
import Proofs.VecEnvGenEq
import Proofs.VecRecvGenEq
import Proofs.VecRecvStepWait

/-!
# C12 — the vectorised multi-agent environment equals N independent environments

Model: `Model/VecEnv.lean`.  A sub-environment is an *arbitrary* deterministic `Env` (`reset`, `step`,
agents possibly absent from the dicts); every theorem quantifies over all such environments — one per
worker, so episode lengths differ per worker and resets interleave arbitrarily — over all numbers of
workers and agents, all observation layouts `sizes[agent][key]`, all action batches and all action
sequences.  The only hypotheses are `EnvWF` (an environment's observations have the member sizes of its
declared observation space — what numpy would otherwise reject) and `MemOK` (the shared memory was
allocated for that many workers, as the constructor does).

`Variant.repaired` is the code after `fixes/C12-*.diff`; `Variant.original` is the code before and is
only used in the `…_witness` theorems.
-/
namespace VecEnv
variable {S A α R I : Type}

/-! ## shared memory -/

/-- the slices `[i*size, (i+1)*size)` of two different workers never overlap, and every worker's slice
    lies inside a buffer allocated for `n` workers — for all sizes -/
theorem C12_slices_disjoint (sz n i j k : Nat) (hij : i ≠ j) (hi : i < n)
    (hk : i * sz ≤ k ∧ k < i * sz + sz) :
    ¬ (j * sz ≤ k ∧ k < j * sz + sz) ∧ k < n * sz :=
  ⟨slices_disjoint sz i j k hij hk, by have := slice_in_bounds sz n i hi; omega⟩

/-- writing worker `i`'s observation member into its slice and reading position `i` back gives exactly
    that member; what is read at every other position `j ≠ i` is unchanged — for all sizes -/
theorem C12_read_write_roundtrip (buf : List α) (n sz i : Nat) (xs : List α)
    (hlen : buf.length = n * sz) (hi : i < n) (hx : xs.length = sz) :
    readRow (writeSlice buf (i * sz) xs) sz i = xs ∧
    ∀ j, j ≠ i → readRow (writeSlice buf (i * sz) xs) sz j = readRow buf sz j :=
  ⟨readRow_writeSlice_same buf n sz i xs hlen hi hx,
   fun j hj => readRow_writeSlice_other buf sz i j xs hj hx⟩

/-- workers' effects commute: apply the slice writes of all workers in ANY order (any interleaving of
    the individual `np.copyto` calls of all processes) — the parent finds the same memory -/
theorem C12_schedule_independent (sizes : List (List Nat)) (m : Mem α)
    (obsAll : List (List (List (List α))))
    (hconf : ∀ (i : Nat) (obs : List (List (List α))), obsAll[i]? = some obs → Conforms sizes obs)
    (order : List (MicroOp α)) (hp : (allOps sizes obsAll).Perm order) :
    order.foldl applyOp m = writeAll sizes m obsAll :=
  (foldl_applyOp_perm sizes _ _ hp (fun x hx => (allOps_wf sizes obsAll hconf x hx).1)
    (allOps_consistent sizes obsAll) m).symm

/-- after the workers have written, position `i` of buffer (agent, key) is member `key` of agent's
    observation in sub-environment `i` -/
theorem C12_parent_reads_worker_obs (sizes : List (List Nat)) (m : Mem α)
    (obsAll : List (List (List (List α)))) (hm : MemOK m sizes obsAll.length)
    (hconf : ∀ (i : Nat) (obs : List (List (List α))), obsAll[i]? = some obs → Conforms sizes obs)
    (i a k : Nat) (obs : List (List (List α))) (keys : List (List α)) (chunk : List α)
    (h1 : obsAll[i]? = some obs) (h2 : obs[a]? = some keys) (h3 : keys[k]? = some chunk) :
    readRow ((writeAll sizes m obsAll).buf a k) (sizeAt sizes a k) i = chunk :=
  readRow_writeAll sizes m obsAll hm hconf h1 h2 h3

/-! ## actions -/

/-- `PettingZooVecEnv.step`: the list handed to worker `i` is column `i` of the action dict, i.e.
    sub-environment `i` receives exactly its own action of every agent (and nobody else's) -/
theorem C12_action_transposition (dA : A) (n : Nat) (acts : List (List A)) (i : Nat) (hi : i < n) :
    (transposeActs dA n acts)[i]? = some (col dA acts i) ∧
    (col dA acts i).length = acts.length ∧
    ∀ (a : Nat) (row : List A) (x : A), acts[a]? = some row → row[i]? = some x →
      ((transposeActs dA n acts)[i]?.bind (·[a]?)) = some x := by
  refine ⟨by simp [transposeActs, List.getElem?_map, List.getElem?_range hi], by simp [col], ?_⟩
  intro a row x hrow hx
  simp [transposeActs, col, List.getElem?_map, List.getElem?_range hi, hrow,
    List.getD_eq_getElem?_getD, hx]

/-! ## the vector environment against N independent environments -/

/-- `reset(seed)`: every sub-environment is reset with `seed + i`; position `i` of the returned
    observations and infos is what sub-environment `i` returned -/
theorem C12_vec_reset_equals_sequential (P : Placeholder α R I) (sizes : List (List Nat))
    (E : Nat → Env S A α R I) (sys : Sys S α) (seed : Option Nat)
    (hE : ∀ i, EnvWF sizes (E i)) (hm : MemOK sys.mem sizes sys.envs.length) (i : Nat) (s : S)
    (hs : sys.envs[i]? = some s) :
    (vecReset P sizes E sys seed).1.envs[i]? = some ((E i).reset s (seed.map (· + i))).1 ∧
    (vecReset P sizes E sys seed).2.Shows i (fillReset P sizes ((E i).reset s (seed.map (· + i))).2) ∧
    MemOK (vecReset P sizes E sys seed).1.mem sizes (vecReset P sizes E sys seed).1.envs.length := by
  obtain ⟨hl, hm', h⟩ := vecReset_spec P sizes E sys seed hE hm
  exact ⟨(h i s hs).1, (h i s hs).2, hl ▸ hm'⟩

/-- MAIN THEOREM.  For every action sequence `seq` (each element a dict agent → batch of actions) and
    every step `t` of it, position `i` of every field of the `t`-th returned batch — reward, termination,
    truncation, info and every member of every agent's observation — is what sub-environment `i` returns at
    its `t`-th step when it is run alone (`refRun`: step, complete with placeholders, auto-reset when every
    agent is done and then show the new episode's first observation) on column `i` of the actions.
    Induction over `seq`; the sub-environments are arbitrary and independent, so resets interleave
    arbitrarily. -/
theorem C12_vec_equals_sequential (P : Placeholder α R I) (sizes : List (List Nat))
    (E : Nat → Env S A α R I) (dA : A) (hE : ∀ i, EnvWF sizes (E i))
    (seq : List (List (List A))) (sys : Sys S α) (hm : MemOK sys.mem sizes sys.envs.length) :
    (vecRun .repaired P sizes E dA sys seq).length = seq.length ∧
    ∀ (i : Nat) (s : S), sys.envs[i]? = some s →
      (refRun P sizes (E i) s (seq.map (fun acts => col dA acts i))).length = seq.length ∧
      ∀ (t : Nat) (B : Batch α R I), (vecRun .repaired P sizes E dA sys seq)[t]? = some B →
        ∃ outs, (refRun P sizes (E i) s (seq.map (fun acts => col dA acts i)))[t]? = some outs ∧
          B.Shows i outs :=
  ⟨length_vecRun _ _ _ _ _ _ _, fun i s hs =>
    ⟨by simp [length_refRun], vecRun_spec P sizes E dA hE seq sys hm i s hs⟩⟩

/-- "the observation returned for it is the first observation of its new episode", as a statement about
    a variant of the worker -/
def ResetShowsFirstObs (v : Variant) (P : Placeholder α R I) (sizes : List (List Nat))
    (E : Nat → Env S A α R I) (dA : A) : Prop :=
  ∀ (sys : Sys S α) (acts : List (List A)), MemOK sys.mem sizes sys.envs.length →
    ∀ (i : Nat) (s : S), sys.envs[i]? = some s →
      allDone (fill P sizes ((E i).step s (col dA acts i)).2) = true →
      ∀ (a : Nat) (x : List (List α) × I),
        (fillReset P sizes ((E i).reset ((E i).step s (col dA acts i)).1 none).2)[a]? = some x →
        (vecStep v P sizes E dA sys acts).2.infoAt a i = some x.2 ∧
        ∀ k c, x.1[k]? = some c → (vecStep v P sizes E dA sys acts).2.obsAt a k i = some c

/-- when all agents of sub-environment `i` finish, position `i` shows the first observation and the info
    of the new episode (with the reward / termination / truncation of the step that ended the old one) -/
theorem C12_reset_shows_first_obs (P : Placeholder α R I) (sizes : List (List Nat))
    (E : Nat → Env S A α R I) (dA : A) (hE : ∀ i, EnvWF sizes (E i)) :
    ResetShowsFirstObs .repaired P sizes E dA := by
  intro sys acts hm i s hs hd a x hx
  obtain ⟨_, _, h⟩ := vecStep_spec .repaired P sizes E dA sys acts hE hm
  have hshow := (h i s hs).2
  have ha : a < sizes.length := by
    have := (List.getElem?_eq_some_iff.1 hx).1
    rwa [length_fillReset] at this
  obtain ⟨o, ho⟩ : ∃ o, (fill P sizes ((E i).step s (col dA acts i)).2)[a]? = some o := by
    rw [getElem?_fill, List.getElem?_eq_getElem ha]; exact ⟨_, rfl⟩
  have hw : (workerStep .repaired P sizes (E i) s (col dA acts i)).2[a]? =
      some { o with obs := x.1, info := x.2 } := by
    simp only [workerStep, hd, if_true, getElem?_showReset, ho, hx, Option.map_some, showResetAt]
  obtain ⟨_, _, _, hinfo, hobs⟩ := hshow a _ hw
  exact ⟨hinfo, hobs⟩

/-- reward, termination and truncation at a resetting position are those of the step that finished -/
theorem C12_reset_keeps_final_reward (P : Placeholder α R I) (sizes : List (List Nat))
    (E : Nat → Env S A α R I) (dA : A) (hE : ∀ i, EnvWF sizes (E i))
    (sys : Sys S α) (acts : List (List A)) (hm : MemOK sys.mem sizes sys.envs.length)
    (i : Nat) (s : S) (hs : sys.envs[i]? = some s) (a : Nat) (o : AgentOut α R I)
    (ho : (fill P sizes ((E i).step s (col dA acts i)).2)[a]? = some o) :
    (vecStep .repaired P sizes E dA sys acts).2.rewAt a i = some o.rew ∧
    (vecStep .repaired P sizes E dA sys acts).2.termAt a i = some o.term ∧
    (vecStep .repaired P sizes E dA sys acts).2.truncAt a i = some o.trunc := by
  obtain ⟨_, _, h⟩ := vecStep_spec .repaired P sizes E dA sys acts hE hm
  have hshow := (h i s hs).2
  by_cases hd : allDone (fill P sizes ((E i).step s (col dA acts i)).2) = true
  · have hw : (workerStep .repaired P sizes (E i) s (col dA acts i)).2[a]? =
        some (showResetAt o (fillReset P sizes ((E i).reset ((E i).step s (col dA acts i)).1 none).2)[a]?) := by
      simp only [workerStep, hd, if_true, getElem?_showReset, ho, Option.map_some]
    obtain ⟨h1, h2, h3, _, _⟩ := hshow a _ hw
    cases hx : (fillReset P sizes ((E i).reset ((E i).step s (col dA acts i)).1 none).2)[a]? with
    | none => simp only [hx, showResetAt] at h1 h2 h3; exact ⟨h1, h2, h3⟩
    | some x => simp only [hx, showResetAt] at h1 h2 h3; exact ⟨h1, h2, h3⟩
  · have hw : (workerStep .repaired P sizes (E i) s (col dA acts i)).2[a]? = some o := by
      simp only [workerStep, hd]; simpa using ho
    obtain ⟨h1, h2, h3, _, _⟩ := hshow a _ hw
    exact ⟨h1, h2, h3⟩

/-- sub-environment `i` is reset exactly when all of ITS agents are done (terminated or truncated, absent
    agents counting as done); whether other sub-environments reset has no influence on it -/
theorem C12_only_finished_env_resets (v : Variant) (P : Placeholder α R I) (sizes : List (List Nat))
    (E : Nat → Env S A α R I) (dA : A) (hE : ∀ i, EnvWF sizes (E i))
    (sys : Sys S α) (acts : List (List A)) (hm : MemOK sys.mem sizes sys.envs.length)
    (i : Nat) (s : S) (hs : sys.envs[i]? = some s) :
    (vecStep v P sizes E dA sys acts).1.envs[i]? =
      some (if allDone (fill P sizes ((E i).step s (col dA acts i)).2) = true
            then ((E i).reset ((E i).step s (col dA acts i)).1 none).1
            else ((E i).step s (col dA acts i)).1) := by
  obtain ⟨_, _, h⟩ := vecStep_spec v P sizes E dA sys acts hE hm
  rw [(h i s hs).1]
  unfold workerStep
  by_cases hd : allDone (fill P sizes ((E i).step s (col dA acts i)).2) = true <;> simp [hd]

/-! ## the auto-reset wrapper -/

def WrapperResetsIffAllDone (v : Variant) (E : Env S A α R I) : Prop :=
  ∀ (s : S) (acts : List A),
    ((∀ o, some o ∈ (E.step s acts).2 → o.term = true ∨ o.trunc = true) →
      (wrapperStep v E s acts).1 = (E.reset (E.step s acts).1 none).1 ∧
      (wrapperStep v E s acts).2.obsInfo = (E.reset (E.step s acts).1 none).2.map some) ∧
    (¬ (∀ o, some o ∈ (E.step s acts).2 → o.term = true ∨ o.trunc = true) →
      (wrapperStep v E s acts).1 = (E.step s acts).1 ∧
      (wrapperStep v E s acts).2.obsInfo = (E.step s acts).2.map (Option.map (fun o => (o.obs, o.info))))

/-- the wrapper restarts the episode — and returns the new episode's first observation — if and only if
    every agent in the returned dicts is terminated or truncated; this is the worker's condition
    (`allDone` of the dicts completed with placeholders) -/
theorem C12_wrapper_reset_condition (E : Env S A α R I) :
    WrapperResetsIffAllDone .repaired E ∧
    ∀ (P : Placeholder α R I) (sizes : List (List Nat)) (s : S) (acts : List A),
      (E.step s acts).2.length = sizes.length →
      allDone (fill P sizes (E.step s acts).2) = presentDone (E.step s acts).2 := by
  refine ⟨fun s acts => ⟨fun h => ?_, fun h => ?_⟩, fun P sizes s acts hl => allDone_fill P sizes _ hl⟩
  · have := (presentDone_iff _).2 h
    rw [wrapperStep_repaired_reset E s acts this]; exact ⟨rfl, rfl⟩
  · have : presentDone (E.step s acts).2 = false := by
      cases hp : presentDone (E.step s acts).2 with
      | false => rfl
      | true => exact absurd ((presentDone_iff _).1 hp) h
    rw [wrapperStep_repaired_pass E s acts this]; exact ⟨rfl, rfl⟩

/-! ## the code before the repairs: witnesses -/

/-- a one-agent counting environment whose episodes end after two steps by TRUNCATION only;
    state (episode, step), observation `[[10*episode + step]]` -/
def toy : Env (Nat × Nat) Unit Nat Nat Nat where
  reset := fun s _ => ((s.1 + 1, 0), [([[10 * (s.1 + 1)]], 0)])
  step := fun s _ => ((s.1, s.2 + 1),
    [some { obs := [[10 * s.1 + s.2 + 1]], rew := 1, term := false, trunc := decide (s.2 + 1 ≥ 2), info := 1 }])

def toyP : Placeholder Nat Nat Nat := ⟨0, 0, 0⟩

/-- before the repair the worker captured the transition before resetting: after the episode of the toy
    environment ends (state (1,1) → step 2), position 0 shows the terminal observation `[12]`, and the
    first observation `[20]` of episode 2 is never returned -/
theorem C12_original_hides_first_obs_witness :
    ¬ ResetShowsFirstObs .original toyP [[1]] (fun _ => toy) () := by
  intro h
  have := (h ⟨[(1, 1)], [[[11]]]⟩ [[()]] (by unfold MemOK Mem.shape; decide) 0 (1, 1) rfl (by decide) 0 ([[20]], 0) (by decide)).2
    0 [20] (by decide)
  revert this
  decide

/-- before the repair the wrapper looked at the terminations only: the truncation-only episode of the toy
    environment is never restarted -/
theorem C12_original_wrapper_ignores_truncation_witness :
    ¬ WrapperResetsIffAllDone .original toy := by
  intro h
  have := ((h (1, 1) []).1 ((presentDone_iff _).1 (by decide))).1
  revert this
  decide

/-! ## non-vacuity -/

/-- the scripted environment the correspondence harness runs satisfies `EnvWF` for every script -/
example (c : Script) : EnvWF c.sizes (scripted c) := scripted_wf c

/-- freshly allocated memory satisfies `MemOK` -/
example : MemOK (Mem.alloc (0 : Int) [[7], [7, 3]] 2) [[7], [7, 3]] 2 := MemOK.alloc 0 _ 2

/-- the toy environment satisfies `EnvWF`, and with the repaired worker the resetting step shows `[20]` -/
example : (vecStep .repaired toyP [[1]] (fun _ => toy) () ⟨[(1, 1)], [[[11]]]⟩ [[()]]).2.obsAt 0 0 0 = some [20] := by
  decide
example : (vecStep .original toyP [[1]] (fun _ => toy) () ⟨[(1, 1)], [[[11]]]⟩ [[()]]).2.obsAt 0 0 0 = some [12] := by
  decide
/-- two workers, one of which resets while the other does not -/
example : ((vecStep .repaired toyP [[1]] (fun _ => toy) () ⟨[(1, 1), (4, 0)], [[[11, 40]]]⟩ [[(), ()]]).1.envs
    = [(2, 0), (4, 1)]) := by decide
example : (allOps [[1]] [[[[5]]], [[[6]]]] : List (MicroOp Nat)).length = 2 := by decide


/-! ## source translation

`Gen/VecEnvGen.lean` is generated from the source text of `pettingzoo_wrappers.py`, `pz_vec_env.py` and
`pz_async_vec_env.py` on every run (`harness/py2lean_vecenv.py`); `Proofs/VecEnvGenEq.lean` proves the generated
definitions equal to the model's.  The theorems below restate the property over the GENERATED definitions
(`VecEnvGen.*`): `toPy` presents an arbitrary model environment through the PettingZoo API, `genP e` is the
placeholder the source builds, `encode i (state, outs)` is what worker `i` writes to shared memory and sends. -/
section translation
open VecEnvGen
variable {Ω : Type} [Neg α] [OfNat α 1] [OfNat R 0]

/-- MAIN THEOREM over the generated code.  For every sequence of well-shaped action dicts the generated vector
    environment (generated de-batching with the per-agent int conversion, generated messages, generated command
    dispatch, generated worker step with auto-reset and placeholders) never raises, and at every step `t` what
    worker `i` writes to shared memory and sends back is exactly what sub-environment `i` returns at its step `t`
    when it is run alone under the auto-reset rule (`refRun`) on column `i` of the actions — for every index,
    every number of workers and agents, arbitrary independent environments. -/
theorem C12_source_translation_vec_equals_sequential (isint isI : A → Bool) (toInt sq : A → A)
    (hint : ∀ x, isI x = true → toInt x = x) (hsq : ∀ x, sq x = x) (e : I) (spaces : List PySpace)
    (E : Nat → Env S A α R I) (dA : A) (hE : ∀ i, EnvAgents spaces.length (E i))
    (seq : List (List (List A))) (sts : List S) (hseq : ∀ acts ∈ seq, ActsOK spaces.length sts.length acts) :
    ∃ L, genRun (Ω := Ω) isint isI toInt sq e spaces E sts seq = some L ∧ L.length = seq.length ∧
      ∀ (i : Nat) (s : S), sts[i]? = some s → ∀ (t : Nat) row, L[t]? = some row →
        ∃ st outs, row[i]? = some (encode i (st, outs)) ∧
          (refRun (genP e) (spaces.map members) (E i) s (seq.map (fun acts => col dA acts i)))[t]? = some outs :=
  gen_run_spec isint isI toInt sq hint hsq e spaces E dA hE seq sts hseq

/-- one step of the generated vector environment is the model's `vecStep` on the worker side: the new state of
    worker `i` is `vecStep`'s, and what it writes / sends is the encoding of `workerStep .repaired` — so every
    theorem about `vecStep .repaired` above (shared memory, gathering, `C12_vec_equals_sequential`) applies to
    what the generated workers produce -/
theorem C12_source_translation_vec_step (isint isI : A → Bool) (toInt sq : A → A)
    (hint : ∀ x, isI x = true → toInt x = x) (hsq : ∀ x, sq x = x) (e : I) (spaces : List PySpace)
    (E : Nat → Env S A α R I) (dA : A) (hE : ∀ i, EnvAgents spaces.length (E i))
    (sys : Sys S α) (acts : List (List A)) (hA : ActsOK spaces.length sys.envs.length acts) :
    ∃ res, vec_step isint isI toInt sq e chunkCtor (fun i => (toPy spaces (E i) : PyEnv S A (List (List α)) R I Ω))
        (List.range spaces.length) sys.envs (acts.map some) = some res ∧
      res.map (·.1) = (vecStep .repaired (genP e) (spaces.map members) E dA sys acts).1.envs ∧
      ∀ i s, sys.envs[i]? = some s →
        res[i]? = some (encode i (workerStep .repaired (genP e) (spaces.map members) (E i) s (col dA acts i))) := by
  refine ⟨_, gen_vec_step_eq isint isI toInt sq hint hsq e spaces E dA sys.envs acts hA hE, ?_, ?_⟩
  · rw [vecStep_eq]
    apply List.ext_getElem?
    intro i
    simp only [List.getElem?_map, List.getElem?_mapIdx, getElem?_stepResults]
    cases sys.envs[i]? <;> rfl
  · intro i s hs
    rw [List.getElem?_mapIdx, hs]; rfl

/-- auto-reset happens exactly when all agents are done, in the generated worker: the sub-environment's new
    state is the reset state iff every agent is terminated or truncated (absent agents count as done); then the
    observation and info written / sent are those of the reset (first observation of the new episode) and the
    reward / termination / truncation those of the finished step; otherwise everything is the step's -/
theorem C12_source_translation_autoreset_iff_all_done (isint : A → Bool) (sq : A → A) (hsq : ∀ x, sq x = x) (e : I)
    (spaces : List PySpace) (E : Env S A α R I) (i : Nat) (s : S) (acts : List A)
    (hacts : acts.length = spaces.length) (hE : EnvAgents spaces.length E) :
    (allDone (fill (genP e) (spaces.map members) (E.step s acts).2) = true →
      worker_step isint sq e chunkCtor (toPy spaces E : PyEnv S A (List (List α)) R I Ω) i
          (List.range spaces.length) s acts =
        some ((E.reset (E.step s acts).1 none).1,
          ((i, (fillReset (genP e : Placeholder α R I) (spaces.map members)
                  (E.reset (E.step s acts).1 none).2).map (fun x => some x.1)),
           ((fill (genP e) (spaces.map members) (E.step s acts).2).map (fun o => some o.rew),
            (fill (genP e) (spaces.map members) (E.step s acts).2).map (fun o => some o.term),
            (fill (genP e) (spaces.map members) (E.step s acts).2).map (fun o => some o.trunc),
            (fillReset (genP e : Placeholder α R I) (spaces.map members)
                  (E.reset (E.step s acts).1 none).2).map (fun x => some x.2))))) ∧
    (allDone (fill (genP e) (spaces.map members) (E.step s acts).2) = false →
      worker_step isint sq e chunkCtor (toPy spaces E : PyEnv S A (List (List α)) R I Ω) i
          (List.range spaces.length) s acts =
        some (encode i ((E.step s acts).1, fill (genP e) (spaces.map members) (E.step s acts).2))) := by
  have h := gen_worker_step_eq (Ω := Ω) isint sq hsq e spaces E i s acts hacts (hE s acts)
  constructor
  · intro hd
    rw [h]
    simp only [workerStep, hd, if_true, outDicts_showReset]
  · intro hd
    rw [h]
    simp [workerStep, hd, encode]

omit [Neg α] [OfNat α 1] [OfNat R 0] in
/-- the generated wrapper restarts the episode — and returns the new episode's first observation and info with
    the finished step's reward / termination / truncation — if and only if every agent in the returned dicts is
    terminated or truncated -/
theorem C12_source_translation_wrapper_reset_condition (spaces : List PySpace) (E : Env S A α R I) (s : S)
    (acts : List A) :
    ((∀ o, some o ∈ (E.step s acts).2 → o.term = true ∨ o.trunc = true) →
      Wrapper.step (toPy spaces E : PyEnv S A (List (List α)) R I Ω) s (acts.map some) =
        some ((E.reset (E.step s acts).1 none).1,
          ((E.reset (E.step s acts).1 none).2.map (fun x => some x.1),
           (E.step s acts).2.map (Option.map (·.rew)), (E.step s acts).2.map (Option.map (·.term)),
           (E.step s acts).2.map (Option.map (·.trunc)),
           (E.reset (E.step s acts).1 none).2.map (fun x => some x.2)))) ∧
    (¬ (∀ o, some o ∈ (E.step s acts).2 → o.term = true ∨ o.trunc = true) →
      Wrapper.step (toPy spaces E : PyEnv S A (List (List α)) R I Ω) s (acts.map some) =
        some ((E.step s acts).1,
          ((E.step s acts).2.map (Option.map (·.obs)), (E.step s acts).2.map (Option.map (·.rew)),
           (E.step s acts).2.map (Option.map (·.term)), (E.step s acts).2.map (Option.map (·.trunc)),
           (E.step s acts).2.map (Option.map (·.info))))) := by
  rw [gen_wrapper_step_eq]
  constructor
  · intro h
    rw [wrapperStep_repaired_reset E s acts ((presentDone_iff _).2 h)]
    simp [wrapDicts, Function.comp_def]
  · intro h
    have hp : presentDone (E.step s acts).2 = false := by
      cases hp : presentDone (E.step s acts).2 with
      | false => rfl
      | true => exact absurd ((presentDone_iff _).1 hp) h
    rw [wrapperStep_repaired_pass E s acts hp]
    simp [wrapDicts, Function.comp_def]

/-- seeds are `seed + i`: `reset(seed, options)` of the generated vector environment sends worker `i` the command
    "reset" with `{"seed": seed + i, "options": options}` (no seed: `None` for everyone), and sub-environment `i`
    is reset with exactly that seed; position `i` of the result is what it returned, completed with placeholders -/
theorem C12_source_translation_seeds (e : I) (spaces : List PySpace) (E : Nat → Env S A α R I) (sts : List S)
    (seed : Option Nat) (o : Option Ω) :
    AsyncPettingZooVecEnv.reset sts.length seed o =
      some ((List.range sts.length).map (fun i => (i, reset_async_command, (seed.map (· + i), o)))) ∧
    ∃ res, vec_reset e chunkCtor (fun i => (toPy spaces (E i) : PyEnv S A (List (List α)) R I Ω))
        (List.range spaces.length) sts seed o = some res ∧
      ∀ i s, sts[i]? = some s →
        res[i]? = some (encodeReset i (((E i).reset s (seed.map (· + i))).1,
          fillReset (genP e : Placeholder α R I) (spaces.map members) ((E i).reset s (seed.map (· + i))).2)) := by
  refine ⟨gen_reset_messages_eq _ _ _, _, gen_vec_reset_eq e spaces E sts seed o, ?_⟩
  intro i s hs
  rw [List.getElem?_mapIdx, hs]; rfl

/-- the generated `PettingZooVecEnv.step` sends worker `i` the command "step" with column `i` of the action dict
    (`[actions[agent][i] for agent in agents]`, every discrete action converted per agent) — sub-environment `i`
    receives exactly its own action of every agent -/
theorem C12_source_translation_action_transposition (isI : A → Bool) (toInt : A → A)
    (hint : ∀ x, isI x = true → toInt x = x) (dA : A) (n : Nat) (acts : List (List A))
    (hA : ActsOK acts.length n acts) :
    PettingZooVecEnv.step isI toInt (List.range acts.length) n (acts.map some) =
      some ((List.range n).map (fun i => (i, step_async_command, col dA acts i))) ∧
    worker_branch step_async_command = worker_step_branch ∧
    worker_branch reset_async_command = worker_reset_branch := by
  refine ⟨?_, gen_dispatch_step, gen_dispatch_reset⟩
  rw [gen_step_messages_eq isI toInt hint dA acts n hA.1 hA.2.2]
  congr 1
  apply List.map_congr_left
  intro i hi
  rw [getD_transposeActs dA n acts i (List.mem_range.1 hi)]

/-- non-vacuity: the scripted environments of the harness meet `EnvAgents`; a concrete resetting step of the
    generated worker on the toy environment shows the first observation `[20]` of episode 2 with the reward and
    truncation of the finished step -/
example (c : Script) : EnvAgents c.sizes.length (scripted c) := scripted_envAgents c

example : worker_step (fun _ : Unit => false) id (0 : Int) chunkCtor
    (toPy [.box 1] (Env.mk (fun s _ => ((s.1 + 1, 0), [([[10 * ((s.1 : Int) + 1)]], (0 : Int))]))
      (fun (s : Int × Int) (_ : List Unit) => ((s.1, s.2 + 1),
        [some { obs := [[10 * s.1 + s.2 + 1]], rew := (1 : Int), term := false,
                trunc := decide (s.2 + 1 ≥ 2), info := (1 : Int) }]))) : PyEnv _ _ _ _ _ Unit)
    0 [0] (1, 1) [()] =
    some ((2, 0), ((0, [some [[20]]]), ([some 1], [some false], [some true], [some 0]))) := by rfl

end translation

/-! ## source translation of the receive side and the shared-memory layout (`Gen/VecRecvGen.lean`)

`harness/py2lean_vecrecv.py` translates `_create_memory_array`, `create_shared_memory`, `write_to_shared_memory`
(and the worker's calls of it), `Observations.__init__ / __getitem__`, `step_wait`, `reset_wait`, `_add_info`;
`Proofs/VecRecvGenEq.lean` proves the generated slice arithmetic equal to the model's.  Buffers are flat lists,
shapes dimension lists, dtypes erased. -/
section recv
open VecRecvGen

/-- (i-a) writer and reader use the same offset and width: each of the three slices of the generated
    `write_to_shared_memory` (Dict member, Tuple member, plain space) is `[i*size, i*size + size)`, and row `i` of
    the generated reader's `reshape((num_envs, *shape'))` (`shape' = shape`, or `(1,)` for a scalar space) has the
    same width `size = prod(shape)` — for all indices and shapes -/
theorem C12_source_translation_recv_same_offset (i : Nat) (shape : List Nat) :
    write_to_shared_memory_slice0 i (npProd shape) = (i * shapeSize shape, i * shapeSize shape + shapeSize shape) ∧
    write_to_shared_memory_slice1 i (npProd shape) = (i * shapeSize shape, i * shapeSize shape + shapeSize shape) ∧
    write_to_shared_memory_slice2 i (npProd shape) = (i * shapeSize shape, i * shapeSize shape + shapeSize shape) ∧
    shapeSize (viewShape shape) = shapeSize shape :=
  ⟨by rw [gen_slice0_eq]; rfl, by rw [gen_slice1_eq]; rfl, by rw [gen_slice2_eq]; rfl, shapeSize_viewShape shape⟩

/-- (i-b) read-after-write through the generated code, for every number of environments `n`, every number of
    agents with arbitrary plain shapes, every worker `i < n`: after the generated `write_to_shared_memory(i, obs)`,
    the generated `Observations(shared_memory, spaces, n)[a]` is the agent's buffer reshaped to
    `(n, *shape')`, its row `i` is exactly the flattened observation worker `i` wrote for agent `a`, and every
    other row `j ≠ i` is what it was before -/
theorem C12_source_translation_recv_read_after_write (i n : Nat) (shapes : List (List Nat))
    (obs : List (NdArr α)) (bufs : List (List α)) (hi : i < n)
    (hA : obs.length = shapes.length) (hB : bufs.length = shapes.length)
    (hconf : ∀ (a : Nat) (sh : List Nat), shapes[a]? = some sh →
      (∀ x : NdArr α, obs[a]? = some x → x.data.length = shapeSize sh) ∧
      (∀ b : List α, bufs[a]? = some b → b.length = n * shapeSize sh)) :
    ∃ bufs' : List (List α),
      write_to_shared_memory i (leafDict obs) (leafDict bufs) (boxSpaces shapes) = some (leafDict bufs') ∧
      ∃ o, Observations.init (leafDict bufs') (boxSpaces shapes) n = some o ∧
        ∀ (a : Nat) (sh : List Nat) (x : NdArr α) (b : List α),
          shapes[a]? = some sh → obs[a]? = some x → bufs[a]? = some b →
          ∃ b', Observations.getitem o a = some (.leaf ⟨n :: viewShape sh, b'⟩) ∧
            readRow b' (shapeSize sh) i = x.data ∧
            ∀ j, j ≠ i → readRow b' (shapeSize sh) j = readRow b (shapeSize sh) j := by
  refine ⟨_, gen_write_box_eq i n shapes obs bufs hi hA hB hconf, ?_⟩
  refine ⟨_, gen_init_box_eq n shapes _ ?_, ?_⟩
  · have := length_foldl_modify (β := NdArr α) (γ := List α)
      (fun p b => writeSlice b (i * shapeSize ((shapes[p.1]?).getD [])) p.2.data)
      ((obs.zipIdx 0).map (fun p => (p.2, p.1))) bufs
    simp only [List.foldl_map] at this
    rw [this, hB]
  · intro a sh x b hs hx hb
    have hbuf := gen_write_box_getElem? i shapes obs bufs a
    simp only [hx, hb, hs, Option.map_some, Option.getD_some] at hbuf
    refine ⟨writeSlice b (i * shapeSize sh) x.data, gen_getitem_box_eq _ a sh _ ?_ ?_ ?_, ?_⟩
    · simp [PyDict.get, boxSpaces, hs]
    · simp [PyDict.get, leafDict, hbuf]
    · simp only [writeSlice, List.length_mapIdx]; exact (hconf a sh hs).2 b hb
    · exact ⟨readRow_writeSlice_same b n (shapeSize sh) i x.data ((hconf a sh hs).2 b hb) hi ((hconf a sh hs).1 x hx),
        fun j hj => readRow_writeSlice_other b (shapeSize sh) i j x.data hj ((hconf a sh hs).1 x hx)⟩

/-- (ii) the generated slices of the `n` workers partition the buffer the generated `_create_memory_array`
    allocates: its length is `n * prod(shape)`; every slice lies inside it; every cell belongs to the slice of
    exactly one worker (no overlap, no gap) — for all `n` and shapes, for each of the three generated slices -/
theorem C12_source_translation_recv_slices_partition [Inhabited α] (n : Nat) (shape : List Nat) :
    (∃ buf : List α, create_memory_array (α := α) n (⟨shape⟩ : SubSpace) = some buf ∧
      create_memory_array (α := α) n (Space.box shape) = some buf ∧ buf.length = n * npProd shape) ∧
    (∀ i, i < n → (write_to_shared_memory_slice2 i (npProd shape)).2 ≤ n * npProd shape) ∧
    (∀ k, k < n * npProd shape → ∃ i, i < n ∧
      ((write_to_shared_memory_slice2 i (npProd shape)).1 ≤ k ∧ k < (write_to_shared_memory_slice2 i (npProd shape)).2) ∧
      ∀ j, ((write_to_shared_memory_slice2 j (npProd shape)).1 ≤ k ∧
            k < (write_to_shared_memory_slice2 j (npProd shape)).2) → j = i) ∧
    (∀ i sz, write_to_shared_memory_slice0 i sz = write_to_shared_memory_slice2 i sz ∧
             write_to_shared_memory_slice1 i sz = write_to_shared_memory_slice2 i sz) := by
  refine ⟨⟨_, gen_create_memory_array_eq n ⟨shape⟩, gen_create_memory_array_box_eq n shape, by simp [bufLen, npProd_eq]⟩,
    ?_, ?_, fun i sz => ⟨by rw [gen_slice0_eq, gen_slice2_eq], by rw [gen_slice1_eq, gen_slice2_eq]⟩⟩
  · intro i hi
    rw [gen_slice2_eq]
    have := slice_in_bounds (npProd shape) n i hi
    simpa [sliceOf] using this
  · intro k hk
    generalize npProd shape = sz at hk ⊢
    have hsz : 0 < sz := by
      rcases Nat.eq_zero_or_pos sz with h | h
      · subst h; simp at hk
      · exact h
    refine ⟨k / sz, (Nat.div_lt_iff_lt_mul hsz).2 hk, ?_, ?_⟩
    · rw [gen_slice2_eq]
      have h1 := Nat.div_add_mod k sz
      have h2 := Nat.mod_lt k hsz
      have h3 : k / sz * sz = sz * (k / sz) := Nat.mul_comm _ _
      simp only [sliceOf]
      omega
    · intro j hj
      rw [gen_slice2_eq] at hj
      simp only [sliceOf] at hj
      have h1 := Nat.div_add_mod k sz
      have h2 := Nat.mod_lt k hsz
      have h3 : k / sz * sz = sz * (k / sz) := Nat.mul_comm _ _
      by_contra hne
      exact slices_disjoint sz j (k / sz) k hne hj ⟨by omega, by omega⟩

/-- (iii) on a concrete run: the generated `step_wait` on two pipes (replies of env 0 and env 1, two agents) returns
    per agent the rows in pipe-index order; the pipes list is indexed by the loop, so which worker finished first
    is not an input of the function at all -/
example : (step_wait (R := Nat) (K := Nat) (α := Nat) (fun k => k + 100) 3
    { num_envs := 2, agents := [0, 1],
      parent_pipes := [⟨some ((⟨[some 10, some 11]⟩, ⟨[some false, some true]⟩, ⟨[some false, some false]⟩, .dict []), true)⟩,
                       ⟨some ((⟨[some 20, some 21]⟩, ⟨[some true, some true]⟩, ⟨[some false, some true]⟩, .dict []), true)⟩],
      observations := ⟨2, ⟨[]⟩, ⟨[]⟩, [], ⟨[]⟩⟩, copy := true }).map (fun r => (r.2.1, r.2.2.1, r.2.2.2.1)) =
    some (⟨[some [10, 20], some [11, 21]]⟩, ⟨[some [false, true], some [true, true]]⟩,
          ⟨[some [false, false], some [false, true]]⟩) := by decide
end recv

/-! ## the generated `step_wait` / `_add_info`: positions come from the loop index (`Proofs/VecRecvStepWait.lean`) -/
section recv2
open VecRecvGen
variable {K : Type}

/-- (iii) rows of the generated `step_wait` come from the loop index, for every number of environments and agents
    and every list of per-pipe replies (all successful; a failed pipe makes `step_wait` raise — C13): for every
    agent, each returned array (rewards `r.2.1`, terminations `r.2.2.1`, truncations `r.2.2.2.1`) has one row per
    pipe; row `i` is what reply `i` holds for that agent — a function of reply `i` alone; and replacing the reply of
    any other pipe `j ≠ i` leaves row `i` unchanged.  Nothing about the order in which the pipes became ready is an
    input of the function. -/
theorem C12_source_translation_recv_step_wait_rows [DecidableEq K] (underscore : K → K) (depth : Nat)
    (self : VecEnvObj α (StepReply R K × Bool)) (replies : List (StepReply R K))
    (hp : self.parent_pipes = replies.map (fun m => (⟨some (m, true)⟩ : Pipe (StepReply R K × Bool))))
    (hn : self.agents.Nodup)
    (r : ObsOut α × PyDict (List R) × PyDict (List Bool) × PyDict (List Bool) × VVal K)
    (h : step_wait underscore depth self = some r) (a : Nat) (ha : a ∈ self.agents) :
    ((rowD r.2.1 a).length = replies.length ∧ (rowD r.2.2.1 a).length = replies.length ∧
      (rowD r.2.2.2.1 a).length = replies.length) ∧
    (∀ (i : Nat) (m : StepReply R K), replies[i]? = some m →
      (rowD r.2.1 a)[i]? = PyDict.get m.1 a ∧ (rowD r.2.2.1 a)[i]? = PyDict.get m.2.1 a ∧
      (rowD r.2.2.2.1 a)[i]? = PyDict.get m.2.2.1 a) ∧
    (∀ (j : Nat) (m' : StepReply R K) (self' : VecEnvObj α (StepReply R K × Bool))
       (r' : ObsOut α × PyDict (List R) × PyDict (List Bool) × PyDict (List Bool) × VVal K),
      self'.agents = self.agents →
      self'.parent_pipes = (replies.set j m').map (fun m => (⟨some (m, true)⟩ : Pipe (StepReply R K × Bool))) →
      step_wait underscore depth self' = some r' →
      ∀ i, i ≠ j → (rowD r'.2.1 a)[i]? = (rowD r.2.1 a)[i]? ∧ (rowD r'.2.2.1 a)[i]? = (rowD r.2.2.1 a)[i]? ∧
        (rowD r'.2.2.2.1 a)[i]? = (rowD r.2.2.2.1 a)[i]?) := by
  obtain ⟨h0, h1, h2⟩ := gen_step_wait_rows underscore depth self replies hp hn r h a ha
  have l0 := length_of_map_some _ _ _ h0
  have l1 := length_of_map_some _ _ _ h1
  have l2 := length_of_map_some _ _ _ h2
  refine ⟨⟨l0, l1, l2⟩, fun i m hm => ⟨getElem?_of_map_some _ _ _ h0 i m hm, getElem?_of_map_some _ _ _ h1 i m hm,
    getElem?_of_map_some _ _ _ h2 i m hm⟩, ?_⟩
  intro j m' self' r' hag hp' h' i hij
  obtain ⟨g0, g1, g2⟩ := gen_step_wait_rows underscore depth self' _ hp' (hag ▸ hn) r' h' a (hag ▸ ha)
  have k0 := length_of_map_some _ _ _ g0
  have k1 := length_of_map_some _ _ _ g1
  have k2 := length_of_map_some _ _ _ g2
  simp only [List.length_set] at k0 k1 k2
  have hset : (replies.set j m')[i]? = replies[i]? := List.getElem?_set_ne (fun e => hij e.symm)
  cases hm : replies[i]? with
  | some m =>
    rw [hm] at hset
    rw [getElem?_of_map_some _ _ _ g0 i m hset, getElem?_of_map_some _ _ _ g1 i m hset,
      getElem?_of_map_some _ _ _ g2 i m hset, getElem?_of_map_some _ _ _ h0 i m hm,
      getElem?_of_map_some _ _ _ h1 i m hm, getElem?_of_map_some _ _ _ h2 i m hm]
    exact ⟨rfl, rfl, rfl⟩
  | none =>
    have hi : replies.length ≤ i := by
      rcases Nat.lt_or_ge i replies.length with hlt | hge
      · rw [List.getElem?_eq_getElem hlt] at hm; cases hm
      · exact hge
    rw [List.getElem?_eq_none (by omega), List.getElem?_eq_none (l := rowD r.2.1 a) (by omega),
      List.getElem?_eq_none (l := rowD r'.2.2.1 a) (by omega), List.getElem?_eq_none (l := rowD r.2.2.1 a) (by omega),
      List.getElem?_eq_none (l := rowD r'.2.2.2.1 a) (by omega), List.getElem?_eq_none (l := rowD r.2.2.2.1 a) (by omega)]
    exact ⟨rfl, rfl, rfl⟩


/-- the hypotheses of (iii) are satisfiable: two pipes, two agents, the run succeeds -/
example :
    let self : VecEnvObj Nat (StepReply Nat Nat × Bool) :=
      { num_envs := 2, agents := [0, 1],
        parent_pipes := [⟨some ((⟨[some 10, some 11]⟩, ⟨[some false, some true]⟩, ⟨[some false, some false]⟩, .dict []), true)⟩,
                         ⟨some ((⟨[some 20, some 21]⟩, ⟨[some true, some true]⟩, ⟨[some false, some true]⟩, .dict []), true)⟩],
        observations := ⟨2, ⟨[]⟩, ⟨[]⟩, [], ⟨[]⟩⟩, copy := true }
    (step_wait (fun k => k + 100) 3 self).isSome = true ∧ self.agents.Nodup ∧
    self.parent_pipes = ([(⟨[some 10, some 11]⟩, ⟨[some false, some true]⟩, ⟨[some false, some false]⟩, .dict []),
      (⟨[some 20, some 21]⟩, ⟨[some true, some true]⟩, ⟨[some false, some true]⟩, .dict [])] :
        List (StepReply Nat Nat)).map (fun m => (⟨some (m, true)⟩ : Pipe (StepReply Nat Nat × Bool))) :=
  ⟨by decide, by decide, rfl⟩

/-- (iv) infos of env `i` land under index `i`: folding the generated `_add_info` over the environments' infos in
    index order (the loop of `reset_wait` / `step_wait`, literally), for every number of environments and all flat
    (non-nested) info dicts with distinct keys, none of them a `_`-key (`EnvOK`), `_` injective: the fold succeeds,
    every entry is an array of `num_envs` cells, cell `i` of `infos[k]` is env `i`'s value when env `i` reported
    `k` and the fill value otherwise, and the mask `infos[_k]` is true exactly at the `i` that reported `k`
    (`cellD` reads an absent key as fill) -/
theorem C12_source_translation_recv_add_info_index [DecidableEq K] {ρ : Type} (underscore : K → K) (d : Nat)
    (self : VecEnvObj α ρ) (hinj : ∀ a b, underscore a = underscore b → a = b)
    (infos : List (List (K × VecRecvGen.Info K))) (hlen : infos.length ≤ self.num_envs)
    (hok : ∀ items ∈ infos, EnvOK underscore items) :
    ∃ vi, (pyEnumerate (infos.map VecRecvGen.Info.dict)).foldlM (fun v3 (v4, v5) => do
        let v3 := (← add_info underscore (d + 1) self v3 v5 v4)
        pure v3) (pyEmptyInfos : VVal K) = some vi ∧
      VWF self.num_envs vi ∧
      ∀ i k,
        ((∀ k', underscore k' ≠ k) → cellD vi k i =
          match (infos[i]?).bind (fun items => assocGet items k) with | some v => .val v | none => .fill) ∧
        (cellD vi (underscore k) i =
          match (infos[i]?).bind (fun items => assocGet items k) with
          | some _ => .val pyTrue | none => .fill) :=
  gen_add_info_index underscore d self hinj infos hlen hok

/-- (iv) per environment: one call `_add_info(infos, info_i, i)` changes cells of index `i` only, writes env `i`'s
    value and sets the mask there -/
theorem C12_source_translation_recv_add_info_env [DecidableEq K] {ρ : Type} (underscore : K → K) (d : Nat)
    (self : VecEnvObj α ρ) (items : List (K × VecRecvGen.Info K)) (i : Nat)
    (hi : i < self.num_envs) (hinj : ∀ a b, underscore a = underscore b → a = b)
    (vi : VVal K) (hwf : VWF self.num_envs vi) (hok : EnvOK underscore items) :
    ∃ vi', add_info underscore (d + 1) self vi (.dict items) i = some vi' ∧ VWF self.num_envs vi' ∧
      (∀ k' i', i' ≠ i → cellD vi' k' i' = cellD vi k' i') ∧
      (∀ k v, assocGet items k = some v → cellD vi' k i = .val v ∧ cellD vi' (underscore k) i = .val pyTrue) :=
  let ⟨vi', h1, h2, h3, h4, _⟩ := add_info_env underscore d self items i hi hinj vi hwf hok.1 hok.2.1 hok.2.2
  ⟨vi', h1, h2, h3, h4⟩

/-- (iv) through `reset_wait`: on pipes that all carry a successful reply with a flat info dict, the infos
    `reset_wait` returns have env `i`'s values in cell `i` and the masks true exactly where reported -/
theorem C12_source_translation_recv_reset_wait_infos [DecidableEq K] (underscore : K → K) (d : Nat)
    (self : VecEnvObj α (VecRecvGen.Info K × Bool))
    (hinj : ∀ a b, underscore a = underscore b → a = b)
    (infos : List (List (K × VecRecvGen.Info K))) (hlen : infos.length ≤ self.num_envs)
    (hok : ∀ items ∈ infos, EnvOK underscore items)
    (hp : self.parent_pipes = (infos.map (fun it => (VecRecvGen.Info.dict it, true))).map
      (fun m => (⟨some m⟩ : Pipe (VecRecvGen.Info K × Bool))))
    (r : ObsOut α × VVal K) (h : reset_wait underscore (d + 1) self = some r) :
    ∀ i k,
        ((∀ k', underscore k' ≠ k) → cellD r.2 k i =
          match (infos[i]?).bind (fun items => assocGet items k) with | some v => .val v | none => .fill) ∧
        (cellD r.2 (underscore k) i =
          match (infos[i]?).bind (fun items => assocGet items k) with
          | some _ => .val pyTrue | none => .fill) :=
  gen_reset_wait_infos underscore d self hinj infos hlen hok hp r h

/-- the hypotheses of (iv) are satisfiable (two envs; env 0 reports key 1, env 1 keys 1 and 2; `_k = k + 100`), and
    `reset_wait` succeeds on such pipes -/
example : (∀ items ∈ addInfoExInfos, EnvOK (fun k => k + 100) items) ∧ addInfoExInfos.length ≤ addInfoExSelf.num_envs :=
  ⟨addInfoExInfos_ok, by decide⟩
example : (reset_wait (α := Nat) (fun k : Nat => k + 100) 1
    { num_envs := 2, agents := [], parent_pipes := (addInfoExInfos.map (fun it => (VecRecvGen.Info.dict it, true))).map
        (fun m => (⟨some m⟩ : Pipe (VecRecvGen.Info Nat × Bool))),
      observations := ⟨2, ⟨[]⟩, ⟨[]⟩, [], ⟨[]⟩⟩, copy := false }).isSome = true := by decide

end recv2

section recv4
open VecRecvGen
variable {α : Type}

/-- (i-c) the Dict branch of the generated `write_to_shared_memory`, for every number of environments `n`, every
    worker `i < n`, every number of agents with Dict spaces of ANY number of keys and arbitrary member shapes
    (replaces the two-key `decide` instance): the write succeeds, and member `j` of agent `a`'s shared memory is
    its old buffer with row `i` = the flattened member observation worker `i` wrote; every other row `j' ≠ i`
    (the other environments' slices) is what it was -/
theorem C12_source_translation_recv_write_dict (i n : Nat) (subss : List (List SubSpace))
    (obs : List (List (NdArr α))) (bufs : List (List (List α))) (hi : i < n)
    (hA : obs.length = subss.length) (hB : bufs.length = subss.length)
    (hconf : ∀ (a : Nat) (subs : List SubSpace) (mo : List (NdArr α)) (mb : List (List α)),
      subss[a]? = some subs → obs[a]? = some mo → bufs[a]? = some mb →
        mo.length = subs.length ∧ mb.length = subs.length ∧
        ∀ (j : Nat) (sub : SubSpace) (x : NdArr α) (b : List α), subs[j]? = some sub → mo[j]? = some x →
          mb[j]? = some b → x.data.length = shapeSize sub.shape ∧ b.length = n * shapeSize sub.shape) :
    ∃ bufs' : List (List (List α)),
      write_to_shared_memory i (dictDict obs) (dictDict bufs) (dictSpaces subss) = some (dictDict bufs') ∧
      ∀ (a : Nat) (subs : List SubSpace) (mo : List (NdArr α)) (mb : List (List α)) (j : Nat) (sub : SubSpace)
        (x : NdArr α) (b : List α),
        subss[a]? = some subs → obs[a]? = some mo → bufs[a]? = some mb →
        subs[j]? = some sub → mo[j]? = some x → mb[j]? = some b →
        ∃ b', (bufs'[a]?).bind (fun m => m[j]?) = some b' ∧
          readRow b' (shapeSize sub.shape) i = x.data ∧
          ∀ j', j' ≠ i → readRow b' (shapeSize sub.shape) j' = readRow b (shapeSize sub.shape) j' := by
  refine ⟨_, gen_write_dict_eq i n subss obs bufs hi hA hB hconf, ?_⟩
  intro a subs mo mb j sub x b hs ho hb hsj hx hbj
  have h1 := gen_write_dict_getElem? i subss obs bufs a
  simp only [ho, hb, hs, Option.map_some, Option.getD_some] at h1
  have h2 := memberWrite_getElem? i subs mo mb j
  simp only [hsj, hx, hbj, Option.map_some, Option.getD_some] at h2
  obtain ⟨_, _, hc⟩ := hconf a subs mo mb hs ho hb
  obtain ⟨hxl, hbl⟩ := hc j sub x b hsj hx hbj
  refine ⟨writeSlice b (i * shapeSize sub.shape) x.data, by rw [h1]; exact h2,
    readRow_writeSlice_same b n (shapeSize sub.shape) i x.data hbl hi hxl,
    fun j' hj' => readRow_writeSlice_other b (shapeSize sub.shape) i j' x.data hj' hxl⟩


/-- the hypotheses of (i-c) are satisfiable: see the `example` after `memberWrite_getElem?` in
    `Proofs/VecRecvGenEq.lean` (one agent, members of sizes 2 and 1, two environments), restated here -/
example : ∃ bufs', write_to_shared_memory 1 (dictDict [[(⟨[2], [7, 8]⟩ : NdArr Nat), ⟨[], [9]⟩]])
    (dictDict [[[0, 0, 0, 0], [0, 0]]]) (dictSpaces [[⟨[2]⟩, ⟨[]⟩]]) = some (dictDict bufs') ∧
    bufs' = [[[0, 0, 7, 8], [0, 9]]] := ⟨_, by decide, rfl⟩

end recv4

end VecEnv
