import Proofs.VecProtoInv
import Proofs.VecProtoLegal
import Proofs.VecProtoWait
import Proofs.VecProtoPrompt
import Proofs.VecProtoGenEq
import Proofs.WorkerErrGenEq

/-!
# C13 — the vector environment rejects misuse and survives worker faults without hanging

Model: `Model/VecProto.lean` — the async state machine of `AsyncPettingZooVecEnv` with worker
faults (`raise T | sleep | kill` at a given command of a given worker).  `State.step : State → Op →
State × Outcome` is one public call (the async/wait pairs, `set_attr`, `close`, and the synchronous
wrappers `reset()` / `step()` / `call()` = `get_attr()` = `render()`); `Outcome = ok | err <error
class> | hang`.  `fixed = true` is the code with fixes/C13-close-after-worker-death.diff applied
(in /repo since b01184c), `fixed = false` the code before it; `fix2 = true` is the code with
fixes/C13-close-timeout-and-interrupt.diff (close(timeout) bounds its handshake and joins; in /repo since
cb46c45), `fix2 = false` the code before it.  /repo HEAD is `fixed = true`, `fix2 = true`: that is the variant the
definitions generated from the source text are proved equal to (section `source_translation` at the end).
A wait's `timed` flag stands for ANY timeout value, 0 included.

Liveness, timing and OS-level process death are *assumptions* A1–A7 of the model (listed at the top
of the model file) and are validated only by the fault-injection correspondence (harness/c13.py).
Everything below is proved for all worker counts, all fault scripts and all call sequences.
-/
namespace VecProto

/-- the documented error class of a call the protocol forbids in state `s` (`none` = legal):
    anything but `close` on a closed environment → `ClosedEnvironmentError`; an `*_async` call,
    `set_attr` or a synchronous wrapper (`reset`, `step`, `call`/`get_attr`/`render`) while a call is
    pending → `AlreadyPendingCallError`; an `X_wait` without a pending `X_async` → `NoAsyncCallError` -/
def misuse (s : State) : Op → Option Exc
  | .close _ _ => none
  | .resetAsync | .stepAsync | .callAsync | .setAttr | .resetSync | .stepSync | .callSync =>
    if s.closed then some .closedEnv else if s.astate ≠ .default then some .alreadyPending else none
  | .resetWait _ =>
    if s.closed then some .closedEnv else if s.astate ≠ .wreset then some .noAsyncCall else none
  | .stepWait _ =>
    if s.closed then some .closedEnv else if s.astate ≠ .wstep then some .noAsyncCall else none
  | .callWait _ =>
    if s.closed then some .closedEnv else if s.astate ≠ .wcall then some .noAsyncCall else none

/-- the decision table, for ALL states (either variant of the code, any worker configuration):
    a forbidden call raises exactly the documented error class and changes nothing -/
theorem C13_misuse_errors (s : State) (op : Op) (e : Exc) (h : misuse s op = some e) :
    s.step op = (s, .err e) := by
  cases op
  case close => simp [misuse] at h
  all_goals
    simp only [misuse] at h
    simp only [State.step, syncOp, asyncOp, waitOp, setAttrOp]
    split at h
    · rename_i hc; cases h; simp [hc]
    · rename_i hc
      split at h
      · rename_i hd; cases h; simp [hc, hd]
      · cases h

/-- … so the environment stays usable: whatever is called next behaves as if the misuse had not
    happened -/
theorem C13_misuse_transparent (s : State) (op : Op) (e : Exc) (h : misuse s op = some e) (ops : List Op) :
    s.runOps (op :: ops) = ((s.runOps ops).1, .err e :: (s.runOps ops).2) := by
  rw [State.runOps, C13_misuse_errors s op e h]

/-- with a call pending, EVERY entry point except the matching wait and `close` — the other
    `*_async` calls, `set_attr`, the synchronous `reset()` / `step()` / `call()` / `get_attr()` /
    `render()`, the two other waits — is rejected and leaves the whole configuration (state, pipes,
    unread replies of the pending call) exactly as it was; so the pending call completes with its own
    results and everything after it is as if the rejected call had never been made
    (`C13_misuse_transparent`) -/
theorem C13_rejected_call_keeps_pending (s : State) (hc : s.closed = false) (hp : s.astate ≠ .default)
    (op : Op) (hcl : ∀ t k, op ≠ .close t k)
    (hw : ∀ t, (op = .resetWait t → s.astate ≠ .wreset) ∧ (op = .stepWait t → s.astate ≠ .wstep) ∧
      (op = .callWait t → s.astate ≠ .wcall)) :
    ∃ e, (e = .alreadyPending ∨ e = .noAsyncCall) ∧ s.step op = (s, .err e) := by
  cases op with
  | close t k => exact absurd rfl (hcl t k)
  | resetWait t =>
    exact ⟨.noAsyncCall, Or.inr rfl, C13_misuse_errors s _ _ (by simp [misuse, hc, (hw t).1 rfl])⟩
  | stepWait t =>
    exact ⟨.noAsyncCall, Or.inr rfl, C13_misuse_errors s _ _ (by simp [misuse, hc, (hw t).2.1 rfl])⟩
  | callWait t =>
    exact ⟨.noAsyncCall, Or.inr rfl, C13_misuse_errors s _ _ (by simp [misuse, hc, (hw t).2.2 rfl])⟩
  | resetAsync => exact ⟨.alreadyPending, Or.inl rfl, C13_misuse_errors s _ _ (by simp [misuse, hc, hp])⟩
  | stepAsync => exact ⟨.alreadyPending, Or.inl rfl, C13_misuse_errors s _ _ (by simp [misuse, hc, hp])⟩
  | callAsync => exact ⟨.alreadyPending, Or.inl rfl, C13_misuse_errors s _ _ (by simp [misuse, hc, hp])⟩
  | setAttr => exact ⟨.alreadyPending, Or.inl rfl, C13_misuse_errors s _ _ (by simp [misuse, hc, hp])⟩
  | resetSync => exact ⟨.alreadyPending, Or.inl rfl, C13_misuse_errors s _ _ (by simp [misuse, hc, hp])⟩
  | stepSync => exact ⟨.alreadyPending, Or.inl rfl, C13_misuse_errors s _ _ (by simp [misuse, hc, hp])⟩
  | callSync => exact ⟨.alreadyPending, Or.inl rfl, C13_misuse_errors s _ _ (by simp [misuse, hc, hp])⟩

/-- every call other than `close` on a closed environment raises `ClosedEnvironmentError` -/
theorem C13_use_after_close_rejected (s : State) (op : Op) (hc : s.closed = true)
    (hop : ∀ t k, op ≠ .close t k) : s.step op = (s, .err .closedEnv) := by
  apply C13_misuse_errors
  cases op <;> simp [misuse, hc] at hop ⊢

/-- `close()` on a closed environment is a no-op that returns normally -/
theorem C13_close_idempotent (s : State) (t k : Bool) (hc : s.closed = true) :
    s.step (.close t k) = (s, .ok) := closeOp_closed s t k hc

/-- repaired code, ALL states: once `X_async` has been accepted, the matching `X_wait` — whether
    it returns, times out, re-raises a worker's exception or meets a dead pipe — leaves
    `_state = DEFAULT`; no pending state can get stuck -/
theorem C13_legal_returns_default (s : State) (hf : s.fixed = true) (a : AState) (timed : Bool)
    (hc : s.closed = false) (ha : s.astate = a) :
    (waitOp s a timed).1.astate = .default := by
  unfold waitOp
  rw [if_neg (by simp [hc]), if_neg (by simp [ha])]
  exact (waitCore_fixed_default s _ timed hf).1

/-- either variant of the code: on an idle environment with no fault due, `X_async` is accepted,
    `X_wait` (timed or not) returns normally, `_state` is DEFAULT and the environment is idle again -/
theorem C13_legal_pair_ok (s : State) (a : AState) (ha : a ≠ .default) (hc : s.closed = false)
    (hd : s.astate = .default) (hidle : ∀ w ∈ s.ws, Idle w ∧ due w (cmdOf a) = none) (timed : Bool) :
    (asyncOp s (cmdOf a) a).2 = .ok ∧ (asyncOp s (cmdOf a) a).1.astate = a ∧
    (waitOp (asyncOp s (cmdOf a) a).1 a timed).2 = .ok ∧
    (waitOp (asyncOp s (cmdOf a) a).1 a timed).1.astate = .default ∧
    (∀ w ∈ (waitOp (asyncOp s (cmdOf a) a).1 a timed).1.ws, Idle w) := by
  obtain ⟨h1, h2, h3, h4⟩ := legal_pair s (cmdOf a) a rfl ha hc hd hidle timed
  refine ⟨h1, h2, h3, by rw [h4]; exact hd, ?_⟩
  rw [h4]
  intro w hw
  obtain ⟨w0, hw0, rfl⟩ := List.mem_map.mp hw
  exact afterOk_idle _ w0 (hidle w0 hw0).1

/-- either variant of the code: if sub-environments raise `T` at the command just sent (the
    others being idle), the caller of the wait sees `T`, and `_state` is DEFAULT again -/
theorem C13_exception_propagates (s : State) (a : AState) (ha : a ≠ .default) (hc : s.closed = false)
    (hd : s.astate = .default) (hq : s.errq = []) (t : Nat)
    (hidle : ∀ w ∈ s.ws, IdleOrRaise (cmdOf a) t w)
    (hex : ∃ w ∈ s.ws, due w (cmdOf a) = some (.raise t)) (timed : Bool) :
    (asyncOp s (cmdOf a) a).2 = .ok ∧
    (waitOp (asyncOp s (cmdOf a) a).1 a timed).2 = .err (.worker t) ∧
    (waitOp (asyncOp s (cmdOf a) a).1 a timed).1.astate = .default ∧
    (waitOp (asyncOp s (cmdOf a) a).1 a timed).1.closed = false :=
  exception_propagates s (cmdOf a) a rfl ha hc hd hq t hidle hex timed

/-- a timed wait on a pipe with nothing to read (e.g. a sleeping worker) raises
    `multiprocessing.TimeoutError` and returns to DEFAULT; and a wait reports a timeout *only* then -/
theorem C13_timeout_is_timeout (s : State) (a : AState) (hc : s.closed = false) (ha : s.astate = a) :
    (∀ w ∈ s.ws, w.st = .hung → w.inbox = [] →
      waitOp s a true = ({ s with astate := .default }, .err .timeout)) ∧
    (∀ timed, (waitOp s a timed).2 = .err .timeout → timed = true ∧ pollAll s.ws = false) := by
  constructor
  · intro w hw hs hi
    unfold waitOp
    rw [if_neg (by simp [hc]), if_neg (by simp [ha])]
    exact waitCore_timeout s _ (pollAll_false_of_hung s.ws w hw hs hi)
  · intro timed h
    unfold waitOp at h
    rw [if_neg (by simp [hc]), if_neg (by simp [ha])] at h
    exact waitCore_timeout_only s _ timed h

/-- the configurations reachable from a fresh environment -/
def reach (fixed : Bool) (n : Nat) (script : List (Nat × FaultAt)) (ops : List Op) (fix2 : Bool := true) : State :=
  ((init fixed n script fix2).runOps ops).1

/-- after ANY call sequence (synchronous wrappers included) on ANY number of workers under ANY fault
    script of raise / sleep / kill faults, `close()` — plain, with timeout, or with terminate —
    returns normally, marks the environment closed, and no worker process is alive.
    (`fix2` either way: with finite sleeps a plain handshake ends too.) -/
theorem C13_close_kills_all (n : Nat) (script : List (Nat × FaultAt)) (hs : NoStuckScript script) (fix2 : Bool)
    (ops : List Op) (timed terminate : Bool) :
    ((reach true n script ops fix2).step (.close timed terminate)).2 = .ok ∧
    ((reach true n script ops fix2).step (.close timed terminate)).1.closed = true ∧
    ∀ w ∈ ((reach true n script ops fix2).step (.close timed terminate)).1.ws, w.st = .exited := by
  have hi := (runOps_inv ops _ (init_inv n script hs fix2)).1
  cases hc : (reach true n script ops fix2).closed with
  | false =>
    obtain ⟨h1, h2, h3, _⟩ := closeOp_spec _ timed terminate hi hc
    exact ⟨h1, h2, h3⟩
  | true =>
    have := closeOp_closed (reach true n script ops fix2) timed terminate hc
    show (closeOp _ _ _).2 = .ok ∧ (closeOp _ _ _).1.closed = true ∧ ∀ w ∈ (closeOp _ _ _).1.ws, w.st = .exited
    rw [this]
    exact ⟨rfl, hc, hi.closed hc⟩

/-- no public call ever blocks forever, whatever was called before and whatever raise / sleep /
    kill faults the script injects (A4: scripted sleeps are finite) -/
theorem C13_never_hangs (n : Nat) (script : List (Nat × FaultAt)) (hs : NoStuckScript script) (fix2 : Bool)
    (ops : List Op) : Outcome.hang ∉ ((init true n script fix2).runOps ops).2 :=
  (runOps_inv ops _ (init_inv n script hs fix2)).2

/-- EVERY fault script — sub-environments stuck for good included — and either variant of the code:
    a wait with a timeout, whatever its value (0.25 s, 0, …), never blocks; it returns, raises the
    worker's exception, or reports `multiprocessing.TimeoutError` (`C13_timeout_is_timeout` says when) -/
theorem C13_timed_wait_never_blocks (fixed fix2 : Bool) (n : Nat) (script : List (Nat × FaultAt)) (ops : List Op)
    (a : AState) : (waitOp (reach fixed n script ops fix2) a true).2 ≠ .hang := by
  have hi := runOps_inv0 ops _ (init_inv0 fixed fix2 n script)
  unfold waitOp
  split
  · simp
  · split
    · simp
    · exact waitCore_timed_no_hang _ _ hi.base

/-- repaired code (`fixed`, `fix2`), EVERY fault script — stuck, sleeping, killed, raising workers —
    and every history, with a call of any kind pending or not: `close(timeout=t)` for any `t`
    (0 included) and `close(terminate=True)` (which is what garbage collection of an unclosed
    environment calls) return normally, mark the environment closed and leave no worker alive -/
theorem C13_timed_close_prompt (n : Nat) (script : List (Nat × FaultAt)) (ops : List Op) (timed terminate : Bool)
    (h : timed = true ∨ terminate = true) :
    ((reach true n script ops true).step (.close timed terminate)).2 = .ok ∧
    ((reach true n script ops true).step (.close timed terminate)).1.closed = true ∧
    ∀ w ∈ ((reach true n script ops true).step (.close timed terminate)).1.ws, w.st = .exited := by
  have hi := runOps_inv0 ops _ (init_inv0 true true n script)
  have hf : (reach true n script ops true).fixed = true ∧ (reach true n script ops true).fix2 = true :=
    runOps_flags ops _ (init_inv0 true true n script)
  refine closeOp_prompt _ timed terminate hf.1 hi ?_
  rcases h with h | h
  · exact Or.inr ⟨h, hf.2⟩
  · exact Or.inl h

/-- PARTIAL — the current tree (`fix2 = false`).  What holds for every fault script and history:
    `close(terminate=True)` (and so garbage collection) returns and leaves nobody alive.  What is
    missing (and false, see the witness): the same for `close(timeout=t)` when nothing is pending and
    a sub-environment is stuck — the timeout then bounds nothing. -/
theorem C13_close_timeout_partial (n : Nat) (script : List (Nat × FaultAt)) (ops : List Op) (timed : Bool) :
    ((reach true n script ops false).step (.close timed true)).2 = .ok ∧
    ((reach true n script ops false).step (.close timed true)).1.closed = true ∧
    ∀ w ∈ ((reach true n script ops false).step (.close timed true)).1.ws, w.st = .exited := by
  have hi := runOps_inv0 ops _ (init_inv0 true false n script)
  exact closeOp_prompt _ timed true (runOps_flags ops _ (init_inv0 true false n script)).1 hi (Or.inl rfl)

/-- the current tree: worker 0 is stuck in `step`, `step_wait(timeout)` reports the timeout, and
    `close(timeout=…)` then never returns (worker 0 alive); the repaired code returns -/
theorem C13_close_timeout_witness :
    ((reach true 2 [(0, ⟨.step, 0, .stuck⟩)] [.stepAsync, .stepWait true] false).step (.close true false)).2 = .hang ∧
    ((reach true 2 [(0, ⟨.step, 0, .stuck⟩)] [.stepAsync, .stepWait true] true).step (.close true false)).2 = .ok := by
  decide

/-- PARTIAL — the code before the fix.  What holds: from `_state = DEFAULT`, `close(terminate=True)`
    returns normally and leaves no worker alive, whatever state the workers and pipes are in (so a
    caller who knows a worker died has an escape).  What is missing (and false, see the witnesses):
    the same for plain `close()` / `close(timeout=…)` and for a pending state. -/
theorem C13_close_after_kill_partial (s : State) (hf : s.fixed = false) (hc : s.closed = false)
    (hd : s.astate = .default) (timed : Bool) :
    (s.step (.close timed true)).2 = .ok ∧ (s.step (.close timed true)).1.closed = true ∧
    ∀ w ∈ (s.step (.close timed true)).1.ws, w.st = .exited := by
  have _ := hf
  show (closeOp s timed true).2 = .ok ∧ (closeOp s timed true).1.closed = true ∧
    ∀ w ∈ (closeOp s timed true).1.ws, w.st = .exited
  unfold closeOp closeTail
  simp only [hc, hd, Bool.false_eq_true, if_false, if_true]
  exact ⟨trivial, trivial, terminateAll_exited s.ws⟩

/-- the code before the fix violates the property: worker 0 is killed during `set_attr`; the
    following plain `close()` raises `BrokenPipeError`, the environment is not closed and worker 1
    is still alive -/
theorem C13_close_after_kill_witness :
    ¬ (∀ (n : Nat) (script : List (Nat × FaultAt)) (ops : List Op),
        ((reach false n script ops).step (.close false false)).2 = .ok ∧
        ∀ w ∈ ((reach false n script ops).step (.close false false)).1.ws, w.st = .exited) := by
  intro h
  have := (h 2 [(0, ⟨.setattr, 0, .kill⟩)] [.setAttr]).1
  revert this
  decide

/-- … and it can block forever: worker 1 is killed during `step`; `step_wait` raises `EOFError` and
    leaves `_state = WAITING_STEP`; `close()` then waits for replies that were already consumed -/
theorem C13_close_hang_witness :
    ((reach false 2 [(1, ⟨.step, 0, .kill⟩)] [.stepAsync, .stepWait false]).step (.close false false)).2 = .hang ∧
    (reach false 2 [(1, ⟨.step, 0, .kill⟩)] [.stepAsync, .stepWait false]).astate = .wstep := by
  decide

/-! ### non-vacuity -/

/-- misuse in every state class, with the documented classes -/
example : misuse (init true 2 []) (.stepWait false) = some .noAsyncCall := by decide
example : misuse (reach true 2 [] [.resetAsync]) .stepAsync = some .alreadyPending := by decide
example : misuse (reach true 2 [] [.resetAsync]) (.callWait true) = some .noAsyncCall := by decide
example : misuse (reach true 2 [] [.close false false]) .setAttr = some .closedEnv := by decide
example : misuse (reach true 2 [] [.resetAsync]) (.resetWait false) = none := by decide

/-- a fresh environment is idle with no fault due, so `C13_legal_pair_ok` applies … -/
example : ∀ w ∈ (init true 3 [(1, ⟨.step, 1, .raise 7⟩)]).ws, Idle w ∧ due w (cmdOf .wstep) = none := by decide
/-- … and after one step pair worker 1's `raise 7` is due, so `C13_exception_propagates` applies -/
example : (∀ w ∈ (reach true 3 [(1, ⟨.step, 1, .raise 7⟩)] [.stepAsync, .stepWait false]).ws,
      IdleOrRaise (cmdOf .wstep) 7 w) ∧
    ∃ w ∈ (reach true 3 [(1, ⟨.step, 1, .raise 7⟩)] [.stepAsync, .stepWait false]).ws,
      due w (cmdOf .wstep) = some (.raise 7) := by decide
example : ((init true 3 [(1, ⟨.step, 1, .raise 7⟩)]).runOps
    [.stepAsync, .stepWait false, .stepAsync, .stepWait true, .stepAsync, .close false false]).2 =
    [.ok, .ok, .ok, .err (.worker 7), .err .attributeError, .ok] := by decide
/-- a sleeping worker: timed wait → timeout, state DEFAULT; the sleeper is `hung` with nothing to read -/
example : ((init true 2 [(0, ⟨.reset, 0, .sleep⟩)]).runOps [.resetAsync, .resetWait true]).2 =
    [.ok, .err .timeout] := by decide
example : ∃ w ∈ (reach true 2 [(0, ⟨.reset, 0, .sleep⟩)] [.resetAsync]).ws, w.st = .hung ∧ w.inbox = [] := by
  decide
/-- the repaired code on the two witness scenarios: `close()` returns and nobody is left -/
example : ((reach true 2 [(0, ⟨.setattr, 0, .kill⟩)] [.setAttr]).step (.close false false)).2 = .ok := by decide
example : ((reach true 2 [(1, ⟨.step, 0, .kill⟩)] [.stepAsync, .stepWait false]).step (.close false false)).2 = .ok ∧
    (reach true 2 [(1, ⟨.step, 0, .kill⟩)] [.stepAsync, .stepWait false]).astate = .default := by decide

/-- the synchronous wrappers are rejected like the async calls, and the pending reset then
    completes and the following `step()` is a fresh step -/
example : misuse (reach true 2 [] [.stepAsync]) .callSync = some .alreadyPending := by decide
example : ((init true 2 []).runOps [.resetAsync, .callSync, .stepSync, .resetSync, .setAttr, .resetWait false,
    .stepSync, .callSync]).2 =
    [.ok, .err .alreadyPending, .err .alreadyPending, .err .alreadyPending, .err .alreadyPending, .ok, .ok, .ok] := by
  decide
/-- a stuck worker: a wait with a timeout reports it, `close(timeout)` and `close(terminate)` return -/
example : ((init true 3 [(1, ⟨.call, 0, .stuck⟩)]).runOps [.callAsync, .callWait true, .close true false]).2 =
    [.ok, .err .timeout, .ok] := by decide
example : ((init true 3 [(1, ⟨.reset, 0, .stuck⟩)]).runOps [.resetAsync, .close false true]).2 = [.ok, .ok] := by decide
/-- … while an untimed wait on it never returns (documented: "never times out") -/
example : ((init true 2 [(0, ⟨.step, 0, .stuck⟩)]).runOps [.stepAsync, .stepWait false]).2 = [.ok, .hang] := by decide
example : NoStuckScript [(0, ⟨.step, 0, .sleep⟩), (1, ⟨.reset, 2, .raise 3⟩), (1, ⟨.call, 0, .kill⟩)] := by
  unfold NoStuckScript; decide

/-! ### the same theorems over the definitions generated from the source text

`Gen/VecProtoGen.lean` is written by `harness/py2lean_vecproto.py` from `agilerl/vector/pz_async_vec_env.py` /
`pz_vec_env.py` on every run: one transition function per method of `AsyncPettingZooVecEnv` over the parent object
(`_state`, `closed`) and an explicit oracle for everything outside it (pipes, processes, error queue, clock).
`Proofs/VecProtoGenEq.lean` proves them equal (`Agree`) to the model's transitions for `fixed = true`, `fix2 = true`
— the variant /repo HEAD implements.  `genCall S tmo op` is the generated method the model's `Op` stands for;
`tmo true` is the timeout a timed call is made with — ANY value (0 included), `tmo false = None`. -/
section source_translation
open VecProtoGen (ErrClass Res Parent Sys AsyncState)

/-- the guards read off the source, for EVERY oracle (whatever pipes, workers and queue do) and every parent state:
    a forbidden call — the synchronous wrappers included — raises exactly the documented error class and changes
    neither the parent object nor anything outside it -/
theorem C13_source_translation_misuse_errors {W R Q : Type} (S : Sys W R Q) (tmo : Bool → Option Rat) (s : State) (w : W)
    (op : Op) (e : Exc) (h : misuse s op = some e) :
    genCall S tmo op (parOf s) w = (parOf s, w, .raise (excOf e)) := by
  have hne : ∀ a : AState, s.astate ≠ a → (stOf s.astate != stOf a) = true := by
    intro a ha; rw [stOf_bne]; simpa using ha
  cases op
  case close => simp [misuse] at h
  all_goals
    simp only [misuse] at h
    split at h
    · rename_i hc
      cases h
      simp [genCall, VecProtoGen.reset_async, VecProtoGen.step_async, VecProtoGen.call_async, VecProtoGen.reset_wait,
        VecProtoGen.step_wait, VecProtoGen.call_wait, VecProtoGen.set_attr, VecProtoGen.reset, VecProtoGen.step,
        VecProtoGen.call, VecProtoGen.pyRunUnit, VecProtoGen.pyCall, assert_running_eq, parOf, hc, excOf]
    · rename_i hc
      split at h
      · rename_i hd
        cases h
        have hc' : s.closed = false := by simpa using hc
        first
          | (have hb := hne .default hd
             simp [genCall, VecProtoGen.reset_async, VecProtoGen.step_async, VecProtoGen.call_async, VecProtoGen.set_attr,
               VecProtoGen.reset, VecProtoGen.step, VecProtoGen.call, VecProtoGen.pyRunUnit, VecProtoGen.pyCall,
               VecProtoGen.pySeq, VecProtoGen.pyIf, VecProtoGen.pyRaise, assert_running_eq, parOf, hc', excOf, stOf] at hb ⊢
             simp [hb])
          | (have hb := hne .wreset hd
             simp [genCall, VecProtoGen.reset_wait, VecProtoGen.pyRunUnit, VecProtoGen.pyCall, VecProtoGen.pySeq,
               VecProtoGen.pyIf, VecProtoGen.pyRaise, assert_running_eq, parOf, hc', excOf, stOf] at hb ⊢
             simp [hb])
          | (have hb := hne .wstep hd
             simp [genCall, VecProtoGen.step_wait, VecProtoGen.pyRunUnit, VecProtoGen.pyCall, VecProtoGen.pySeq,
               VecProtoGen.pyIf, VecProtoGen.pyRaise, assert_running_eq, parOf, hc', excOf, stOf] at hb ⊢
             simp [hb])
          | (have hb := hne .wcall hd
             simp [genCall, VecProtoGen.call_wait, VecProtoGen.pyRunUnit, VecProtoGen.pyCall, VecProtoGen.pySeq,
               VecProtoGen.pyIf, VecProtoGen.pyRaise, assert_running_eq, parOf, hc', excOf, stOf] at hb ⊢
             simp [hb])
      · cases h

/-- `get_attr(name)` and `render()` are `call(…)` in the source, for every oracle: what is proved of `call` holds of them -/
theorem C13_source_translation_get_attr_render_are_call {W R Q : Type} (S : Sys W R Q) (p : Parent) (w : W) :
    VecProtoGen.get_attr S p w = VecProtoGen.call S p w ∧ VecProtoGen.render S p w = VecProtoGen.call S p w :=
  ⟨gen_get_attr_is_call S p w, gen_render_is_call S p w⟩

/-- EVERY generated entry point, run on a configuration reachable from a fresh environment with the scripted
    workers as the oracle, does what the model's transition does (`Agree`: same outcome and — unless the call
    never returns — the same `_state`, `closed`, workers, pipes and error queue).  So every theorem above about
    `State.step` of the repaired variant is a theorem about the code as it is written now. -/
theorem C13_source_translation_step_eq (ie : Nat → Bool) (n : Nat) (script : List (Nat × FaultAt)) (ops : List Op)
    (tmo : Bool → Option Rat) (htmo : ∀ b, (tmo b).isSome = b) (op : Op) :
    Agree (genStep ie (reach true n script ops true).ws.length tmo op (parOf (reach true n script ops true))
      (worldOf (reach true n script ops true))) ((reach true n script ops true).step op) := by
  have hfl := runOps_flags ops _ (init_inv0 true true n script)
  exact gen_step_eq _ ie hfl.1 hfl.2 (reach_wellIdx true n script ops true) tmo htmo op

/-- … and after a rejected call the generated code is in the very same configuration: the pending call can be
    completed as if the misuse had not happened (the generated counterpart of `C13_misuse_transparent`) -/
theorem C13_source_translation_misuse_transparent (ie : Nat → Bool) (tmo : Bool → Option Rat) (s : State) (op : Op) (e : Exc)
    (h : misuse s op = some e) (op' : Op) :
    genStep ie s.ws.length tmo op' (genStep ie s.ws.length tmo op (parOf s) (worldOf s)).1
      (genStep ie s.ws.length tmo op (parOf s) (worldOf s)).2.1 = genStep ie s.ws.length tmo op' (parOf s) (worldOf s) := by
  rw [show genStep ie s.ws.length tmo op (parOf s) (worldOf s) = (parOf s, worldOf s, .raise (excOf e)) from
    C13_source_translation_misuse_errors _ tmo s _ op e h]

/-- a wait of the generated code with ANY timeout value (`some τ`) never blocks, whatever faults the script injects
    and whatever was called before -/
theorem C13_source_translation_timed_wait_never_blocks (ie : Nat → Bool) (n : Nat) (script : List (Nat × FaultAt))
    (ops : List Op) (τ : Rat) :
    let s := reach true n script ops true
    (VecProtoGen.reset_wait (sysM s.ws.length ie) (some τ) (parOf s) (worldOf s)).2.2 ≠ .hang ∧
    (VecProtoGen.step_wait (sysM s.ws.length ie) (some τ) (parOf s) (worldOf s)).2.2 ≠ .hang ∧
    (VecProtoGen.call_wait (sysM s.ws.length ie) (some τ) (parOf s) (worldOf s)).2.2 ≠ .hang := by
  intro s
  have hfl := runOps_flags ops _ (init_inv0 true true n script)
  have hw := reach_wellIdx true n script ops true
  have key : ∀ (g : Parent × World × Res Unit) (a : AState), Agree g (waitOp s a true) → g.2.2 ≠ .hang := by
    intro g a hag hh
    have := C13_timed_wait_never_blocks true true n script ops a
    rw [hag.1] at hh
    cases hm : (waitOp (reach true n script ops true) a true).2 with
    | hang => exact this hm
    | ok => rw [show (waitOp s a true).2 = _ from hm] at hh; cases hh
    | err x => rw [show (waitOp s a true).2 = _ from hm] at hh; cases hh
  exact ⟨key _ .wreset (gen_reset_wait_eq s ie hfl.1 hw (some τ)), key _ .wstep (gen_step_wait_eq s ie hfl.1 hw (some τ)),
    key _ .wcall (gen_call_wait_eq s ie hfl.1 hw (some τ))⟩

/-- … and on a pipe with nothing to read (a sleeping or stuck sub-environment) the generated `step_wait(timeout=τ)`
    raises `multiprocessing.TimeoutError`, leaves `_state = DEFAULT` and touches nothing else — for every τ, 0 included
    (likewise `reset_wait`, `call_wait`: `gen_reset_wait_eq`, `gen_call_wait_eq`) -/
theorem C13_source_translation_timeout_is_timeout (ie : Nat → Bool) (n : Nat) (script : List (Nat × FaultAt))
    (ops : List Op) (τ : Rat) (hc : (reach true n script ops true).closed = false)
    (ha : (reach true n script ops true).astate = .wstep)
    (w : Worker) (hw : w ∈ (reach true n script ops true).ws) (hs : w.st = .hung) (hi : w.inbox = []) :
    let s := reach true n script ops true
    VecProtoGen.step_wait (sysM s.ws.length ie) (some τ) (parOf s) (worldOf s) =
      (⟨AsyncState.DEFAULT, false⟩, worldOf s, .raise ErrClass.mp_TimeoutError) := by
  intro s
  have hfl := runOps_flags ops _ (init_inv0 true true n script)
  have hag := gen_step_wait_eq s ie hfl.1 (reach_wellIdx true n script ops true) (some τ)
  have hm := (C13_timeout_is_timeout s .wstep hc ha).1 w hw hs hi
  simp only [Option.isSome_some] at hag
  rw [hm] at hag
  obtain ⟨h1, h2⟩ := hag
  obtain ⟨h3, h4⟩ := h2 (by simp)
  rcases hg : VecProtoGen.step_wait (sysM s.ws.length ie) (some τ) (parOf s) (worldOf s) with ⟨p1, w1, r1⟩
  rw [hg] at h1 h3 h4
  simp only at h1 h3 h4
  subst h1 h3 h4
  have hc' : s.closed = false := hc
  simp [parOf, worldOf, resOf, excOf, stOf, hc']

/-- repaired code as generated: once `X_async` was accepted, the generated `X_wait` — whether it returns, times out,
    re-raises a worker's exception or meets a dead pipe — leaves `_state = DEFAULT` (unless it never returns, which
    only an untimed wait on a stuck sub-environment does) -/
theorem C13_source_translation_legal_returns_default (ie : Nat → Bool) (n : Nat) (script : List (Nat × FaultAt))
    (ops : List Op) (t : Option Rat) (hc : (reach true n script ops true).closed = false)
    (ha : (reach true n script ops true).astate = .wstep) :
    let s := reach true n script ops true
    (VecProtoGen.step_wait (sysM s.ws.length ie) t (parOf s) (worldOf s)).2.2 ≠ .hang →
      (VecProtoGen.step_wait (sysM s.ws.length ie) t (parOf s) (worldOf s)).1._state = AsyncState.DEFAULT := by
  intro s hnh
  have hfl := runOps_flags ops _ (init_inv0 true true n script)
  have hag := gen_step_wait_eq s ie hfl.1 (reach_wellIdx true n script ops true) t
  have hd := C13_legal_returns_default s hfl.1 .wstep t.isSome hc ha
  have hm : (waitOp s .wstep t.isSome).2 ≠ .hang := by
    intro h
    apply hnh
    rw [hag.1, h]
    rfl
  rw [(hag.2 hm).1]
  simp [parOf, hd, stOf]

/-- after ANY call sequence on ANY number of workers under ANY script of raise / sleep / kill faults, the generated
    `close(timeout, terminate)` — plain, with any timeout, or with terminate — returns normally, sets `closed`, and
    no worker process is alive -/
theorem C13_source_translation_close_kills_all (ie : Nat → Bool) (n : Nat) (script : List (Nat × FaultAt))
    (hs : NoStuckScript script) (ops : List Op) (timeout : Option Rat) (terminate : Bool) :
    let s := reach true n script ops true
    let g := VecProtoGen.close (sysM s.ws.length ie) timeout terminate (parOf s) (worldOf s)
    g.2.2 = .ok () ∧ g.1.closed = true ∧ ∀ w ∈ g.2.1.1, w.st = .exited := by
  intro s g
  have hfl := runOps_flags ops _ (init_inv0 true true n script)
  have hag := gen_close_eq s ie hfl.1 hfl.2 (reach_wellIdx true n script ops true) timeout terminate
  obtain ⟨m1, m2, m3⟩ := C13_close_kills_all n script hs true ops timeout.isSome terminate
  have hm1 : (closeOp s timeout.isSome terminate).2 = .ok := m1
  obtain ⟨h1, h2⟩ := hag
  obtain ⟨h3, h4⟩ := h2 (by rw [hm1]; simp)
  refine ⟨by rw [h1, hm1]; rfl, ?_, ?_⟩
  · rw [h3]; exact m2
  · rw [h4]; exact m3

/-- EVERY fault script — sub-environments stuck for good included — and every history, with a call of any kind
    pending or not: the generated `close(timeout=τ)` for any τ (0 included) and `close(terminate=True)` return normally,
    set `closed` and leave no worker alive; so does garbage collection of an unclosed environment (`__del__`) -/
theorem C13_source_translation_timed_close_prompt (ie : Nat → Bool) (n : Nat) (script : List (Nat × FaultAt))
    (ops : List Op) (timeout : Option Rat) (terminate : Bool) (h : timeout.isSome = true ∨ terminate = true) :
    let s := reach true n script ops true
    let g := VecProtoGen.close (sysM s.ws.length ie) timeout terminate (parOf s) (worldOf s)
    let d := VecProtoGen.dunder_del (sysM s.ws.length ie) (parOf s) (worldOf s)
    (g.2.2 = .ok () ∧ g.1.closed = true ∧ ∀ w ∈ g.2.1.1, w.st = .exited) ∧
    (d.2.2 = .ok () ∧ d.1.closed = true ∧ ∀ w ∈ d.2.1.1, w.st = .exited) := by
  intro s g d
  have hfl := runOps_flags ops _ (init_inv0 true true n script)
  have hw := reach_wellIdx true n script ops true
  constructor
  · have hag := gen_close_eq s ie hfl.1 hfl.2 hw timeout terminate
    obtain ⟨m1, m2, m3⟩ := C13_timed_close_prompt n script ops timeout.isSome terminate h
    have hm1 : (closeOp s timeout.isSome terminate).2 = .ok := m1
    obtain ⟨h1, h2⟩ := hag
    obtain ⟨h3, h4⟩ := h2 (by rw [hm1]; simp)
    refine ⟨by rw [h1, hm1]; rfl, ?_, ?_⟩
    · rw [h3]; exact m2
    · rw [h4]; exact m3
  · have hag := gen_del_eq s ie hfl.1 hfl.2 hw
    obtain ⟨m1, m2, m3⟩ := C13_timed_close_prompt n script ops false true (Or.inr rfl)
    have hm1 : (closeOp s false true).2 = .ok := m1
    obtain ⟨h1, h2⟩ := hag
    obtain ⟨h3, h4⟩ := h2 (by rw [hm1]; simp)
    refine ⟨by rw [h1, hm1]; rfl, ?_, ?_⟩
    · rw [h3]; exact m2
    · rw [h4]; exact m3

/-- no generated entry point ever blocks forever under raise / sleep / kill faults -/
theorem C13_source_translation_never_hangs (ie : Nat → Bool) (n : Nat) (script : List (Nat × FaultAt))
    (hs : NoStuckScript script) (ops : List Op) (tmo : Bool → Option Rat) (htmo : ∀ b, (tmo b).isSome = b) (op : Op) :
    let s := reach true n script ops true
    (genStep ie s.ws.length tmo op (parOf s) (worldOf s)).2.2 ≠ .hang := by
  intro s hh
  have hag := C13_source_translation_step_eq ie n script ops tmo htmo op
  have hnh := C13_never_hangs n script hs true (ops ++ [op])
  have hi := runOps_inv ops _ (init_inv n script hs true)
  have hstep := (step_inv s op hi.1).2
  rw [hag.1] at hh
  cases hm : (s.step op).2 with
  | hang => exact hstep hm
  | ok => rw [hm] at hh; cases hh
  | err x => rw [hm] at hh; cases hh

/-! non-vacuity of the source-translation theorems: the invariant and the flags hold of reachable configurations,
    and the generated code can be run on them -/
example : WellIdx (reach true 3 [(1, ⟨.step, 1, .raise 7⟩)] [.stepAsync, .stepWait false]).ws := reach_wellIdx _ _ _ _ _
example : (VecProtoGen.step_wait (sysM 2 (fun _ => true)) none (parOf (init true 2 [])) (worldOf (init true 2 []))).2.2 =
    .raise ErrClass.NoAsyncCallError := by decide
example : (VecProtoGen.call (sysM 2 (fun _ => true)) (parOf (reach true 2 [] [.resetAsync]))
    (worldOf (reach true 2 [] [.resetAsync]))).2.2 = .raise ErrClass.AlreadyPendingCallError := by decide
example : VecProtoGen.Parent.init = parOf (init true 2 []) := rfl

end source_translation

end VecProto

/-!
## The worker's error path (`_async_worker`: except / finally, `_survives_pickling`)

Model: `Model/VecProto.lean`, section WorkerErr — the worker's error path as an ordered list of effects
(`Worker.errorPath`), the multiprocessing queue with an explicit feeder buffer (`PSt`: `put` buffers, `join_thread`
after `close` flushes, the feeder may flush by itself at any point `spont`, a process death discards the buffer), a
kill point `k` (`Worker.killedAt spont k effs` = the process dies after `k` effects).  The parent's
`_raise_if_errors` does one `error_queue.get()` per announced failure (`PSt.parentFinds`; `raiseIfErrors` of the
protocol model answers `hang` exactly when the queue is shorter than the number of announced failures, A5).
Generated: `Gen/WorkerErrGen.lean` from the source text; `Proofs/WorkerErrGenEq.lean` proves generated = model.
-/
namespace VecProto
open WorkerErrGen

/-- "announced ⇒ flushed" is an invariant of the repaired effect order: for EVERY kill point of the worker process
    (before, at or after the announcement, inside the sub-environment's own `close()` included) and every feeder
    schedule, the parent finds a report for every failure the worker announced -/
theorem C13_worker_announced_implies_flushed (clsOk msgOk : Bool) (spont : Nat → Bool) (k : Nat) :
    (Worker.killedAt spont k (Worker.errorPath clsOk msgOk)).parentFinds = true :=
  errorPath_killed_parentFinds clsOk msgOk spont k

/-- at or after the announcement (kill point ≥ 4: put, close, join_thread, send have run) exactly one failure is
    announced and exactly one report has reached the parent's side of the queue, whatever the feeder did -/
theorem C13_worker_killed_after_announcement (clsOk msgOk : Bool) (spont : Nat → Bool) (k : Nat) (hk : 4 ≤ k) :
    (Worker.killedAt spont k (Worker.errorPath clsOk msgOk)).announced = 1 ∧
    (Worker.killedAt spont k (Worker.errorPath clsOk msgOk)).flushed = 1 := by
  obtain ⟨j, rfl⟩ : ∃ j, k = j + 4 := ⟨k - 4, by omega⟩
  have nil : ∀ i k s, PSt.runK spont i k s [] = s := by intro i k s; cases k <;> rfl
  cases h0 : spont 0 <;> cases h1 : spont 1 <;> cases h2 : spont 2 <;> cases h3 : spont 3 <;> cases h4 : spont 4 <;>
    cases j <;>
    simp [Worker.killedAt, PSt.die, Worker.errorPath, PSt.runK, PSt.exec, PSt.flush, nil, h0, h1, h2, h3, h4]

/-- general form: ANY effect order that passes the static check `safeFrom` (run with the feeder that never flushes
    by itself) keeps the invariant at every kill point under every feeder schedule -/
theorem C13_worker_safe_order_invariant (effs : List WEff) (h : safeFrom {} effs = true) (spont : Nat → Bool)
    (k : Nat) : (Worker.killedAt spont k effs).parentFinds = true :=
  killedAt_parentFinds spont k effs h

/-- witness (decided): the order as found — `put; send((None, False)); env.close()`, no flush — violates the
    invariant for a kill right after the announcement: one failure announced, nothing to `get()`
    (known finding C13-error-report-lost-when-killed-in-cleanup, repaired in /repo) -/
theorem C13_worker_as_found_order_witness :
    (Worker.killedAt (fun _ => false) 2 (Worker.errorPathAsFound true true)).parentFinds = false ∧
    (Worker.killedAt (fun _ => false) 2 (Worker.errorPathAsFound true true)).announced = 1 :=
  errorPathAsFound_witness

/-- the as-found order does not pass the static check -/
theorem C13_worker_as_found_order_breaks_invariant (clsOk msgOk : Bool) :
    safeFrom {} (Worker.errorPathAsFound clsOk msgOk) = false := by
  cases clsOk <;> cases msgOk <;> decide

/-- whatever class the sub-environment raises, the report put on the queue survives pickling by construction: a
    class that does not is downgraded to RuntimeError (class name kept in the message), a message that does not is
    replaced by its `str` — so the feeder never drops the item and the parent's `get()` is not left waiting for it -/
theorem C13_worker_report_picklable (clsOk msgOk : Bool) :
    (Worker.report clsOk msgOk).picklable clsOk msgOk = true := report_picklable clsOk msgOk

/-- the downgrade is only applied when needed: a picklable exception is reported as itself (own class, own object) -/
theorem C13_worker_report_faithful : Worker.report true true = ⟨.own, .own⟩ := rfl

/-- the parent's `_raise_if_errors` of the protocol model does not hang on a queue that holds the flushed reports of
    the announced failures -/
theorem C13_worker_parent_get_returns (s : State) (rs : List Reply) (p : PSt) (hp : p.parentFinds = true)
    (hq : s.errq.length = p.flushed) (hr : countFail rs = p.announced) : (raiseIfErrors s rs).2 ≠ .hang := by
  simp only [PSt.parentFinds, decide_eq_true_eq] at hp
  unfold raiseIfErrors
  simp only
  split
  · simp
  · rename_i hn
    have hlt : ¬ s.errq.length < countFail rs := by omega
    rw [if_neg hlt]
    have hne : s.errq.take (countFail rs) ≠ [] := by
      intro h
      rcases List.take_eq_nil_iff.mp h with h0 | h0
      · exact hn h0
      · rw [h0] at hq; simp at hq; omega
    cases hl : (s.errq.take (countFail rs)).getLast? with
    | none => exact absurd (List.getLast?_eq_none_iff.mp hl) hne
    | some x => simp

section source_translation_worker

/-- generated = model, restated: the effect order `_async_worker` performs when the sub-environment raises (handler,
    then `finally`), read off the source text, is `Worker.errorPath` for every pickling oracle: the downgrade decision
    on the CLASS first, then on the message; `put`, `close`, `join_thread`, `send((None, False))`, `env.close()` -/
theorem C13_source_translation_worker_effects (pickles : Val → Bool) :
    (async_worker_on_raise pickles true).map absEff =
      (Worker.errorPath (pickles .excType) (pickles .excValue)).map some :=
  gen_async_worker_on_raise_eq pickles

/-- the generated `except` clause catches `KeyboardInterrupt` and `Exception`; any other exit only closes the
    sub-environment (no announcement, so the parent never waits for a report) -/
theorem C13_source_translation_worker_catches (pickles : Val → Bool) :
    async_worker_catches = ["KeyboardInterrupt", "Exception"] ∧
    (async_worker_on_raise pickles false).map absEff = [some .envClose] :=
  ⟨gen_async_worker_catches_eq, gen_async_worker_uncaught_eq pickles⟩

/-- the generated effect order passes the static check: the report is flushed before the failure is announced -/
theorem C13_source_translation_worker_order_safe (pickles : Val → Bool) : safeFrom {} (genPath pickles) = true := by
  rw [genPath_eq]; exact errorPath_safe _ _

/-- MAIN: over the generated effect order — for every pickling oracle, every kill point of the worker process and
    every feeder schedule, `_raise_if_errors` finds a report for every announced failure -/
theorem C13_source_translation_worker_announced_implies_flushed (pickles : Val → Bool) (spont : Nat → Bool)
    (k : Nat) : (Worker.killedAt spont k (genPath pickles)).parentFinds = true := by
  rw [genPath_eq]; exact errorPath_killed_parentFinds _ _ spont k

/-- over the generated effect order: killed at or after the announcement, one failure is announced and one report
    is on the parent's side -/
theorem C13_source_translation_worker_killed_after_announcement (pickles : Val → Bool) (spont : Nat → Bool)
    (k : Nat) (hk : 4 ≤ k) :
    (Worker.killedAt spont k (genPath pickles)).announced = 1 ∧
    (Worker.killedAt spont k (genPath pickles)).flushed = 1 := by
  rw [genPath_eq]; exact C13_worker_killed_after_announcement _ _ spont k hk

/-- over the generated handler: every item put on the error queue survives pickling (given `_survives_pickling`'s
    contract, `gen_survives_pickling_eq`), whatever the sub-environment raised -/
theorem C13_source_translation_worker_put_picklable (pickles : Val → Bool) (item : Val)
    (h : Eff.queuePut item ∈ async_worker_on_raise pickles true) : Val.safe pickles item = true :=
  gen_put_picklable pickles item h

/-- the generated `_survives_pickling` returns `True` exactly when the round trip returns -/
theorem C13_source_translation_worker_survives_pickling (pickles : Val → Bool) (v : Val) :
    survives_pickling pickles v = pickles v := gen_survives_pickling_eq pickles v

/-- the report the generated handler builds is picklable in the model's sense and is the original exception when
    that is picklable -/
theorem C13_source_translation_worker_report (pickles : Val → Bool) :
    ∃ r, WEff.put r ∈ genPath pickles ∧ r.picklable (pickles .excType) (pickles .excValue) = true ∧
      (pickles .excType = true → pickles .excValue = true → r = ⟨.own, .own⟩) := by
  refine ⟨Worker.report (pickles .excType) (pickles .excValue), ?_, report_picklable _ _, ?_⟩
  · rw [genPath_eq]; simp [Worker.errorPath]
  · intro h1 h2; rw [h1, h2]; rfl

/-! non-vacuity: the generated path can be run; an unpicklable class is downgraded -/
example : (genPath (fun _ => true)) = [.put ⟨.own, .own⟩, .qclose, .qjoin, .announce, .envClose] := by decide
example : (genPath (fun _ => false)).head? = some (.put ⟨.runtimeError, .nameColonOwn⟩) := by decide
example : (Worker.killedAt (fun _ => false) 4 (genPath (fun _ => true))) =
    { buffered := 0, flushed := 1, announced := 1, qclosed := true, envClosed := false } := by decide

end source_translation_worker

end VecProto
