import Proofs.ActionPick
import Proofs.ActionBounds
import Proofs.ActionGenEq
import Proofs.MaPlumbGenEq

/-!
# C14 — every selected action is a legal member of the action space

Model: `Model/Action.lean`.  Network outputs (`q`, means, logits), the uniform draws of ε-greedy
exploration (`r` per action, `u` per row), exploration noise and env-defined actions are explicit,
universally quantified inputs; masks are `List Bool` (`true` = legal).  Every theorem holds for all
action counts / dimensions, all values (ties, arbitrarily large magnitudes) and all masks.

Index conventions: `l[i]? = some x` says "`i` is in range and the entry is `x`".
-/
namespace Action

/-! ### shape -/

theorem allSomeR_length : ∀ (l : List (Option Rat)) (ls : List Rat), allSomeR l = some ls → ls.length = l.length := by
  intro l
  induction l with
  | nil => intro ls h; simp [allSomeR] at h; subst h; rfl
  | cons o l ih =>
    intro ls h
    cases o with
    | none => simp [allSomeR] at h
    | some v =>
      simp only [allSomeR, Option.map_eq_some_iff] at h
      obtain ⟨r, hr, rfl⟩ := h
      simp [ih r hr]

/-- batch in ⇒ batch out: one action per observation row, and continuous actions keep the
    dimension of the space through noise, clipping, rescaling, clamping and env-defined override -/
theorem C14_shape :
    (∀ (eps : Rat) (rows : List DqnIn), (dqnBatch eps rows).length = rows.length) ∧
    (∀ (n : Nat) (tr : Bool) (los his a noise : List Rat), los.length = n → his.length = n →
        a.length = n → noise.length = n → (ddpgRow tr los his a noise).length = n) ∧
    (∀ (n : Nat) (act : OutAct) (lows highs : List (Option Rat)) (as : List Rat), lows.length = n →
        highs.length = n → as.length = n → (rescaleVec act lows highs as).length = n) ∧
    (∀ (n : Nat) (tr : Bool) (los his a noise : List Rat) (env : List (Option Rat)), los.length = n →
        his.length = n → a.length = n → noise.length = n → env.length = n →
        (maContRow true tr los his a noise env).length = n) ∧
    (∀ (n : Nat) (sq : Bool) (los his xs : List Rat), los.length = n → his.length = n →
        xs.length = n → (pgEvalBox sq los his xs).length = n) := by
  refine ⟨?_, ?_, ?_, ?_, ?_⟩
  · intro eps rows; simp [dqnBatch]
  · intro n tr los his a noise h1 h2 h3 h4
    unfold ddpgRow clipVec
    apply zipWith3_length _ _ _ _ n h1 h2
    cases tr <;> simp [addVec, List.length_zipWith, h3, h4]
  · intro n act lows highs as h1 h2 h3
    unfold rescaleVec
    cases hl : allSomeR lows with
    | none => simpa using h3
    | some ls =>
      cases hh : allSomeR highs with
      | none => simpa using h3
      | some hs =>
        simp only
        exact zipWith3_length _ _ _ _ n (by rw [allSomeR_length _ _ hl, h1])
          (by rw [allSomeR_length _ _ hh, h2]) h3
  · intro n tr los his a noise env h1 h2 h3 h4 h5
    have hs : (addVec a noise).length = n := by simp [addVec, List.length_zipWith, h3, h4]
    cases tr
    · simp only [maContRow, override, if_true, List.length_zipWith, clipVec, Bool.false_eq_true, if_false]
      rw [zipWith3_length _ _ _ _ n h1 h2 h3, h5]; simp
    · simp only [maContRow, override, if_true, List.length_zipWith, clipVec]
      rw [zipWith3_length _ _ _ _ n h1 h2 hs, h5]; simp
  · intro n sq los his xs h1 h2 h3
    cases sq
    · simpa [pgEvalBox, clipVec] using zipWith3_length clip _ _ _ n h1 h2 h3
    · simpa [pgEvalBox] using zipWith3_length scaleAction _ _ _ n h1 h2 h3

/-! ### greedy choice -/

/-- DQN with exploration off for this row (`ε < u`; for ε = 0 that is every draw except exactly 0,
    see `C14_eps0_zero_draw_witness`): the returned index is in range, allowed, its q-value is ≥ the
    q-value of every allowed action, and > that of every allowed action with a smaller index
    (ties go to the first index, as `torch.argmax`). -/
theorem C14_greedy_is_best_allowed (q r : List Rat) (m : List Bool) (eps u : Rat)
    (hlen : q.length = m.length) (a : Nat) (ha : m[a]? = some true) (hu : eps < u) :
    ∃ v, q[dqnRow q r m eps u]? = some v ∧ m[dqnRow q r m eps u]? = some true ∧
      (∀ (j : Nat) (x : Rat), m[j]? = some true → q[j]? = some x → x ≤ v) ∧
      (∀ (j : Nat) (x : Rat), j < dqnRow q r m eps u → m[j]? = some true → q[j]? = some x → x < v) := by
  have : dqnRow q r m eps u = maPick q m := by simp [dqnRow, hu]
  rw [this]
  exact maPick_spec q m hlen a ha

/-- the same for every learner that goes through `numpy.ma` (RainbowDQN, CQN when it does not
    explore, NeuralUCB, NeuralTS, MADDPG / MATD3 discrete), and without a mask -/
theorem C14_greedy_is_best_allowed_masked_array (q r : List Rat) (m : List Bool) (eps u : Rat)
    (hlen : q.length = m.length) (a : Nat) (ha : m[a]? = some true) :
    (∃ v, q[maPick q m]? = some v ∧ m[maPick q m]? = some true ∧
      (∀ (j : Nat) (x : Rat), m[j]? = some true → q[j]? = some x → x ≤ v)) ∧
    (¬ u < eps → cqnRow q r m eps u = maPick q m) ∧
    (q ≠ [] → ∃ v, q[plainPick q]? = some v ∧ ∀ (j : Nat) (x : Rat), q[j]? = some x → x ≤ v) := by
  refine ⟨?_, ?_, plainPick_spec q⟩
  · obtain ⟨v, h1, h2, h3, -⟩ := maPick_spec q m hlen a ha
    exact ⟨v, h1, h2, h3⟩
  · intro h; simp [cqnRow, h]

/-- a masked action is never the greedy choice as long as one action is allowed -/
theorem C14_masked_never_chosen_greedy (q r : List Rat) (m : List Bool) (eps u : Rat)
    (hlen : q.length = m.length) (a : Nat) (ha : m[a]? = some true)
    (j : Nat) (hj : m[j]? = some false) :
    maPick q m ≠ j ∧ (eps < u → dqnRow q r m eps u ≠ j) ∧ (¬ u < eps → cqnRow q r m eps u ≠ j) := by
  obtain ⟨v, -, hm, -, -⟩ := maPick_spec q m hlen a ha
  have h0 : maPick q m ≠ j := by
    intro e; rw [e, hj] at hm; simp at hm
  refine ⟨h0, ?_, ?_⟩
  · intro hu; simpa [dqnRow, hu] using h0
  · intro hu; simpa [cqnRow, hu] using h0

/-- `use_policy = u > ε`: with ε = 0 a draw of exactly 0 still takes the exploring branch, and that
    branch can return a masked action (all-zero scores) although the greedy action is allowed -/
theorem C14_eps0_zero_draw_witness :
    dqnRow [0, 1] [0, 0] [false, true] 0 0 = 0 ∧ maPick [0, 1] [false, true] = 1 := by
  simp [dqnRow, explorePick, maPick, randScores, maskFill, argmaxFirst, argmaxAux, olt]

/-! ### exploring choice -/

/-- proved part of `C14_explore_legal`: the exploring choice (`argmax(rand * mask)`, DQN and CQN)
    is an allowed index provided at least one allowed action drew a positive score.
    Missing for the full statement: the draw in which every allowed action scores exactly 0. -/
theorem C14_explore_legal_partial (q r : List Rat) (m : List Bool) (eps u : Rat)
    (hlen : r.length = m.length) (a : Nat) (ra : Rat) (ha : m[a]? = some true)
    (hra : r[a]? = some ra) (hpos : 0 < ra) :
    m[explorePick r m]? = some true ∧
    (¬ eps < u → m[dqnRow q r m eps u]? = some true) ∧
    (u < eps → m[cqnRow q r m eps u]? = some true) := by
  have h := explorePick_spec r m hlen a ra ha hra hpos
  refine ⟨h, ?_, ?_⟩
  · intro hu; simpa [dqnRow, hu] using h
  · intro hu; simpa [cqnRow, hu] using h

/-- the full statement `C14_explore_legal` (no positivity hypothesis) is false for the code as
    written: when every allowed action draws 0, `rand * mask` is all zero and `argmax` returns
    index 0 even if it is masked.  (`torch.rand` / `numpy.random.uniform` draw from [0, 1).) -/
theorem C14_explore_zero_draw_witness :
    ¬ (∀ (r : List Rat) (m : List Bool), r.length = m.length → (∀ x ∈ r, 0 ≤ x) →
        (∃ a : Nat, m[a]? = some true) → m[explorePick r m]? = some true) := by
  intro h
  have := h [1, 0] [false, true] rfl (by simp) ⟨1, rfl⟩
  simp [explorePick, randScores, argmaxFirst, argmaxAux, olt] at this

/-- CQN without a mask explores with `randint(0, action_dim)`: legal whenever the draw is in range -/
theorem C14_explore_no_mask (q : List Rat) (k : Nat) (eps u : Rat) (hk : k < q.length) :
    cqnRowNoMask q k eps u < q.length := by
  unfold cqnRowNoMask
  split
  · exact hk
  · have hne : q ≠ [] := by intro e; rw [e] at hk; simp at hk
    obtain ⟨v, hv, -⟩ := plainPick_spec q hne
    exact lt_of_getElem? hv

/-! ### continuous actions: clip -/

/-- DDPG / TD3: whatever the actor output and the exploration noise, training or not, every
    dimension of the returned action lies inside that dimension's bounds (finite `low ≤ high`) -/
theorem C14_clip_in_bounds (tr : Bool) (los his a noise : List Rat) (i : Nat) (lo hi x nz : Rat)
    (hlo : los[i]? = some lo) (hhi : his[i]? = some hi) (hx : a[i]? = some x)
    (hn : noise[i]? = some nz) (hle : lo ≤ hi) :
    ∃ y, (ddpgRow tr los his a noise)[i]? = some y ∧ lo ≤ y ∧ y ≤ hi := by
  unfold ddpgRow clipVec
  cases tr
  · exact ⟨clip lo hi x, zipWith3_getElem? clip _ _ _ i lo hi x hlo hhi hx, clip_bounds lo hi x hle⟩
  · exact ⟨clip lo hi (x + nz),
      zipWith3_getElem? clip _ _ _ i lo hi (x + nz) hlo hhi (addVec_getElem? _ _ i x nz hx hn),
      clip_bounds lo hi (x + nz) hle⟩

/-! ### continuous actions: rescaling of squashed outputs -/

/-- `DeterministicActor.rescale_action`: for every bounded output activation (Tanh, Softsign →
    [-1,1]; Sigmoid, Softmax, GumbelSoftmax → [0,1]) an output inside the activation's range is
    mapped inside `[low, high]`, per dimension, for all finite `low ≤ high` -/
theorem C14_rescale_in_bounds (act : OutAct) (pmin pmax : Rat) (hact : prescaled act = some (pmin, pmax))
    (lows highs : List (Option Rat)) (as : List Rat)
    (hfl : ∀ o ∈ lows, o ≠ none) (hfh : ∀ o ∈ highs, o ≠ none)
    (i : Nat) (lo hi x : Rat) (hlo : lows[i]? = some (some lo)) (hhi : highs[i]? = some (some hi))
    (hx : as[i]? = some x) (hle : lo ≤ hi) (h1 : pmin ≤ x) (h2 : x ≤ pmax) :
    ∃ y, (rescaleVec act lows highs as)[i]? = some y ∧ lo ≤ y ∧ y ≤ hi := by
  obtain ⟨ls, hls⟩ := allSomeR_of_all lows hfl
  obtain ⟨hs, hhs⟩ := allSomeR_of_all highs hfh
  have e : rescaleVec act lows highs as = zipWith3 (rescale act) ls hs as := by
    simp [rescaleVec, hls, hhs]
  rw [e]
  refine ⟨rescale act lo hi x, zipWith3_getElem? _ _ _ _ i lo hi x
    (allSomeR_getElem? _ _ _ _ hls hlo) (allSomeR_getElem? _ _ _ _ hhs hhi) hx, ?_⟩
  have : rescale act lo hi x = rescaleWith pmin pmax lo hi x := by simp [rescale, hact]
  rw [this]
  exact rescaleWith_bounds pmin pmax lo hi x (prescaled_lt act pmin pmax hact) hle h1 h2

/-- every activation the actor treats as bounded has a proper range, so the theorem above applies to each -/
theorem C14_rescale_covers_all_bounded :
    prescaled .tanh = some (-1, 1) ∧ prescaled .softsign = some (-1, 1) ∧
    prescaled .sigmoid = some (0, 1) ∧ prescaled .softmax = some (0, 1) ∧
    prescaled .gumbel = some (0, 1) ∧ prescaled .unbounded = none := by
  simp [prescaled]

/-! ### multi-agent -/

/-- MADDPG / MATD3 with the per-dimension clamp (`perDim = true`, the repaired code): in training
    *and* evaluation mode every dimension ends inside its own bounds whatever the actor output (also
    that of a user-supplied network that does not rescale) and the noise; an env-defined action
    inside the bounds overrides it and is returned unchanged; an actor output that already lies
    inside the bounds is returned unchanged in evaluation mode -/
theorem C14_ma_in_bounds (tr : Bool) (los his a noise : List Rat) (env : List (Option Rat))
    (i : Nat) (lo hi x nz : Rat) (e : Option Rat)
    (hlo : los[i]? = some lo) (hhi : his[i]? = some hi) (hx : a[i]? = some x)
    (hn : noise[i]? = some nz) (he : env[i]? = some e) (hle : lo ≤ hi)
    (henv : ∀ v, e = some v → lo ≤ v ∧ v ≤ hi) :
    ∃ y, (maContRow true tr los his a noise env)[i]? = some y ∧ lo ≤ y ∧ y ≤ hi ∧
      (∀ v, e = some v → y = v) ∧
      (tr = false → e = none → lo ≤ x → x ≤ hi → y = x) := by
  have key : ∀ (xs : List Rat) (z : Rat), xs[i]? = some z → lo ≤ z → z ≤ hi →
      ∃ y, (override xs env)[i]? = some y ∧ lo ≤ y ∧ y ≤ hi ∧ (∀ v, e = some v → y = v) ∧
        (e = none → y = z) := by
    intro xs z hz h1 h2
    refine ⟨e.getD z, override_getElem? xs env i z e hz he, ?_⟩
    cases e with
    | none => exact ⟨h1, h2, by intro v hv; simp at hv, by intro _; rfl⟩
    | some v =>
      obtain ⟨b1, b2⟩ := henv v rfl
      exact ⟨b1, b2, by intro w hw; simp at hw; simp [hw], by intro h; simp at h⟩
  cases tr
  · have hc := zipWith3_getElem? clip los his a i lo hi x hlo hhi hx
    obtain ⟨b1, b2⟩ := clip_bounds lo hi x hle
    obtain ⟨y, hy, c1, c2, c3, c4⟩ := key _ _ hc b1 b2
    refine ⟨y, by simpa [maContRow, clipVec] using hy, c1, c2, c3, ?_⟩
    intro _ hnone h1 h2
    rw [c4 hnone, clip_id lo hi x h1 h2]
  · have hc := zipWith3_getElem? clip los his (addVec a noise) i lo hi (x + nz) hlo hhi
      (addVec_getElem? _ _ i x nz hx hn)
    obtain ⟨b1, b2⟩ := clip_bounds lo hi (x + nz) hle
    obtain ⟨y, hy, c1, c2, c3, -⟩ := key _ _ hc b1 b2
    exact ⟨y, by simpa [maContRow, clipVec] using hy, c1, c2, c3, by intro h; simp at h⟩

/-- discrete MADDPG / MATD3: the returned index is the env-defined one where the environment
    defines it, otherwise an allowed index under the agent's own mask (training or not, any noise) -/
theorem C14_ma_discrete_legal (tr : Bool) (p noise : List Rat) (m : List Bool) (env : Option Nat)
    (hlen : p.length = m.length) (hnl : noise.length = p.length)
    (a : Nat) (ha : m[a]? = some true) :
    (∀ v, env = some v → maDiscRow tr p noise m env = v) ∧
    (env = none → m[maDiscRow tr p noise m env]? = some true) := by
  constructor
  · intro v hv; simp [maDiscRow, hv]
  · intro hv
    subst hv
    cases tr
    · obtain ⟨v, -, h, -, -⟩ := maPick_spec p m hlen a ha
      simpa [maDiscRow] using h
    · have hl : ((addVec p noise).map (clip 0 1)).length = m.length := by
        simp [addVec, List.length_zipWith, hnl, hlen]
      obtain ⟨v, -, h, -, -⟩ := maPick_spec _ m hl a ha
      simpa [maDiscRow] using h

/-- defect D11 (code before the repair, `perDim = false`): clamping every dimension with the
    bounds of dimension 0 puts other dimensions outside their own bounds -/
theorem C14_ma_first_dim_clamp_witness :
    ¬ (∀ (los his a noise : List Rat) (env : List (Option Rat)) (i : Nat) (lo hi : Rat),
        los[i]? = some lo → his[i]? = some hi → lo ≤ hi → a.length = los.length →
        noise.length = los.length → env.length = los.length → his.length = los.length →
        ∃ y, (maContRow false true los his a noise env)[i]? = some y ∧ lo ≤ y ∧ y ≤ hi) := by
  intro h
  obtain ⟨y, hy, h1, _⟩ := h [0, 2] [1, 3] [0, 0] [0, 0] [none, none] 1 2 3 rfl rfl (by norm_num)
    rfl rfl rfl rfl
  simp [maContRow, addVec, override, clip] at hy
  rw [← hy] at h1
  norm_num at h1

/-- the whole deterministic agent (real actor `forward` + `get_action`): if the head's output lies in
    the range of its bounded activation, DDPG / TD3 and (repaired) MADDPG / MATD3 return an action
    inside the per-dimension bounds in training *and* evaluation mode — in evaluation mode because
    the actor's rescaling already lands inside the bounds -/
theorem C14_agent_in_bounds (act : OutAct) (pmin pmax : Rat) (hact : prescaled act = some (pmin, pmax))
    (tr : Bool) (los his h noise : List Rat) (env : List (Option Rat))
    (i : Nat) (lo hi x nz : Rat) (e : Option Rat)
    (hlo : los[i]? = some lo) (hhi : his[i]? = some hi) (hx : h[i]? = some x)
    (hn : noise[i]? = some nz) (he : env[i]? = some e) (hle : lo ≤ hi)
    (h1 : pmin ≤ x) (h2 : x ≤ pmax) (henv : ∀ v, e = some v → lo ≤ v ∧ v ≤ hi) :
    (∃ y, (ddpgAgent act tr los his h noise)[i]? = some y ∧ lo ≤ y ∧ y ≤ hi) ∧
    (∃ y, (maContAgent act true tr los his h noise env)[i]? = some y ∧ lo ≤ y ∧ y ≤ hi) := by
  obtain ⟨y0, hy0, b1, b2⟩ := C14_rescale_in_bounds act pmin pmax hact (los.map some) (his.map some) h
    (by simp) (by simp) i lo hi x (by simp [hlo]) (by simp [hhi]) hx hle h1 h2
  constructor
  · exact C14_clip_in_bounds tr los his _ noise i lo hi y0 nz hlo hhi hy0 hn hle
  · obtain ⟨y, hy, c1, c2, -⟩ := C14_ma_in_bounds tr los his (actorOut act los his h) noise env i lo hi y0 nz e
      hlo hhi hy0 hn he hle henv
    exact ⟨y, hy, c1, c2⟩

/-! ### stochastic policies in evaluation mode -/

/-- PPO / IPPO evaluation mode on a Box: clipping always lands inside the bounds; with a squashing
    actor, `scale_action` of a squashed sample (in [-1, 1]) lands inside the bounds -/
theorem C14_pg_eval_in_bounds (sq : Bool) (los his xs : List Rat) (i : Nat) (lo hi x : Rat)
    (hlo : los[i]? = some lo) (hhi : his[i]? = some hi) (hx : xs[i]? = some x) (hle : lo ≤ hi)
    (hsq : sq = true → -1 ≤ x ∧ x ≤ 1) :
    ∃ y, (pgEvalBox sq los his xs)[i]? = some y ∧ lo ≤ y ∧ y ≤ hi := by
  cases sq
  · exact ⟨clip lo hi x, by simpa [pgEvalBox, clipVec] using zipWith3_getElem? clip _ _ _ i lo hi x hlo hhi hx,
      clip_bounds lo hi x hle⟩
  · obtain ⟨h1, h2⟩ := hsq rfl
    exact ⟨scaleAction lo hi x,
      by simpa [pgEvalBox] using zipWith3_getElem? scaleAction _ _ _ i lo hi x hlo hhi hx,
      scaleAction_bounds lo hi x hle h1 h2⟩

/-- applying `scale_action` twice (IPPO's evaluation branch would, were it reachable: the actor's
    `forward` has already scaled) leaves an asymmetric Box -/
theorem C14_double_scale_witness :
    ¬ (scaleAction 0 2 (scaleAction 0 2 1) ≤ 2) := by
  norm_num [scaleAction]

/-- `apply_mask`: a masked logit becomes exactly −10⁸, an allowed one is unchanged; hence an allowed
    logit `≥ L` exceeds every masked one by at least `L + 10⁸` (the sampling itself is not modelled) -/
theorem C14_pg_mask_spec (logits : List Rat) (m : List Bool) (j : Nat) (l : Rat) (b : Bool)
    (hl : logits[j]? = some l) (hb : m[j]? = some b) :
    (pgMask logits m)[j]? = some (if b then l else -100000000) := by
  simp [pgMask, maskedLogit, List.getElem?_zipWith, hl, hb]

/-! ### non-vacuity: the hypotheses are satisfiable and the conclusions are the expected values -/

-- ties go to the first allowed index; a huge masked value is ignored
example : dqnRow [5, 1000000, 7, 7] [0, 0, 0, 0] [true, false, true, true] 0 (1/2) = 2 := by
  simp [dqnRow, maPick, maskFill, argmaxFirst, argmaxAux, olt]; norm_num
example : ([true, false, true, true] : List Bool)[0]? = some true ∧ (0 : Rat) < 1 / 2 := by
  constructor <;> norm_num
-- exploring: ε = 1 never uses the policy; scores [1/4·1, 3/4·0, 1/2·1]
example : dqnRow [9, 9, 9] [1/4, 3/4, 1/2] [true, false, true] 1 (1/2) = 2 := by
  simp [dqnRow, explorePick, randScores, argmaxFirst, argmaxAux, olt]; norm_num
-- per-dimension clip with asymmetric bounds
example : ddpgRow true [-1, 2] [1/2, 4] [0, 0] [3, -5] = [1/2, 2] := by
  simp [ddpgRow, clipVec, zipWith3, addVec, clip]; norm_num
-- Tanh output 1/2 on [2, 4] and Sigmoid output 1/4 on [-8, -6]
example : rescaleVec .tanh [some 2] [some 4] [1/2] = [7/2] := by
  simp [rescaleVec, allSomeR, zipWith3, rescale, prescaled, rescaleWith]; norm_num
example : rescaleVec .sigmoid [some (-8)] [some (-6)] [1/4] = [-15/2] := by
  simp [rescaleVec, allSomeR, zipWith3, rescale, prescaled, rescaleWith]; norm_num
-- an infinite bound leaves the action untouched
example : rescaleVec .tanh [none, some 0] [some 1, some 1] [1/2, 1/2] = [1/2, 1/2] := by
  simp [rescaleVec, allSomeR]
-- multi-agent: noisy action clamped per dimension, second dimension env-defined
example : maContRow true true [0, 2] [1, 3] [1/2, 0] [1, 0] [none, some (5/2)] = [1, 5/2] := by
  simp [maContRow, clipVec, zipWith3, addVec, override, clip]

open ActionGen

/-! ### the theorems over the definitions translated from the source text (`Gen/ActionGen.lean`)

`harness/py2lean_action.py` translates `get_action` of DQN (with `_get_action`), CQN, RainbowDQN, DDPG, TD3, PPO, the
per-agent loop body of IPPO / MADDPG / MATD3 and `DeterministicActor.forward` / `rescale_action`,
`StochasticActor.scale_action` from the source text of the tree under test; `Proofs/ActionGenEq.lean` proves the
generated definitions equal to the model's.  Masks are the 0/1 rows the library is given (`ofBools m`);
`*_draws_ok` is the generated statement of what torch / numpy promise about the draws (`0 ≤ x < 1`, the `randint`
range, row lengths — the bounds are those written in the source). -/

theorem argmaxFirst_lt (l : List (Option Rat)) (hne : l ≠ []) : argmaxFirst l < l.length :=
  (argmaxFirst_spec l hne).lt_len

theorem pick_lt (q r : List Rat) (m : List Bool) (A : Nat) (hA : 0 < A) (hq : q.length = A) (hr : r.length = A)
    (hm : m.length = A) : maPick q m < A ∧ explorePick r m < A ∧ plainPick q < A := by
  have h1 : (maskFill q m).length = A := by simp [maskFill, List.length_zipWith, hq, hm]
  have h2 : (randScores r m).length = A := by simp [randScores, List.length_zipWith, hr, hm]
  have h3 : (q.map some).length = A := by simp [hq]
  have ne : ∀ (l : List (Option Rat)), l.length = A → l ≠ [] := by
    intro l hl e; rw [e] at hl; simp at hl; omega
  refine ⟨?_, ?_, ?_⟩
  · have := argmaxFirst_lt _ (ne _ h1); rwa [h1] at this
  · have := argmaxFirst_lt _ (ne _ h2); rwa [h2] at this
  · have := argmaxFirst_lt _ (ne _ h3); rwa [h3] at this

/-- the index `get_action` returns is a member of `Discrete(action_dim)` — DQN, CQN, RainbowDQN; with or without a
    mask (any mask of the right length, even all-zero), greedy or exploring, for every draw the library can make -/
theorem C14_source_translation_index_in_range (q r : List Rat) (m : Option (List Bool)) (eps u : Rat) (k A : Nat)
    (hA : 0 < A) (hq : q.length = A) (hm : ∀ m', m = some m' → m'.length = A) :
    (DQN.get_action_draws_ok (self_actor_out := q) (rand_like := r) (uniform_ := u) →
      DQN.get_action (epsilon := eps) (action_mask := m.map ofBools) (self_action_dim := A)
        (self_actor_out := q) (rand_like := r) (uniform_ := u) < A) ∧
    (CQN.get_action_draws_ok (self_action_dim := A) (np_random_randint := k) (np_random_uniform := r)
        (random_random := u) →
      CQN.get_action (epsilon := eps) (action_mask := m.map ofBools) (self_actor_out := q)
        (np_random_randint := k) (np_random_uniform := r) (random_random := u) < A) ∧
    Rainbow.get_action (action_mask := m.map ofBools) (self_actor_out := q) < A := by
  refine ⟨?_, ?_, ?_⟩
  · intro hok
    obtain ⟨-, hr, -⟩ := hok
    rw [hq] at hr
    cases m with
    | none =>
      obtain ⟨h1, h2, -⟩ := pick_lt q r (List.replicate A true) A hA hq hr (by simp)
      simp only [Option.map_none, gen_dqn_get_action_none_eq, dqnRow]
      split <;> assumption
    | some m' =>
      obtain ⟨h1, h2, -⟩ := pick_lt q r m' A hA hq hr (hm m' rfl)
      simp only [Option.map_some, gen_dqn_get_action_some_eq, dqnRow]
      split <;> assumption
  · intro hok
    obtain ⟨-, ⟨-, hk⟩, -, hr⟩ := hok
    cases m with
    | none =>
      obtain ⟨-, -, h3⟩ := pick_lt q r (List.replicate A true) A hA hq hr (by simp)
      simp only [Option.map_none, gen_cqn_get_action_none_eq, cqnRowNoMask]
      split <;> assumption
    | some m' =>
      obtain ⟨h1, h2, -⟩ := pick_lt q r m' A hA hq hr (hm m' rfl)
      simp only [Option.map_some, gen_cqn_get_action_some_eq, cqnRow]
      split <;> assumption
  · cases m with
    | none =>
      obtain ⟨-, -, h3⟩ := pick_lt q q (List.replicate A true) A hA hq hq (by simp)
      simpa only [Option.map_none, gen_rainbow_get_action_none_eq] using h3
    | some m' =>
      obtain ⟨h1, -, -⟩ := pick_lt q q m' A hA hq hq (hm m' rfl)
      simpa only [Option.map_some, gen_rainbow_get_action_some_eq] using h1

/-- a masked action is never the greedy choice of the translated code as long as one action is allowed: DQN when
    the row uses the policy (`ε < u`), CQN when it does not explore, RainbowDQN always -/
theorem C14_source_translation_masked_never_chosen_greedy (q r : List Rat) (m : List Bool) (eps u : Rat) (k A : Nat)
    (hlen : q.length = m.length) (a : Nat) (ha : m[a]? = some true) (j : Nat) (hj : m[j]? = some false) :
    (eps < u → DQN.get_action (epsilon := eps) (action_mask := some (ofBools m)) (self_action_dim := A)
        (self_actor_out := q) (rand_like := r) (uniform_ := u) ≠ j) ∧
    (¬ u < eps → CQN.get_action (epsilon := eps) (action_mask := some (ofBools m)) (self_actor_out := q)
        (np_random_randint := k) (np_random_uniform := r) (random_random := u) ≠ j) ∧
    Rainbow.get_action (action_mask := some (ofBools m)) (self_actor_out := q) ≠ j := by
  obtain ⟨h0, h1, h2⟩ := C14_masked_never_chosen_greedy q r m eps u hlen a ha j hj
  rw [gen_dqn_get_action_some_eq, gen_cqn_get_action_some_eq, gen_rainbow_get_action_some_eq]
  exact ⟨h1, h2, h0⟩

/-- the exploring branch of the translated code (`argmax(rand * mask)`, DQN and CQN) returns an allowed action for
    every draw the library can make (`*_draws_ok`: entries in `[0, 1)` as written in the source) in which some allowed
    action's draw is not exactly 0 -/
theorem C14_source_translation_explore_legal (q r : List Rat) (m : List Bool) (eps u : Rat) (k A : Nat)
    (hq : q.length = m.length) (hA : m.length = A) (a : Nat) (ra : Rat) (ha : m[a]? = some true)
    (hra : r[a]? = some ra) (hne : ra ≠ 0) :
    (DQN.get_action_draws_ok (self_actor_out := q) (rand_like := r) (uniform_ := u) → ¬ eps < u →
      m[DQN.get_action (epsilon := eps) (action_mask := some (ofBools m)) (self_action_dim := A)
        (self_actor_out := q) (rand_like := r) (uniform_ := u)]? = some true) ∧
    (CQN.get_action_draws_ok (self_action_dim := A) (np_random_randint := k) (np_random_uniform := r)
        (random_random := u) → u < eps →
      m[CQN.get_action (epsilon := eps) (action_mask := some (ofBools m)) (self_actor_out := q)
        (np_random_randint := k) (np_random_uniform := r) (random_random := u)]? = some true) := by
  have hmem : ra ∈ r := List.mem_of_getElem? hra
  constructor
  · intro hok hu
    obtain ⟨hr, hl, -⟩ := hok
    have hpos : 0 < ra := lt_of_le_of_ne (hr ra hmem).1 (Ne.symm hne)
    rw [gen_dqn_get_action_some_eq]
    exact (C14_explore_legal_partial q r m eps u (by rw [hl, hq]) a ra ha hra hpos).2.1 hu
  · intro hok hu
    obtain ⟨-, -, hr, hl⟩ := hok
    have hpos : 0 < ra := lt_of_le_of_ne (hr ra hmem).1 (Ne.symm hne)
    rw [gen_cqn_get_action_some_eq]
    exact (C14_explore_legal_partial q r m eps u (by rw [hl, hA]) a ra ha hra hpos).2.2 hu

/-- exploration switched off (`ε = 0`): the translated DQN (for every draw `u ≠ 0`), CQN (for every draw the library
    can make) and RainbowDQN return an allowed action whose value is ≥ that of every allowed action -/
theorem C14_source_translation_eps0_best_allowed (q r : List Rat) (m : List Bool) (u : Rat) (k A : Nat)
    (hlen : q.length = m.length) (a : Nat) (ha : m[a]? = some true) :
    let best (c : Nat) : Prop :=
      ∃ v, q[c]? = some v ∧ m[c]? = some true ∧ ∀ (j : Nat) (x : Rat), m[j]? = some true → q[j]? = some x → x ≤ v
    (0 < u → best (DQN.get_action (epsilon := 0) (action_mask := some (ofBools m)) (self_action_dim := A)
        (self_actor_out := q) (rand_like := r) (uniform_ := u))) ∧
    (CQN.get_action_draws_ok (self_action_dim := A) (np_random_randint := k) (np_random_uniform := r)
        (random_random := u) →
      best (CQN.get_action (epsilon := 0) (action_mask := some (ofBools m)) (self_actor_out := q)
        (np_random_randint := k) (np_random_uniform := r) (random_random := u))) ∧
    best (Rainbow.get_action (action_mask := some (ofBools m)) (self_actor_out := q)) := by
  intro best
  obtain ⟨hb, hc, -⟩ := C14_greedy_is_best_allowed_masked_array q r m 0 u hlen a ha
  refine ⟨?_, ?_, ?_⟩
  · intro hu
    obtain ⟨v, h1, h2, h3, -⟩ := C14_greedy_is_best_allowed q r m 0 u hlen a ha hu
    rw [gen_dqn_get_action_some_eq]
    exact ⟨v, h1, h2, h3⟩
  · intro hok
    obtain ⟨⟨h0, -⟩, -⟩ := hok
    rw [gen_cqn_get_action_some_eq, hc (not_lt.mpr h0)]
    exact hb
  · rw [gen_rainbow_get_action_some_eq]
    exact hb

/-- greedy choice of the translated DQN row (`ε < u`): best allowed, ties to the first index -/
theorem C14_source_translation_greedy_is_best_allowed (q r : List Rat) (m : List Bool) (eps u : Rat) (A : Nat)
    (hlen : q.length = m.length) (a : Nat) (ha : m[a]? = some true) (hu : eps < u) :
    let c := DQN.get_action (epsilon := eps) (action_mask := some (ofBools m)) (self_action_dim := A)
        (self_actor_out := q) (rand_like := r) (uniform_ := u)
    ∃ v, q[c]? = some v ∧ m[c]? = some true ∧
      (∀ (j : Nat) (x : Rat), m[j]? = some true → q[j]? = some x → x ≤ v) ∧
      (∀ (j : Nat) (x : Rat), j < c → m[j]? = some true → q[j]? = some x → x < v) := by
  intro c
  have e : c = dqnRow q r m eps u := gen_dqn_get_action_some_eq q r m eps u A
  rw [e]
  exact C14_greedy_is_best_allowed q r m eps u hlen a ha hu

/-- DDPG / TD3 `get_action` as translated: every component of the returned action lies inside that component's
    bounds, whatever the actor output and the noise, training or not -/
theorem C14_source_translation_clip_in_bounds (tr : Bool) (los his a noise : List Rat) (i : Nat) (lo hi x nz : Rat)
    (hlo : los[i]? = some lo) (hhi : his[i]? = some hi) (hx : a[i]? = some x)
    (hn : noise[i]? = some nz) (hle : lo ≤ hi) :
    (∃ y, (DDPG.get_action (training := tr) (self_action_space_high := his) (self_action_space_low := los)
        (self_actor_out := a) (self_action_noise := noise))[i]? = some y ∧ lo ≤ y ∧ y ≤ hi) ∧
    (∃ y, (TD3.get_action (training := tr) (self_action_space_high := his) (self_action_space_low := los)
        (self_actor_out := a) (self_action_noise := noise))[i]? = some y ∧ lo ≤ y ∧ y ≤ hi) := by
  rw [gen_ddpg_get_action_eq, gen_td3_get_action_eq]
  exact ⟨C14_clip_in_bounds tr los his a noise i lo hi x nz hlo hhi hx hn hle,
    C14_clip_in_bounds tr los his a noise i lo hi x nz hlo hhi hx hn hle⟩

/-- `DeterministicActor.forward` as translated (finite bounds, Box, `clip_actions`): a head output inside the range
    of its bounded activation is rescaled inside `[low, high]`, per component; and the whole translated agent
    (`forward` then DDPG / TD3 `get_action`) returns an action inside the bounds -/
theorem C14_source_translation_rescale_in_bounds (act : OutAct) (pmin pmax : Rat)
    (hact : prescaled act = some (pmin, pmax)) (tr : Bool) (los his h noise : List Rat) (fl fh : List Bool)
    (hfl : fl.any (fun b => b) = false) (hfh : fh.any (fun b => b) = false)
    (hl : los.length = h.length) (hh : his.length = h.length)
    (i : Nat) (lo hi x nz : Rat) (hlo : los[i]? = some lo) (hhi : his[i]? = some hi) (hx : h[i]? = some x)
    (hn : noise[i]? = some nz) (hle : lo ≤ hi) (h1 : pmin ≤ x) (h2 : x ≤ pmax) :
    let out := Actor.forward (self_action_high := his) (self_action_high_isinf := fh) (self_action_low := los)
      (self_action_low_isinf := fl) (self_action_space_is_Box := true) (self_clip_actions := true)
      (self_head_net_out := h) (self_output_activation := actName act)
    (∃ y, out[i]? = some y ∧ lo ≤ y ∧ y ≤ hi) ∧
    (∃ y, (DDPG.get_action (training := tr) (self_action_space_high := his) (self_action_space_low := los)
        (self_actor_out := out) (self_action_noise := noise))[i]? = some y ∧ lo ≤ y ∧ y ≤ hi) := by
  intro out
  have e : out = actorOut act los his h := gen_actor_forward_eq act los his h fl fh hfl hfh hl hh
  have hb : ∃ y, out[i]? = some y ∧ lo ≤ y ∧ y ≤ hi := by
    rw [e]
    exact C14_rescale_in_bounds act pmin pmax hact (los.map some) (his.map some) h (by simp) (by simp) i lo hi x
      (by simp [hlo]) (by simp [hhi]) hx hle h1 h2
  refine ⟨hb, ?_⟩
  obtain ⟨y0, hy0, -, -⟩ := hb
  exact (C14_source_translation_clip_in_bounds tr los his out noise i lo hi y0 nz hlo hhi hy0 hn hle).1

/-- PPO `get_action` and the IPPO per-agent loop body as translated, evaluation mode on a Box: clipping lands inside
    the bounds; with a squashing actor the rescaled squashed sample (in [-1, 1]) lands inside the bounds -/
theorem C14_source_translation_pg_eval_in_bounds (sq : Bool) (los his xs : List Rat) (i : Nat) (lo hi x : Rat)
    (hlo : los[i]? = some lo) (hhi : his[i]? = some hi) (hx : xs[i]? = some x) (hle : lo ≤ hi)
    (hsq : sq = true → -1 ≤ x ∧ x ≤ 1) :
    (∃ y, (PPO.get_action (self_action_space_high := his) (self_action_space_is_Box := true)
        (self_action_space_low := los) (self_actor_forward_head_out_0 := xs) (self_actor_squash_output := sq)
        (self_training := false))[i]? = some y ∧ lo ≤ y ∧ y ≤ hi) ∧
    (∃ y, (IPPO.agent_action (self_action_space_i_high := his) (self_action_space_i_is_Box := true)
        (self_action_space_i_low := los) (self_actors_i_action_high := his) (self_actors_i_action_low := los)
        (self_actors_i_out_0 := xs) (self_actors_i_squash_output := sq) (self_training := false))[i]? = some y ∧
        lo ≤ y ∧ y ≤ hi) ∧
    (sq = true → ∃ y, (StochActor.scale_action (action := xs) (self_action_high := his)
        (self_action_low := los))[i]? = some y ∧ lo ≤ y ∧ y ≤ hi) := by
  rw [gen_ppo_get_action_eval_eq, gen_ippo_agent_action_eval_eq, gen_scale_action_eq]
  refine ⟨C14_pg_eval_in_bounds sq los his xs i lo hi x hlo hhi hx hle hsq,
    C14_pg_eval_in_bounds sq los his xs i lo hi x hlo hhi hx hle hsq, ?_⟩
  intro h
  subst h
  simpa [pgEvalBox] using C14_pg_eval_in_bounds true los his xs i lo hi x hlo hhi hx hle hsq

/-- MADDPG / MATD3 per-agent loop body as translated (not compiled), Box: after the env-defined override the action
    lies inside the agent's per-dimension bounds in training and evaluation mode; discrete: the masked argmax of the
    translated scores is the env-defined action where defined, otherwise an allowed action -/
theorem C14_source_translation_ma_in_bounds (tr box : Bool) (los his a noise ah al : List Rat) (fh fl : List Bool)
    (name : Option String) (env : List (Option Rat)) (i : Nat) (lo hi x nz : Rat) (e : Option Rat)
    (hlo : los[i]? = some lo) (hhi : his[i]? = some hi) (hx : a[i]? = some x)
    (hn : noise[i]? = some nz) (he : env[i]? = some e) (hle : lo ≤ hi)
    (henv : ∀ v, e = some v → lo ≤ v ∧ v ≤ hi) :
    (∃ y, (override (MADDPG.agent_action (training := tr) (self_action_spaces_i_is_Box := box)
        (self_actors_i_action_high := ah) (self_actors_i_action_high_isinf := fh) (self_actors_i_action_low := al)
        (self_actors_i_action_low_isinf := fl) (self_actors_i_out := a) (self_actors_i_output_activation := name)
        (self_discrete_actions := false) (self_max_action_i := his) (self_min_action_i := los)
        (self_torch_compiler_is_None := true) (self_action_noise := noise)) env)[i]? = some y ∧ lo ≤ y ∧ y ≤ hi) ∧
    (∃ y, (override (MATD3.agent_action (training := tr) (self_action_spaces_i_is_Box := box)
        (self_actors_i_action_high := ah) (self_actors_i_action_high_isinf := fh) (self_actors_i_action_low := al)
        (self_actors_i_action_low_isinf := fl) (self_actors_i_out := a) (self_actors_i_output_activation := name)
        (self_discrete_actions := false) (self_max_action_i := his) (self_min_action_i := los)
        (self_torch_compiler_is_None := true) (self_action_noise := noise)) env)[i]? = some y ∧ lo ≤ y ∧ y ≤ hi) := by
  rw [gen_maddpg_agent_action_box_eq, gen_matd3_agent_action_box_eq, ← maContRow_eq_override]
  obtain ⟨y, hy, h1, h2, -⟩ := C14_ma_in_bounds tr los his a noise env i lo hi x nz e hlo hhi hx hn he hle henv
  exact ⟨⟨y, hy, h1, h2⟩, ⟨y, hy, h1, h2⟩⟩

theorem C14_source_translation_ma_discrete_legal (tr box : Bool) (los his p noise ah al : List Rat) (fh fl : List Bool)
    (name : Option String) (m : List Bool) (env : Option Nat)
    (hlen : p.length = m.length) (hnl : noise.length = p.length) (a : Nat) (ha : m[a]? = some true) :
    let scores := MADDPG.agent_action (training := tr) (self_action_spaces_i_is_Box := box)
        (self_actors_i_action_high := ah) (self_actors_i_action_high_isinf := fh) (self_actors_i_action_low := al)
        (self_actors_i_action_low_isinf := fl) (self_actors_i_out := p) (self_actors_i_output_activation := name)
        (self_discrete_actions := true) (self_max_action_i := his) (self_min_action_i := los)
        (self_torch_compiler_is_None := true) (self_action_noise := noise)
    let scores' := MATD3.agent_action (training := tr) (self_action_spaces_i_is_Box := box)
        (self_actors_i_action_high := ah) (self_actors_i_action_high_isinf := fh) (self_actors_i_action_low := al)
        (self_actors_i_action_low_isinf := fl) (self_actors_i_out := p) (self_actors_i_output_activation := name)
        (self_discrete_actions := true) (self_max_action_i := his) (self_min_action_i := los)
        (self_torch_compiler_is_None := true) (self_action_noise := noise)
    scores' = scores ∧
    (∀ v, env = some v → env.getD (maPick scores m) = v) ∧
    (env = none → m[env.getD (maPick scores m)]? = some true) := by
  intro scores scores'
  have e : scores = (if tr then (addVec p noise).map (clip 0 1) else p) :=
    gen_maddpg_agent_action_discrete_eq tr box los his p noise ah al fh fl name
  have e' : scores' = (if tr then (addVec p noise).map (clip 0 1) else p) :=
    gen_matd3_agent_action_discrete_eq tr box los his p noise ah al fh fl name
  have hm : env.getD (maPick scores m) = maDiscRow tr p noise m env := by
    rw [e]; cases tr <;> simp [maDiscRow]
  refine ⟨by rw [e, e'], ?_, ?_⟩
  · intro v hv; rw [hm]; exact (C14_ma_discrete_legal tr p noise m env hlen hnl a ha).1 v hv
  · intro hv; rw [hm]; exact (C14_ma_discrete_legal tr p noise m env hlen hnl a ha).2 hv

/-! non-vacuity of the hypotheses over the generated definitions -/
example : DQN.get_action_draws_ok (self_actor_out := [9, 9, 9]) (rand_like := [1/4, 3/4, 1/2]) (uniform_ := 1/2) ∧
    ([true, false, true] : List Bool)[0]? = some true ∧ ([1/4, 3/4, 1/2] : List Rat)[0]? = some (1/4) := by
  refine ⟨?_, rfl, rfl⟩
  simp [DQN.get_action_draws_ok]; norm_num
example : CQN.get_action_draws_ok (self_action_dim := 3) (np_random_randint := 2) (np_random_uniform := [1/4, 3/4, 1/2])
    (random_random := 0) := by
  simp [CQN.get_action_draws_ok]; norm_num

end Action

namespace Action
section Plumbing

/-! ### multi-agent plumbing: which mask / env-defined action reaches which agent and environment row -/

theorem dlookup_filter_ids {V : Type} (ids : List String) (a : String) (ha : a ∈ ids) :
    ∀ (l : List (String × V)), dlookup (l.filter (fun p => ids.contains p.1)) a = dlookup l a
  | [] => rfl
  | p :: l => by
    have ih := dlookup_filter_ids ids a ha l
    unfold dlookup at ih ⊢
    by_cases hp : p.1 = a
    · have hc : ids.contains p.1 = true := by simpa [hp] using ha
      simp only [List.filter_cons, hc, if_true, List.find?_cons, show (p.1 == a) = true from by simpa using hp]
    · by_cases hc : ids.contains p.1 = true
      · simp only [List.filter_cons, hc, if_true, List.find?_cons]
        simp only [show (p.1 == a) = false from by simpa using hp]
        exact ih
      · simp only [List.filter_cons, hc, List.find?_cons]
        simp only [show (p.1 == a) = false from by simpa using hp]
        simpa using ih

/-- (i) the mask that reaches a known agent is the one stored under its OWN key, wherever that key stands in
    `infos` (`none` when the agent has no entry or its entry has no mask) -/
theorem C14_plumbing_own_mask {M : Type} (ids : List String) (infos : List (String × Option M)) (a : String)
    (ha : a ∈ ids) : ownMask ids infos a = (dlookup infos a).join := by
  unfold ownMask extractMasks
  rw [dlookup_filter_ids ids a ha]

/-- (i) permutation invariance: for every agent set, every `infos` with distinct keys and every reordering of it,
    every agent is given the same mask -/
theorem C14_plumbing_own_mask_perm {M : Type} (ids : List String) (infos infos' : List (String × Option M))
    (hn : (infos.map Prod.fst).Nodup) (hp : infos.Perm infos') (a : String) :
    ownMask ids infos a = ownMask ids infos' a := by
  unfold ownMask extractMasks
  rw [MaPlumbGenEq.dlookup_perm _ _ a (List.Nodup.sublist (List.Sublist.map _ List.filter_sublist) hn) (hp.filter _)]

/-- (ii) entry `j` of the final action row: the env-defined action iff it is defined (not NaN: exactly where
    `agent_mask` holds), else the policy's action -/
theorem C14_plumbing_override_entry {α : Type} (xs : List α) (es : List (Option α)) (j : Nat) :
    (overrideRow xs es)[j]? = (xs[j]?).bind (fun x => (es[j]?).map (fun e => e.getD x)) := by
  unfold overrideRow
  rw [List.getElem?_zipWith]
  cases xs[j]? <;> cases es[j]? <;> rfl

theorem C14_plumbing_override_rows_entry {α : Type} (pol : List (List α)) (env : List (List (Option α))) (e : Nat) :
    (overrideRows pol env)[e]? = (pol[e]?).bind (fun xr => (env[e]?).map (fun er => overrideRow xr er)) := by
  unfold overrideRows
  rw [List.getElem?_zipWith]
  cases pol[e]? <;> cases env[e]? <;> rfl

/-- (ii) legality is preserved: if every policy action is legal (the per-row theorems above) and every env-defined
    action is legal, every returned action is legal — for any notion of legal, any number of rows and dimensions -/
theorem C14_plumbing_override_legal {α : Type} (P : α → Prop) (pol : List (List α)) (env : List (List (Option α)))
    (hp : ∀ r ∈ pol, ∀ x ∈ r, P x) (he : ∀ r ∈ env, ∀ v, some v ∈ r → P v) :
    ∀ r ∈ overrideRows pol env, ∀ x ∈ r, P x := by
  intro r hr x hx
  unfold overrideRows at hr
  rw [List.mem_iff_getElem?] at hr
  obtain ⟨i, hi⟩ := hr
  rw [List.getElem?_zipWith] at hi
  cases hxr : pol[i]? with
  | none => simp [hxr] at hi
  | some xr =>
    cases her : env[i]? with
    | none => simp [hxr, her] at hi
    | some er =>
      simp only [hxr, her] at hi
      have hi' : List.zipWith (fun x e => e.getD x) xr er = r := by simpa using hi
      rw [← hi', List.mem_iff_getElem?] at hx
      obtain ⟨j, hj⟩ := hx
      rw [List.getElem?_zipWith] at hj
      cases hxj : xr[j]? with
      | none => simp [hxj] at hj
      | some x0 =>
        cases hej : er[j]? with
        | none => simp [hxj, hej] at hj
        | some e0 =>
          simp only [hxj, hej] at hj
          have hx' : e0.getD x0 = x := by simpa using hj
          have hxr' := List.mem_of_getElem? hxr
          have her' := List.mem_of_getElem? her
          cases e0 with
          | none => rw [← hx']; exact hp xr hxr' x0 (List.mem_of_getElem? hxj)
          | some v => rw [← hx']; exact he er her' v (List.mem_of_getElem? hej)

open MaPlumbGen MaPlumbGenEq

/-- SOURCE: `MultiAgentRLAlgorithm.extract_action_masks` as written gives every known agent the mask stored under its
    own key, for every order of `infos` -/
theorem C14_source_translation_plumbing_own_mask {α : Type} (ids : List String) (infos : PyDict (Info α))
    (hn : (infos.map Prod.fst).Nodup) (a : String) (ha : a ∈ ids) :
    (Base.extract_action_masks ids infos).map (fun d => (pyGet d a).join) =
      some ((dlookup infos a).bind (fun i => maskOf i)) := by
  rw [gen_extract_action_masks_eq ids infos hn]
  simp only [Option.map_some, gen_pyGet_eq]
  have := C14_plumbing_own_mask ids (infos.map (fun p => (p.1, maskOf p.2))) a ha
  unfold ownMask at this
  rw [this]
  congr 1
  unfold dlookup
  rw [List.find?_map]
  cases h : List.find? ((fun p => p.1 == a) ∘ fun (p : String × Info α) => (p.1, maskOf p.2)) infos with
  | none =>
    have : List.find? (fun p => p.1 == a) infos = none := by simpa [Function.comp_def] using h
    simp [this]
  | some p =>
    have : List.find? (fun p => p.1 == a) infos = some p := by simpa [Function.comp_def] using h
    simp [this]

theorem C14_source_translation_plumbing_own_mask_perm {α : Type} (ids : List String) (infos infos' : PyDict (Info α))
    (hn : (infos.map Prod.fst).Nodup) (hp : infos.Perm infos') (a : String) (ha : a ∈ ids) :
    (Base.extract_action_masks ids infos).map (fun d => (pyGet d a).join) =
      (Base.extract_action_masks ids infos').map (fun d => (pyGet d a).join) := by
  rw [C14_source_translation_plumbing_own_mask ids infos hn a ha,
    C14_source_translation_plumbing_own_mask ids infos' ((hp.map Prod.fst).nodup_iff.mp hn) a ha,
    dlookup_perm infos infos' a hn hp]

/-- SOURCE: the agent mask computed from a (normalised, 2-D) entry and the statement
    `action[agent_mask] = env_defined_actions[agent_mask]` give the entry-wise override, for every number of
    environment rows and action dimensions; another shape is an exception, never a misplaced action -/
theorem C14_source_translation_plumbing_mask_copy {α : Type} (xs : List (List α)) (es : List (List (Option α))) :
    (genAgentMask (Arr.a2 es)).bind (fun m => arrMaskCopy (Arr.a2 xs) m (Arr.a2 es)) =
      if xs.map List.length = es.map List.length then some (Arr.a2 (overrideRows xs es)) else none := by
  rw [genAgentMask_a2]
  simp only [Option.bind]
  split
  · next h => exact gen_arrMaskCopy_a2 xs es h
  · next h => exact gen_arrMaskCopy_a2_mismatch xs es h

theorem C14_source_translation_plumbing_mask_copy_1d {α : Type} (xs : List α) (es : List (Option α))
    (h : xs.length = es.length) :
    (genAgentMask (Arr.a1 es)).bind (fun m => arrMaskCopy (Arr.a1 xs) m (Arr.a1 es)) = some (Arr.a1 (overrideRow xs es)) := by
  rw [genAgentMask_a1]
  exact gen_arrMaskCopy_a1 xs es h

/-- SOURCE (iii): `np.reshape(out, (n, E, -1))[i]` of `disassemble_homogeneous_outputs` is agent `i`'s own block of
    `E` rows of the group's agent-major batch -/
theorem C14_source_translation_plumbing_disassemble {β : Type} (x : List β) (n e i : Nat) (h0 : n * e ≠ 0)
    (hd : x.length % (n * e) = 0) :
    (npReshape3 (HOut.flat x) n e).bind (fun r => hoIdx r i) = ((disassembleGroup n e x)[i]?).map Arr.a2 := by
  rw [gen_npReshape3_eq x n e h0 hd]
  rfl

/-- masked arg-max stub for the concrete runs: first allowed index per row (`m` holds the MASKED entries) -/
def amaxStub (a : Arr Nat) (m : Arr Bool) : Option (Arr Nat) :=
  match a, m with
  | Arr.a2 rs, Arr.none => some (Arr.a1 (rs.map (fun _ => 0)))
  | Arr.a2 rs, Arr.a2 ms => some (Arr.a1 ((rs.zip ms).map (fun p => p.2.idxOf false)))
  | _, _ => none

def polStub : PyDict (Arr Nat) :=
  [("a", Arr.a2 [[5, 1], [5, 1]]), ("b", Arr.a2 [[5, 1], [5, 1]]), ("c", Arr.a2 [[5, 1], [5, 1]])]

/-- the same `infos` listed in the order b, c, a -/
def infosBCA : PyDict (Info Nat) := [infosAB[1]!, infosAB[2]!, infosAB[0]!]

/-- SOURCE: a whole run (MADDPG, discrete, two environment rows, `infos` in agent order and shuffled): agent `a`
    follows its own mask in both rows, agent `b` plays the env-defined action in row 0 only -/
theorem C14_source_translation_plumbing_run :
    (MADDPG.get_action_plumbing amaxStub [2, 2, 2] ["a", "b", "c"] true (some infosAB) polStub).map (fun r => r.2) =
      some (some [("a", Arr.a1 [0, 1]), ("b", Arr.a1 [1, 0]), ("c", Arr.a1 [0, 0])]) ∧
    MADDPG.get_action_plumbing amaxStub [2, 2, 2] ["a", "b", "c"] true (some infosBCA) polStub =
      MADDPG.get_action_plumbing amaxStub [2, 2, 2] ["a", "b", "c"] true (some infosAB) polStub ∧
    MATD3.get_action_plumbing amaxStub [2, 2, 2] ["a", "b", "c"] true (some infosBCA) polStub =
      MATD3.get_action_plumbing amaxStub [2, 2, 2] ["a", "b", "c"] true (some infosAB) polStub :=
  ⟨by decide, by decide, by decide⟩

/-- SOURCE (repaired code, commit 1022803): the presence test of `extract_agent_masks` — `key_in_nested_dict(infos,
    "env_defined_actions")` — is true iff SOME entry of `infos` is that key or is a dict holding it, for every `infos` -/
theorem C14_source_translation_plumbing_presence_iff {α : Type} (infos : PyDict (Info α)) (t : String) :
    key_in_nested_dict_0 infos t = some true ↔
      ∃ p ∈ infos, p.1 = t ∨ (p.2.isDict = true ∧ t ∈ p.2.keys) := by
  rw [gen_key_in_nested_dict_0_eq, Option.some.injEq, keyInNested_iff]
  unfold nestedView
  constructor
  · rintro ⟨q, hq, h⟩
    obtain ⟨p, hp, rfl⟩ := List.mem_map.mp hq
    refine ⟨p, hp, ?_⟩
    rcases h with h | ⟨ks, hk, h⟩
    · exact Or.inl h
    · cases hd : p.2.isDict
      · simp [hd] at hk
      · simp only [hd, if_true, Option.some.injEq] at hk
        exact Or.inr ⟨rfl, hk ▸ h⟩
  · rintro ⟨p, hp, h⟩
    refine ⟨_, List.mem_map_of_mem hp, ?_⟩
    rcases h with h | ⟨hd, h⟩
    · exact Or.inl h
    · exact Or.inr ⟨p.2.keys, by simp [hd], h⟩

/-- SOURCE (repaired code): the presence test is invariant under EVERY permutation of `infos` -/
theorem C14_source_translation_plumbing_presence_perm {α : Type} (infos infos' : PyDict (Info α)) (t : String)
    (hp : infos.Perm infos') : key_in_nested_dict_0 infos t = key_in_nested_dict_0 infos' t := by
  rw [gen_key_in_nested_dict_0_eq, gen_key_in_nested_dict_0_eq,
    keyInNested_perm _ _ t (show (nestedView infos).Perm (nestedView infos') from hp.map _)]

/-- SOURCE (repaired code): `extract_agent_masks` gives up (`(None, None)`: no env-defined action is played) whenever no
    info holds the key or every known agent's info is empty — and both conditions do not depend on the order of `infos` -/
theorem C14_source_translation_plumbing_absent_perm {α : Type} (dims : List Nat) (ids : List String) (disc : Bool)
    (infos infos' : PyDict (Info α)) (hp : infos.Perm infos')
    (h : keyInNested (nestedView infos) "env_defined_actions" = false ∨
      ((infos.filter (fun p => ids.contains p.1)).all (fun p => !p.2.truthy)) = true) :
    Base.extract_agent_masks dims ids disc infos = some (none, none) ∧
    Base.extract_agent_masks dims ids disc infos' = some (none, none) := by
  refine ⟨gen_extract_agent_masks_absent dims ids disc infos h, gen_extract_agent_masks_absent dims ids disc infos' ?_⟩
  rcases h with h | h
  · exact Or.inl (by rw [← keyInNested_perm _ _ _ (show (nestedView infos).Perm (nestedView infos') from hp.map _)]; exact h)
  · exact Or.inr (by rw [← (hp.filter _).all_eq]; exact h)

/-- `"a"` sends only a mask, `"b"` an env-defined action (one env row) -/
def infosMaskFirst : PyDict (Info Nat) :=
  [("a", mkInfo (some (Arr.a2 [[true, false]])) Arr.none ["action_mask"]),
   ("b", mkInfo none (Arr.a1 [some 1]) ["env_defined_actions"]),
   ("c", mkInfo none (Arr.a1 [none]) ["env_defined_actions"])]

/-- SOURCE (repaired code): the run on which the code AS FOUND dropped `b`'s env-defined action (`a`, which sends only a
    mask, listed first) now plays it, in both orders -/
theorem C14_source_translation_plumbing_env_defined_first_info_run :
    (MADDPG.get_action_plumbing amaxStub [2, 2, 2] ["a", "b", "c"] true (some infosMaskFirst)
        [("a", Arr.a2 [[5, 1]]), ("b", Arr.a2 [[5, 1]]), ("c", Arr.a2 [[5, 1]])]).map (fun r => r.2) =
      some (some [("a", Arr.a1 [0]), ("b", Arr.a1 [1]), ("c", Arr.a1 [0])]) ∧
    MADDPG.get_action_plumbing amaxStub [2, 2, 2] ["a", "b", "c"] true
        (some [infosMaskFirst[1]!, infosMaskFirst[0]!, infosMaskFirst[2]!])
        [("a", Arr.a2 [[5, 1]]), ("b", Arr.a2 [[5, 1]]), ("c", Arr.a2 [[5, 1]])] =
      MADDPG.get_action_plumbing amaxStub [2, 2, 2] ["a", "b", "c"] true (some infosMaskFirst)
        [("a", Arr.a2 [[5, 1]]), ("b", Arr.a2 [[5, 1]]), ("c", Arr.a2 [[5, 1]])] :=
  ⟨by decide, by decide⟩

/-- AS FOUND (finding C14-env-defined-actions-infos-order, repaired by commit 1022803; hand-written `keyInNestedAsFound`
    of Model/Action.lean): the helper returned the answer of the first dict-valued info, so the presence test — and with
    it whether ANY env-defined action was played — depended on the order of `infos`.  (Before the repair this witness was
    decided on the generated code itself.) -/
theorem C14_plumbing_env_defined_order_asfound_witness :
    ¬ (∀ (l l' : List (String × Option (List String))) (t : String), l.Perm l' →
        keyInNestedAsFound l t = keyInNestedAsFound l' t) := by
  intro h
  have := h [("a", some ["action_mask"]), ("b", some ["env_defined_actions"])]
    [("b", some ["env_defined_actions"]), ("a", some ["action_mask"])] "env_defined_actions" (List.Perm.swap _ _ _)
  revert this
  decide

/-- the repaired helper agrees with the as-found one whenever the first dict-valued info already holds the key (the
    as-found answer `true` was always right; only its `false` could be wrong) -/
theorem C14_plumbing_asfound_true_sound (l : List (String × Option (List String))) (t : String)
    (h : keyInNestedAsFound l t = true) : keyInNested l t = true := by
  induction l with
  | nil => simp [keyInNestedAsFound] at h
  | cons p l ih =>
    obtain ⟨k, v⟩ := p
    unfold keyInNestedAsFound at h
    unfold keyInNested
    simp only [List.any_cons, Bool.or_eq_true]
    by_cases hk : (k == t) = true
    · exact Or.inl (Or.inl hk)
    · simp only [hk] at h
      cases v with
      | some ks => exact Or.inl (Or.inr (by simpa using h))
      | none => exact Or.inr (by simpa [keyInNested] using ih (by simpa using h))

end Plumbing
end Action
