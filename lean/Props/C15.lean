import Proofs.ObsValue
import Proofs.ObsMulti
import Proofs.ObsGenEq
import Proofs.ObsValGenEq
import Proofs.ObsMaGenEq
import Mathlib.Tactic.Linarith
import Mathlib.Tactic.NormNum

/-!
# C15 — observation handling is value-correct and batch-, agent- and env-consistent

Model: `Model/Obs.lean` (`preprocess` = `preprocess_observation` on a leaf space, `preprocessAll` =
Dict/Tuple, `maybeAddBatchDim`, `getVectDim`, `normalize`, `assembleHomogeneous` /
`disassembleHomogeneous`, `stackCritic` / `stackCriticImg`).  Specification-level notions
(`Proofs/ObsPrep.lean`): `prepRow norm sp r` = the network input computed from ONE observation,
`ValidObs sp r` = `r` is a legal member of the space, `WellFormed sp` = the space is sane.

Every theorem quantifies over all spaces of its kind (all shapes, all `n`, all `nvec`, all bounds),
all batch sizes and all values.  The accepted leading shapes are exactly `batch.length ≤ 2`:
`[]` (unbatched), `[B]` (batched, incl. `B = 1`) and `[T, E]` ((step, env)); for Discrete the column
form `[B, 1]` is an instance of the latter.
-/
namespace Obs

/-- **Output shape.**  For every space kind (Box of every rank, Discrete incl. `n = 1`,
    MultiDiscrete, MultiBinary), with or without image normalisation, and every accepted input form
    — unbatched `[]`, batched `[B]`, batch-of-one `[1]`, (step, env) `[T, E]` — the input is accepted
    and the result is `[number of observations] ++ network input shape`, with exactly that much data. -/
theorem C15_output_shape (norm : Bool) (sp : Leaf) (hsp : WellFormed sp) (batch : List Nat)
    (hb : batch.length ≤ 2) (rows : List (List Rat)) (hv : ∀ r ∈ rows, ValidObs sp r) :
    ∃ d, preprocess norm sp ⟨batch ++ sp.obsShape, rows.flatten⟩ =
        .ok ⟨numel batch :: sp.netShape, d⟩ ∧ d.length = rows.length * numel sp.netShape := by
  refine ⟨_, preprocess_batch norm sp hsp batch hb rows hv, ?_⟩
  rw [length_flatten_const (numel sp.netShape)]
  · simp
  · intro y hy
    rw [List.mem_map] at hy
    obtain ⟨r, hr, rfl⟩ := hy
    exact prepRow_length norm sp hsp r (hv r hr)

/-- the number of observations in each accepted form -/
theorem C15_batch_sizes (B T E : Nat) :
    numel [] = 1 ∧ numel [B] = B ∧ numel [1] = 1 ∧ numel [T, E] = T * E := by
  simp [numel]

/-- inputs with fewer dimensions than the space, or more than two leading dimensions, are
    rejected (`ValueError`), never silently reshaped — Box without normalisation and MultiBinary -/
theorem C15_bad_rank_rejected (t : Tensor) (p lo hi n)
    (hbox : t.shape.length < p.length ∨ p.length + 2 < t.shape.length)
    (hmb : t.shape.length < 1 ∨ 3 < t.shape.length) :
    preprocess false (.box p lo hi) t = .error .rank ∧
    preprocess true (.multiBinary n) t = .error .rank := by
  constructor
  · cases p with
    | nil =>
      simp only [preprocess, preprocessWith, bind, Except.bind]
      rw [if_neg (by simp)]
      simp only [and_self, if_true]
      exact mabd_rank_error _ [1] (by simp at hbox ⊢; omega)
    | cons d ps =>
      simp only [preprocess, preprocessWith, bind, Except.bind]
      rw [if_neg (by simp)]
      simp only [reduceCtorEq, false_and, if_false]
      exact mabd_rank_error t (d :: ps) hbox
  · simp only [preprocess, preprocessWith]
    exact mabd_rank_error t [n] (by simpa using hmb)

/-- **One-hot values.**  The one-hot vector of `v < n` has length `n`, a `1` at position `v`, `0`
    everywhere else (so exactly one `1`). -/
theorem C15_onehot_value (n v : Nat) (hv : v < n) :
    (oneHotVec n v).length = n ∧
    (∀ i (h : i < (oneHotVec n v).length), (oneHotVec n v)[i] = if i = v then 1 else 0) ∧
    (oneHotVec n v).sum = 1 ∧
    oneHot n (v : Int) = some (oneHotVec n v) :=
  ⟨oneHotVec_length n v, fun i h => oneHotVec_getElem n v i h, oneHotVec_sum n v hv, by
    simp [oneHot, hv]⟩

/-- a batch of Discrete observations becomes, row by row, the matching one-hot vectors; values
    outside `[0, n)` are rejected -/
theorem C15_onehot_value_discrete (norm : Bool) (n : Nat) (hn : 0 < n) (vs : List Int)
    (hr : ∀ v ∈ vs, 0 ≤ v ∧ v < (n : Int)) :
    preprocess norm (.discrete n) ⟨[vs.length], vs.map (fun (v : Int) => (v : Rat))⟩ =
      .ok ⟨[vs.length, n], (vs.map (fun (v : Int) => oneHotVec n v.toNat)).flatten⟩ := by
  have h := preprocess_batch norm (.discrete n) hn [vs.length] (by simp)
    (vs.map (fun (v : Int) => [(v : Rat)]))
    (by
      intro r hr'
      rw [List.mem_map] at hr'
      obtain ⟨v, hv, rfl⟩ := hr'
      exact ⟨(v : Rat), rfl, by rw [toLong_intCast]; exact hr v hv⟩)
  have e1 : ∀ (l : List Int),
      (l.map (fun (v : Int) => [(v : Rat)])).flatten = l.map (fun (v : Int) => (v : Rat)) := by
    intro l
    induction l with
    | nil => rfl
    | cons a r ih => simp [ih]
  have e2 : ((vs.map (fun (v : Int) => [(v : Rat)])).map (prepRow norm (.discrete n))) =
      vs.map (fun (v : Int) => oneHotVec n v.toNat) := by
    rw [List.map_map]
    apply List.map_congr_left
    intro v _
    simp [prepRow, toLong_intCast]
  simpa [Leaf.obsShape, Leaf.netShape, numel, e1 vs, e2] using h

theorem C15_onehot_value_out_of_range (norm : Bool) (n : Nat) (v : Int) (hv : v < 0 ∨ (n : Int) ≤ v)
    (s : List Nat) : preprocess norm (.discrete n) ⟨s, [(v : Rat)]⟩ = .error .range := by
  have : oneHot n v = none := by
    unfold oneHot; rw [if_neg (by omega)]
  simp [preprocess, preprocessWith, prepDiscrete, oneHotAll, toLong_intCast, this, allOk, liftOpt, bind,
    Except.bind]

/-- MultiDiscrete: the network row is the concatenation of the one-hots of the components — the
    segment `[offset i, offset i + nvec[i])`, `offset i = nvec[0] + … + nvec[i-1]`, is exactly the
    one-hot of component `i`; the row has `Σ nvec` entries -/
theorem C15_onehot_value_multidiscrete (nv : List Nat) (r : List Rat) (hv : InRange nv r)
    (i : Nat) (hi : i < nv.length) (hr : i < r.length) :
    ((prepRow false (.multiDiscrete nv) r).drop (mdOffset nv i)).take nv[i] =
      oneHotVec nv[i] (toLong r[i]).toNat ∧
    (prepRow false (.multiDiscrete nv) r).length = nv.sum :=
  ⟨md_segment nv r hv i hi hr, zipOneHot_length nv r hv⟩

/-- **Row-wise.**  `preprocess (stack xs) = stack (map preprocess xs)`: preparing a batch of `N`
    observations gives the concatenation, row by row, of what preparing each observation on its own
    gives — for every space kind, with and without normalisation. -/
theorem C15_rowwise (norm : Bool) (sp : Leaf) (hsp : WellFormed sp) (xs : List (List Rat))
    (hv : ∀ x ∈ xs, ValidObs sp x) :
    (∀ x ∈ xs, preprocess norm sp ⟨sp.obsShape, x⟩ = .ok ⟨1 :: sp.netShape, prepRow norm sp x⟩) ∧
    preprocess norm sp ⟨xs.length :: sp.obsShape, xs.flatten⟩ =
      .ok ⟨xs.length :: sp.netShape, (xs.map (prepRow norm sp)).flatten⟩ := by
  constructor
  · intro x hx
    have := preprocess_batch norm sp hsp [] (by simp) [x] (by simpa using hv x hx)
    simpa [numel] using this
  · have := preprocess_batch norm sp hsp [xs.length] (by simp) xs hv
    simpa [numel] using this

/-- a (step, env)-shaped input `[T, E] ++ space.shape` is prepared exactly like the flattened batch
    of `T * E` observations -/
theorem C15_step_env (norm : Bool) (sp : Leaf) (hsp : WellFormed sp) (T E : Nat)
    (xs : List (List Rat)) (hv : ∀ x ∈ xs, ValidObs sp x) :
    preprocess norm sp ⟨T :: E :: sp.obsShape, xs.flatten⟩ =
      preprocess norm sp ⟨(T * E) :: sp.obsShape, xs.flatten⟩ := by
  have h1 := preprocess_batch norm sp hsp [T, E] (by simp) xs hv
  have h2 := preprocess_batch norm sp hsp [T * E] (by simp) xs hv
  simp only [List.cons_append, List.nil_append] at h1 h2
  rw [h1, h2]; simp [numel]

/-- **Normalisation.**  Min-max scaling maps `[low, high]` into `[0, 1]` (ends to ends, strictly
    monotone), and on a rank-3 Box with finite bounds the prepared batch is the scaled batch, image
    by image (`prepRow` = `normRow` with the space's bounds, element `i` scaled with bound `i`). -/
theorem C15_normalize_bounds (lo hi x : Rat) (h : lo < hi) (h1 : lo ≤ x) (h2 : x ≤ hi) :
    (0 ≤ normalize lo hi x ∧ normalize lo hi x ≤ 1) ∧ normalize lo hi lo = 0 ∧
    normalize lo hi hi = 1 ∧ ∀ y, x < y → normalize lo hi x < normalize lo hi y :=
  ⟨normalize_bounds lo hi x h h1 h2, normalize_lo lo hi, normalize_hi lo hi h,
   fun y hxy => normalize_strictMono lo hi x y h hxy⟩

theorem C15_normalize_rowwise (p : List Nat) (hp : p.length = 3) (l h : List Rat)
    (hsp : WellFormed (.box p (l.map some) (h.map some))) (xs : List (List Rat))
    (hv : ∀ x ∈ xs, x.length = numel p) :
    preprocess true (.box p (l.map some) (h.map some)) ⟨xs.length :: p, xs.flatten⟩ =
      .ok ⟨xs.length :: p, (xs.map (normRow l h)).flatten⟩ ∧
    ∀ x ∈ xs, ∀ i (hi : i < (normRow l h x).length) (h1 : i < l.length) (h2 : i < h.length)
      (h3 : i < x.length), (normRow l h x)[i] = normalize l[i] h[i] x[i] := by
  constructor
  · cases p with
    | nil => simp at hp
    | cons d ps =>
      have := (C15_rowwise true _ hsp xs hv).2
      have hl : allOk (l.map some) = some l := by
        simpa using allOk_map_some (fun x => some x) id l (by simp)
      have hh : allOk (h.map some) = some h := by
        simpa using allOk_map_some (fun x => some x) id h (by simp)
      have hP : prepRow true (.box (d :: ps) (l.map some) (h.map some)) = normRow l h := by
        funext r; simp only [prepRow]; rw [if_pos ⟨hp, trivial⟩]; simp [normData, hl, hh]
      simpa [Leaf.obsShape, Leaf.netShape, hP] using this
  · intro x _ i hi h1 h2 h3
    exact normRow_getElem l h x i hi h1 h2 h3

/-- with normalisation off, or a Box that is not rank 3, or an infinite bound: values pass unchanged -/
theorem C15_normalize_off (norm : Bool) (p : List Nat) (lo hi : List (Option Rat)) (r : List Rat)
    (h : norm = false ∨ p.length ≠ 3 ∨ allOk lo = none ∨ allOk hi = none) :
    prepRow norm (.box p lo hi) r = r := by
  simp only [prepRow]
  split
  · next hc =>
    rcases h with h | h | h | h
    · simp [h] at hc
    · exact absurd hc.1 h
    · simp [normData, h]
    · unfold normData; cases allOk lo <;> simp [h]
  · rfl

/-- **Vectorisation dimension.**  A batched observation is recognised as `N` environments, an
    unbatched one as 1 — for every space kind (incl. MultiBinary) — and this is the number of rows
    `preprocess` produces. -/
theorem C15_vect_dim (norm : Bool) (sp : Leaf) (hsp : WellFormed sp) (N : Nat) (xs : List (List Rat))
    (hv : ∀ x ∈ xs, ValidObs sp x) :
    getVectDim (N :: sp.obsShape) sp.obsShape = N ∧ getVectDim sp.obsShape sp.obsShape = 1 ∧
    (∃ d, preprocess norm sp ⟨N :: sp.obsShape, xs.flatten⟩ =
      .ok ⟨getVectDim (N :: sp.obsShape) sp.obsShape :: sp.netShape, d⟩) ∧
    (∃ d, preprocess norm sp ⟨sp.obsShape, xs.flatten⟩ =
      .ok ⟨getVectDim sp.obsShape sp.obsShape :: sp.netShape, d⟩) := by
  have a : getVectDim (N :: sp.obsShape) sp.obsShape = N := by simp [getVectDim]
  have b : getVectDim sp.obsShape sp.obsShape = 1 := by simp [getVectDim]
  refine ⟨a, b, ⟨(xs.map (prepRow norm sp)).flatten, ?_⟩, ⟨(xs.map (prepRow norm sp)).flatten, ?_⟩⟩
  · rw [a]
    have := preprocess_batch norm sp hsp [N] (by simp) xs hv
    simpa [numel] using this
  · rw [b]
    have := preprocess_batch norm sp hsp [] (by simp) xs hv
    simpa [numel] using this

/-- Dict / Tuple observations: the first member decides the vectorisation dimension -/
theorem C15_vect_dim_members (sp : Leaf) (s : List Nat) (rest : List (Leaf × List Nat)) :
    getVectDimAll ((sp, s) :: rest) = getVectDim s sp.obsShape := rfl

/-- **Dict / Tuple: member by member.**  The composite is accepted iff every member is, and the
    results are the members' own results, in order. -/
theorem C15_member_by_member (norm : Bool) :
    ∀ (ms : List (Leaf × Tensor)) (rs : List Tensor),
      preprocessAll norm ms = .ok rs ↔
        (ms.length = rs.length ∧
          ∀ i (h1 : i < ms.length) (h2 : i < rs.length), preprocess norm ms[i].1 ms[i].2 = .ok rs[i])
  | [], rs => by
    constructor
    · intro h
      simp only [preprocessAll, Except.ok.injEq] at h
      subst h; simp
    · intro ⟨h, _⟩
      have : rs = [] := List.length_eq_zero_iff.mp h.symm
      subst this; rfl
  | (sp, t) :: r, rs => by
    have ih := C15_member_by_member norm r
    simp only [preprocessAll, bind, Except.bind]
    constructor
    · intro h
      cases ha : preprocess norm sp t with
      | error e => rw [ha] at h; simp at h
      | ok a =>
        rw [ha] at h
        cases hb : preprocessAll norm r with
        | error e => rw [hb] at h; simp at h
        | ok b =>
          rw [hb] at h
          simp only [Except.ok.injEq] at h
          subst h
          obtain ⟨hl, hi⟩ := (ih b).mp hb
          refine ⟨by simp [hl], ?_⟩
          intro i h1 h2
          cases i with
          | zero => simpa using ha
          | succ j => simpa using hi j (by simpa using h1) (by simpa using h2)
    · intro ⟨hl, hi⟩
      cases rs with
      | nil => simp at hl
      | cons a b =>
        have h0 := hi 0 (by simp) (by simp)
        simp only [List.getElem_cons_zero] at h0
        have hb : preprocessAll norm r = .ok b := by
          apply (ih b).mpr
          refine ⟨by simpa using hl, ?_⟩
          intro i h1 h2
          have := hi (i + 1) (by simp; omega) (by simp; omega)
          simp only [List.getElem_cons_succ] at this
          exact this
        rw [h0, hb]

/-- **Shared policies: inverse pair.**  For every number of agents `A ≥ 1` and every per-agent
    output of `L ≥ 1` numbers (`L = envs × features`): disassembling the assembled batch gives every
    agent its own output back, and assembling the disassembled batch restores it. -/
theorem C15_disassemble_assemble {α} (L : Nat) (hL : 0 < L) :
    (∀ (xs : List (List α)), xs ≠ [] → (∀ x ∈ xs, x.length = L) →
      disassembleHomogeneous xs.length (assembleHomogeneous xs) = xs) ∧
    (∀ (A : Nat) (d : List α), 0 < A → d.length = A * L →
      assembleHomogeneous (disassembleHomogeneous A d) = d ∧
      (disassembleHomogeneous A d).length = A ∧ ∀ x ∈ disassembleHomogeneous A d, x.length = L) :=
  ⟨fun xs hne h => disassemble_assemble xs L hL hne h,
   fun A d hA hd => assemble_disassemble A L hA hL d hd⟩

/-- index map of the assembled batch: row `i * E + e` is row `e` (environment `e`) of agent `i` -/
theorem C15_assemble_index {α} (f E : Nat) (hf : 0 < f) (xs : List (List α))
    (h : ∀ x ∈ xs, x.length = E * f) (i e : Nat) (he : e < E) :
    (chunk f (assembleHomogeneous xs))[i * E + e]? = (xs[i]?).bind (fun x => (chunk f x)[e]?) := by
  rw [assemble_rows f E hf xs h]
  rw [flatten_getElem?_const E (xs.map (chunk f))
    (by
      intro y hy
      rw [List.mem_map] at hy
      obtain ⟨x, hx, rfl⟩ := hy
      exact (chunk_lengths f hf E x (h x hx)).1) i e he]
  simp [List.getElem?_map]
  cases xs[i]? <;> rfl

/-- **Consequently** (shared policy): whatever row-wise function `g` the shared network computes,
    routing the agents' observations through one assembled batch and disassembling the outputs gives
    every agent, for every environment, exactly `g` of its own rows — independent of how many other
    agents and environments share the call. -/
theorem C15_shared_policy_consistent {α β} (f E m : Nat) (hf : 0 < f) (hE : 0 < E) (hm : 0 < m)
    (g : List α → List β) (hg : ∀ r, r.length = f → (g r).length = m)
    (xs : List (List α)) (hne : xs ≠ []) (h : ∀ x ∈ xs, x.length = E * f) :
    disassembleHomogeneous xs.length (mapRows f g (assembleHomogeneous xs)) =
      xs.map (mapRows f g) := by
  rw [mapRows_assemble f E hf g xs h]
  have := disassemble_assemble (xs.map (mapRows f g)) (E * m) (Nat.mul_pos hE hm) (by simpa using hne)
    (by
      intro y hy
      rw [List.mem_map] at hy
      obtain ⟨x, hx, rfl⟩ := hy
      exact mapRows_length f E m hf g hg x (h x hx))
  simpa using this

/-- **Centralised critic.**  Row `b` of the stacked critic input is built from row `b` of every
    agent (vector observations: concatenation; images: `[C, A, H, W]` interleaving) — hence it does
    not depend on any other row of any agent. -/
theorem C15_stack_critic_rows (B : Nat) (ts : List (Tensor × Nat)) (hts : ts ≠ [])
    (h : ∀ td ∈ ts, 0 < td.2 ∧ td.1.data.length = B * td.2) (b : Nat) (hb : b < B) :
    ((stackCritic B ts).rows ((ts.map (·.2)).sum))[b]? =
      some ((ts.map (fun td => (td.1.rows td.2).getD b [])).flatten) ∧
    (stackCritic B ts).shape = [B, (ts.map (·.2)).sum] :=
  ⟨stackCritic_row B ts hts h b hb, rfl⟩

theorem C15_stack_critic_rows_image (B C H W : Nat) (ts : List Tensor) (hts : ts ≠ []) (hC : 0 < C)
    (hhw : 0 < H * W) (h : ∀ t ∈ ts, t.data.length = B * (C * (H * W))) (b : Nat) (hb : b < B) :
    ((stackCriticImg B C H W ts).rows (C * (ts.length * (H * W))))[b]? =
      some (stackImgRow C (H * W) (ts.map (fun t => (t.rows (C * (H * W))).getD b []))) ∧
    (stackCriticImg B C H W ts).shape = [B, C, ts.length, H, W] :=
  ⟨stackCriticImg_row B C H W ts hts hC hhw h b hb, rfl⟩

/-- two joint batches that agree on row `b` of every agent have the same critic row `b` -/
theorem C15_stack_critic_rows_independent (B B' : Nat) (ts ts' : List (Tensor × Nat))
    (hts : ts ≠ []) (hts' : ts' ≠ [])
    (h : ∀ td ∈ ts, 0 < td.2 ∧ td.1.data.length = B * td.2)
    (h' : ∀ td ∈ ts', 0 < td.2 ∧ td.1.data.length = B' * td.2)
    (b b' : Nat) (hb : b < B) (hb' : b' < B')
    (hrow : ts.map (fun td => (td.1.rows td.2).getD b []) =
            ts'.map (fun td => (td.1.rows td.2).getD b' [])) :
    ((stackCritic B ts).rows ((ts.map (·.2)).sum))[b]? =
      ((stackCritic B' ts').rows ((ts'.map (·.2)).sum))[b']? := by
  rw [stackCritic_row B ts hts h b hb, stackCritic_row B' ts' hts' h' b' hb', hrow]

/-- **Legacy behaviours (witnesses).**  The two analysed legacy behaviours violate the property on
    concrete inputs, the repaired model does not: (1) MultiDiscrete tested its first batch dimension
    against `Σ nvec` instead of `len nvec`, so a (step, env) input was rejected; (2) a scalar Box
    got no feature dimension, so a batch of two scalars had shape `[2]` instead of `[2, 1]`
    (networks are built with `flatdim = 1` input feature). -/
theorem C15_legacy_witness :
    preprocessLegacy true (.multiDiscrete [2, 3])
        ⟨[2, 3, 2], [1, 2, 0, 0, 1, 1, 1, 2, 0, 0, 1, 1]⟩ = .error .view ∧
    (preprocess true (.multiDiscrete [2, 3])
        ⟨[2, 3, 2], [1, 2, 0, 0, 1, 1, 1, 2, 0, 0, 1, 1]⟩).toOption.map (·.shape) = some [6, 5] ∧
    (preprocessLegacy true (.box [] [none] [none]) ⟨[2], [3, 4]⟩).toOption.map (·.shape) = some [2] ∧
    (preprocess true (.box [] [none] [none]) ⟨[2], [3, 4]⟩).toOption.map (·.shape) = some [2, 1] := by
  refine ⟨by decide, by decide, by decide, by decide⟩

/-! ### non-vacuity: the hypotheses are satisfiable on concrete, non-trivial inputs -/

example : WellFormed (.box [1, 2, 2] [some 0, some 0, some 0, some 0] [some 255, some 255, some 255, some 255]) := by
  simp [WellFormed, numel]
example : WellFormed (.discrete 1) ∧ WellFormed (.multiDiscrete [2, 3]) ∧ WellFormed (.multiBinary 3) := by
  simp [WellFormed]
example : ValidObs (.discrete 3) [2] := ⟨2, rfl, by decide, by decide⟩
example : ValidObs (.multiDiscrete [2, 3]) [1, 2] := by
  simp [ValidObs, InRange, toLong]
example : oneHotVec 3 2 = [0, 0, 1] := by decide
example : mdOffset [2, 3, 4] 2 = 5 := by decide
example : normalize 0 255 51 = 1 / 5 := by norm_num [normalize]
example : getVectDim [4, 3] [3] = 4 ∧ getVectDim [3] [3] = 1 := by decide
example : disassembleHomogeneous 3 (assembleHomogeneous [[1, 2], [3, 4], [5, 6]]) = [[1, 2], [3, 4], [5, 6]] := by
  decide
example : (maybeAddBatchDim ⟨[1, 1, 2, 2], []⟩ [1, 2, 2]).toOption.map (·.shape) = some [1, 1, 2, 2] := by
  decide
example : (maybeAddBatchDim ⟨[2, 3, 1], []⟩ []).toOption.map (·.shape) = none := by decide

end Obs

/-!
## C15 over the SOURCE TRANSLATION

`Gen/ObsGen.lean` is generated by `harness/py2lean_obs.py` from the source text of
`agilerl/utils/algo_utils.py` (`obs_channels_to_first`, `obs_to_tensor`, `maybe_add_batch_dim`, `get_vect_dim`,
`preprocess_observation`; the SHAPE logic: an observation is its container kind and shape, a space its kind,
parameters and children; values are cut) and regenerated by `harness/c15.py::pre_gate` on every run.
`Proofs/ObsGenEq.lean` proves the generated definitions equal to the shape projection of `Model/Obs.lean`; the
theorems below restate the shape theorems of C15 over the generated definitions, so they are re-checked
against what the code says now.
-/
namespace C15Src
open ObsGen ObsGenEq

/-- every generated definition equals the shape projection of the hand-written model function: for every
    container kind, every input shape (accepted or rejected), with and without normalisation -/
theorem C15_source_translation_equalities (fuel : Nat) (k : ArrKind) (norm : Bool) (sp : Obs.Leaf)
    (t : Obs.Tensor) (p : List Nat) :
    (k ≠ .number → maybe_add_batch_dim (.arr k t.shape) p = proj k (Obs.maybeAddBatchDim t p)) ∧
    get_vect_dim (fuel + 1) (.arr k t.shape) (ofLeaf sp) = .ok (Obs.getVectDim t.shape sp.obsShape) ∧
    obs_to_tensor (.arr k t.shape) = .ok (.arr .tensor t.shape) ∧
    ((∀ nv, sp = .multiDiscrete nv → nv ≠ []) → NoValueError (Obs.preprocess norm sp t) →
      preprocess_observation (fuel + 1) (.arr k t.shape) (ofLeaf sp) norm =
        proj .tensor (Obs.preprocess norm sp t)) :=
  ⟨fun hk => gen_maybe_add_batch_dim_eq k hk t p, gen_get_vect_dim_leaf_eq fuel k t.shape sp,
   gen_obs_to_tensor_arr k t.shape, fun h1 h2 => gen_preprocess_leaf_eq fuel k norm sp t h1 h2⟩

theorem wellFormed_md {sp : Obs.Leaf} (h : Obs.WellFormed sp) : ∀ nv, sp = .multiDiscrete nv → nv ≠ [] := by
  intro nv e; subst e; exact h.1

/-- **Output shape, over the generated code.**  For every space kind, every container (ndarray, tensor, Python
    number), with or without normalisation, and every accepted input form — unbatched `[]`, batched `[B]`,
    batch-of-one `[1]`, (step, env) `[T, E]` — the generated `preprocess_observation` accepts and returns a
    TENSOR of shape `[number of observations] ++ network input shape`: exactly one batch dimension in front. -/
theorem C15_source_translation_output_shape (fuel : Nat) (k : ArrKind) (norm : Bool) (sp : Obs.Leaf)
    (hsp : Obs.WellFormed sp) (batch : List Nat) (hb : batch.length ≤ 2) :
    preprocess_observation (fuel + 1) (.arr k (batch ++ sp.obsShape)) (ofLeaf sp) norm =
      .ok (.arr .tensor (Obs.numel batch :: sp.netShape)) := by
  have hm := Obs.preprocess_batch norm sp hsp batch hb [] (by simp)
  have := gen_preprocess_leaf_eq fuel k norm sp ⟨batch ++ sp.obsShape, [].flatten⟩ (wellFormed_md hsp)
    (noValueError_ok hm)
  rw [this, hm]; rfl

/-- **(step, env) inputs are flattened to `step * env` rows**, over the generated code: the input
    `[T, E] ++ space.shape` gives the same result as the flattened batch `[T * E] ++ space.shape`, namely
    `[T * E] ++ network shape`; at the level of `maybe_add_batch_dim`, for ndarray and tensor alike -/
theorem C15_source_translation_step_env (fuel : Nat) (k : ArrKind) (norm : Bool) (sp : Obs.Leaf)
    (hsp : Obs.WellFormed sp) (T E : Nat) (p : List Nat) (hp : 0 < Obs.numel p) :
    preprocess_observation (fuel + 1) (.arr k (T :: E :: sp.obsShape)) (ofLeaf sp) norm =
      preprocess_observation (fuel + 1) (.arr k ((T * E) :: sp.obsShape)) (ofLeaf sp) norm ∧
    preprocess_observation (fuel + 1) (.arr k (T :: E :: sp.obsShape)) (ofLeaf sp) norm =
      .ok (.arr .tensor ((T * E) :: sp.netShape)) ∧
    (k ≠ .number → maybe_add_batch_dim (.arr k (T :: E :: p)) p = .ok (.arr k ((T * E) :: p))) := by
  have h1 := C15_source_translation_output_shape fuel k norm sp hsp [T, E] (by simp)
  have h2 := C15_source_translation_output_shape fuel k norm sp hsp [T * E] (by simp)
  simp only [List.cons_append, List.nil_append, Obs.numel, Nat.mul_one] at h1 h2
  refine ⟨by rw [h1, h2], h1, fun hk => ?_⟩
  have := gen_maybe_add_batch_dim_eq k hk ⟨T :: E :: p, []⟩ p
  have hm := Obs.mabd_batch [T, E] p [] (by simp) hp
  simp only [List.cons_append, List.nil_append] at hm
  rw [this, hm]
  simp [proj, Obs.numel]

/-- **Batch size = `get_vect_dim`**, over the generated code: a batched observation is recognised as `N`
    environments, an unbatched one as 1 — for every space kind incl. MultiBinary and every container incl. a
    Python number — and this is the leading dimension `preprocess_observation` produces -/
theorem C15_source_translation_vect_dim (fuel : Nat) (k : ArrKind) (norm : Bool) (sp : Obs.Leaf)
    (hsp : Obs.WellFormed sp) (N : Nat) :
    get_vect_dim (fuel + 1) (.arr k (N :: sp.obsShape)) (ofLeaf sp) = .ok N ∧
    get_vect_dim (fuel + 1) (.arr k sp.obsShape) (ofLeaf sp) = .ok 1 ∧
    preprocess_observation (fuel + 1) (.arr k (N :: sp.obsShape)) (ofLeaf sp) norm =
      .ok (.arr .tensor (N :: sp.netShape)) ∧
    preprocess_observation (fuel + 1) (.arr k sp.obsShape) (ofLeaf sp) norm =
      .ok (.arr .tensor (1 :: sp.netShape)) := by
  have v := Obs.C15_vect_dim norm sp hsp N [] (by simp)
  have h1 := C15_source_translation_output_shape fuel k norm sp hsp [N] (by simp)
  have h2 := C15_source_translation_output_shape fuel k norm sp hsp [] (by simp)
  simp only [List.cons_append, List.nil_append, Obs.numel, Nat.mul_one] at h1 h2
  refine ⟨?_, ?_, h1, h2⟩
  · rw [gen_get_vect_dim_leaf_eq, v.1]
  · rw [gen_get_vect_dim_leaf_eq, v.2.1]

/-- Dict / Tuple observations: the generated `get_vect_dim` looks at the FIRST item of the observation, paired
    with the space member of the same key (Dict) / at member 0 (Tuple) -/
theorem C15_source_translation_vect_dim_members (fuel : Nat) (td : Bool) (key : String) (k : ArrKind)
    (s : List Nat) (rest : List (String × ObsGen.Obs)) (members : List (String × Space)) (sp : Obs.Leaf)
    (hkey : pyLookup key members = .ok (ofLeaf sp)) (trest : List ObsGen.Obs) (ms : List Space)
    (more : List (Obs.Leaf × List Nat)) :
    get_vect_dim (fuel + 2) (.dict td ((key, .arr k s) :: rest)) (.dict members) =
      .ok (Obs.getVectDimAll ((sp, s) :: more)) ∧
    get_vect_dim (fuel + 2) (.tuple (.arr k s :: trest)) (.tuple (ofLeaf sp :: ms)) =
      .ok (Obs.getVectDimAll ((sp, s) :: more)) :=
  ⟨gen_get_vect_dim_dict_eq fuel td key k s rest members sp hkey more,
   gen_get_vect_dim_tuple_eq fuel k s trest ms sp more⟩

theorem mabd_noValueError (t : Obs.Tensor) (p : List Nat) : NoValueError (Obs.maybeAddBatchDim t p) := by
  unfold Obs.maybeAddBatchDim
  constructor <;> (repeat' split) <;> simp

/-- a Box with infinite bounds is never a value error: the model is `maybeAddBatchDim` of the shape -/
theorem box_inf (norm : Bool) (p : List Nat) (t : Obs.Tensor) :
    Obs.preprocess norm (.box p [none] [none]) t =
      (if p = [] then Obs.maybeAddBatchDim ⟨t.shape ++ [1], t.data⟩ [1] else Obs.maybeAddBatchDim t p) := by
  have ha : Obs.applyNorm p [none] [none] t = .ok t := by simp [Obs.applyNorm, Obs.allSomeR, Obs.allOk]
  simp only [Obs.preprocess, Obs.preprocessWith, ha, ite_self, bind, Except.bind]
  by_cases hp : p = [] <;> simp [hp]

/-- **Wrong ranks are rejected, never silently reshaped**, over the generated code: fewer dimensions than the
    space, or more than two leading dimensions, end in the `ValueError` of `maybe_add_batch_dim` — Box (with or
    without normalisation) and MultiBinary, every container kind -/
theorem C15_source_translation_bad_rank_rejected (fuel : Nat) (k : ArrKind) (norm : Bool) (s p : List Nat)
    (n : Nat) (hp : p ≠ [])
    (hbox : s.length < p.length ∨ p.length + 2 < s.length) (hmb : s.length < 1 ∨ 3 < s.length) :
    preprocess_observation (fuel + 1) (.arr k s) (.box p) norm = .error (.raised "ValueError") ∧
    preprocess_observation (fuel + 1) (.arr k s) (.multiBinary n) norm = .error (.raised "ValueError") := by
  constructor
  · have hm : Obs.preprocess norm (.box p [none] [none]) ⟨s, []⟩ = .error .rank := by
      rw [box_inf, if_neg hp]; exact Obs.mabd_rank_error _ p hbox
    have := gen_preprocess_box_eq fuel k norm p [none] [none] ⟨s, []⟩ (noValueError_rank hm)
    rw [this, hm]; rfl
  · have hm : Obs.preprocess norm (.multiBinary n) ⟨s, []⟩ = .error .rank := by
      simp only [Obs.preprocess, Obs.preprocessWith]
      exact Obs.mabd_rank_error _ [n] (by simpa using hmb)
    have := gen_preprocess_multiBinary_eq fuel k norm n ⟨s, []⟩
    rw [this, hm]; rfl

/-- **Exactly one batch dimension, whatever the input**, over the generated code: for a Box or MultiBinary
    space and ANY input shape, if `preprocess_observation` answers at all, the answer is a tensor whose rank is
    the network input rank + 1 and which has as many elements as the input — nothing is dropped, padded or
    broadcast -/
theorem C15_source_translation_one_batch_dim (fuel : Nat) (k : ArrKind) (norm : Bool) (s : List Nat)
    (sp : Obs.Leaf) (hsp : (∃ p lo hi, sp = .box p lo hi) ∨ ∃ n, sp = .multiBinary n) (o : ObsGen.Obs)
    (h : preprocess_observation (fuel + 1) (.arr k s) (ofLeaf sp) norm = .ok o) :
    ∃ s', o = .arr .tensor s' ∧ s'.length = sp.netShape.length + 1 ∧ Obs.numel s' = Obs.numel s := by
  rcases hsp with ⟨p, lo, hi, rfl⟩ | ⟨n, rfl⟩
  · have hg := gen_preprocess_box_eq fuel k norm p [none] [none] ⟨s, []⟩
      (by rw [box_inf]; split <;> exact mabd_noValueError _ _)
    simp only [ofLeaf] at h
    rw [h, box_inf] at hg
    by_cases hp : p = []
    · subst hp
      rw [if_pos rfl] at hg
      cases hm : Obs.maybeAddBatchDim ⟨s ++ [1], []⟩ [1] with
      | error e => rw [hm] at hg; cases hg
      | ok t1 =>
        rw [hm] at hg
        obtain ⟨h1, h2⟩ := mabd_ok_rank _ t1 _ hm
        refine ⟨t1.shape, by injection hg, by simpa [Obs.Leaf.netShape] using h1, ?_⟩
        rw [h2, Obs.numel_append]; simp [Obs.numel]
    · rw [if_neg hp] at hg
      cases hm : Obs.maybeAddBatchDim ⟨s, []⟩ p with
      | error e => rw [hm] at hg; cases hg
      | ok t1 =>
        rw [hm] at hg
        obtain ⟨h1, h2⟩ := mabd_ok_rank _ t1 _ hm
        refine ⟨t1.shape, by injection hg, ?_, h2⟩
        cases p with
        | nil => exact absurd rfl hp
        | cons d r => simpa [Obs.Leaf.netShape] using h1
  · have hg := gen_preprocess_multiBinary_eq fuel k norm n ⟨s, []⟩
    simp only [ofLeaf] at h
    rw [h] at hg
    simp only [Obs.preprocess, Obs.preprocessWith] at hg
    cases hm : Obs.maybeAddBatchDim ⟨s, []⟩ [n] with
    | error e => rw [hm] at hg; cases hg
    | ok t1 =>
      rw [hm] at hg
      obtain ⟨h1, h2⟩ := mabd_ok_rank _ t1 _ hm
      exact ⟨t1.shape, by injection hg, by simpa [Obs.Leaf.netShape] using h1, h2⟩

/-- **Dict / Tuple: member by member**, over the generated code: a Dict observation (a `dict` or a TensorDict)
    is prepared item by item, each item with the space member of ITS key, in the observation's order; a Tuple
    observation position by position; the result is the model's `preprocessAll` (the composite is accepted iff
    every member is — `C15_member_by_member` — and the first failure wins) -/
theorem C15_source_translation_member_by_member (fuel : Nat) (td : Bool) (norm : Bool)
    (members : List (String × Space)) (ms : List Member)
    (hkeys : ∀ m ∈ ms, pyLookup m.1 members = .ok (ofLeaf m.2.2.1)) (hok : MembersOk norm ms) :
    preprocess_observation (fuel + 2) (.dict td (ms.map Member.item)) (.dict members) norm =
      projAll (fun os => .dict false (List.zip (ms.map (·.1)) os))
        (Obs.preprocessAll norm (ms.map Member.model)) ∧
    preprocess_observation (fuel + 2) (.tuple (ms.map (fun m => (Member.item m).2)))
        (.tuple (ms.map (fun m => ofLeaf m.2.2.1))) norm =
      projAll (fun os => .tuple os) (Obs.preprocessAll norm (ms.map Member.model)) :=
  ⟨gen_preprocess_dict_eq fuel td norm members ms hkeys hok, gen_preprocess_tuple_eq fuel norm ms hok⟩

/-- **Conversion and channel order**, over the generated code: `obs_to_tensor` turns an ndarray, a tensor or a
    Python number into a tensor of the SAME shape; `obs_channels_to_first` moves the last axis of a rank-3 /
    rank-4 ndarray in front of the two spatial axes (a batch stays a batch), leaves other ranks alone and
    rejects anything that is not an ndarray or dict -/
theorem C15_source_translation_conversion (fuel : Nat) (k : ArrKind) (s : List Nat) (H W C B : Nat) :
    obs_to_tensor (.arr k s) = .ok (.arr .tensor s) ∧
    obs_channels_to_first (fuel + 1) (.arr .ndarray [H, W, C]) false = .ok (.arr .ndarray [C, H, W]) ∧
    obs_channels_to_first (fuel + 1) (.arr .ndarray [B, H, W, C]) false = .ok (.arr .ndarray [B, C, H, W]) ∧
    obs_channels_to_first (fuel + 1) (.arr .ndarray [H, W, C]) true = .ok (.arr .ndarray [1, C, H, W]) ∧
    obs_channels_to_first (fuel + 1) (.arr .tensor s) false = .error (.raised "TypeError") :=
  ⟨gen_obs_to_tensor_arr k s, (gen_channels_first_image fuel H W C B).1, (gen_channels_first_image fuel H W C B).2.1,
   (gen_channels_first_image fuel H W C B).2.2, (gen_channels_first_type_error fuel s false).1⟩

/-! non-vacuity of the hypotheses over the generated definitions -/
example : preprocess_observation 1 (.arr .ndarray [2, 3, 2]) (.multiDiscrete [2, 3]) true =
    .ok (.arr .tensor [6, 5]) := by rfl
example : preprocess_observation 1 (.arr .number []) (.box []) true = .ok (.arr .tensor [1, 1]) := by rfl
example : preprocess_observation 1 (.arr .tensor [2, 2, 2, 2]) (.box [2]) false =
    .error (.raised "ValueError") := by rfl
example : get_vect_dim 2 (.dict false [("pos", .arr .ndarray [7, 2]), ("lane", .arr .ndarray [7])])
    (.dict [("lane", .discrete 3), ("pos", .box [2])]) = .ok 7 := by rfl

end C15Src

/-!
## C15 with VALUES over the source translation (`Gen/ObsValGen.lean`)

`harness/py2lean_obsval.py` translates `maybe_add_batch_dim`, `apply_image_normalization`, the leaf chain of
`preprocess_observation` (per space class) and the multi-agent routing functions `get_homo_id`, `_agent_position`,
`assemble_/disassemble_homogeneous_outputs`, `stack_critic_observations` WITH values: a float is an exact rational or
an IEEE special, so a division by zero in the source is visible.  `Proofs/ObsValGenEq.lean` proves the generated
definitions equal to the model (`applyNormV true` is the repaired normalisation, `normalizeFound` the division as
found).  Below: the model-level value theorems for both variants, then the restatements over the generated code.
-/
namespace Obs

/-- **Normalisation, repaired code, FULL statement (no `low ≠ high` guard).**  For finite bounds `lo ≤ hi`, every
    `x ∈ [lo, hi]` maps into `[0, 1]`; `lo ↦ 0`; `hi ↦ 1` when `lo < hi`; an element whose bounds coincide maps to `0`;
    monotone.  The result is a rational: always finite. -/
theorem C15_normalize_fixed_bounds (lo hi x : Rat) (h : lo ≤ hi) (h1 : lo ≤ x) (h2 : x ≤ hi) :
    (0 ≤ normalizeFixed lo hi x ∧ normalizeFixed lo hi x ≤ 1) ∧ normalizeFixed lo hi lo = 0 ∧
    (lo < hi → normalizeFixed lo hi hi = 1) ∧ (lo = hi → normalizeFixed lo hi x = 0) ∧
    ∀ y, x ≤ y → normalizeFixed lo hi x ≤ normalizeFixed lo hi y := by
  have hs : 0 < scaleOf lo hi := by
    unfold scaleOf
    by_cases he : hi - lo = 0
    · simp [he]
    · rw [if_neg he]
      rcases lt_or_eq_of_le h with hl | hl
      · linarith
      · exact absurd (by rw [hl]; exact sub_self hi) he
  have hle : x - lo ≤ scaleOf lo hi := by
    unfold scaleOf
    by_cases he : hi - lo = 0
    · rw [if_pos he]; linarith
    · rw [if_neg he]; linarith
  refine ⟨⟨div_nonneg (by linarith) hs.le, (div_le_one hs).mpr hle⟩, by simp [normalizeFixed], ?_, ?_, ?_⟩
  · intro hl
    have : hi - lo ≠ 0 := by intro h0; linarith
    simp only [normalizeFixed, scaleOf, if_neg this]
    exact div_self this
  · intro he
    have : x = lo := le_antisymm (by rw [he]; exact h2) h1
    simp [normalizeFixed, this]
  · intro y hy
    exact div_le_div_of_nonneg_right (by linarith) hs.le

/-- under the guard the repaired scaling, the scaling as found and the guarded model `normalize` coincide -/
theorem C15_normalize_variants_agree (lo hi x : Rat) (hg : hi - lo ≠ 0) :
    normalizeFixed lo hi x = normalize lo hi x ∧ normalizeV true lo hi x = .fin (normalize lo hi x) ∧
    normalizeV false lo hi x = .fin (normalize lo hi x) := by
  simp [normalizeFixed, normalize, normalizeV, normalizeFound, scaleOf, hg]

/-- **As found (witness).**  Without the guard the code as found was not value-correct: the legal observation `0` of
    a pixel with bounds `[0, 0]` became `nan`, an out-of-range `3` became `+inf`; the repaired code gives `0`
    (finding `C15-normalize-degenerate-bound`, repaired in /repo). -/
theorem C15_normalize_found_witness :
    normalizeV false 0 0 0 = .nan ∧ normalizeV false 0 0 3 = .pinf ∧ normalizeV true 0 0 0 = .fin 0 ∧
    ¬ (∃ q, normalizeV false 0 0 0 = .fin q) := by
  have e : normalizeV false 0 0 0 = .nan := by norm_num [normalizeV, normalizeFound]
  refine ⟨e, by norm_num [normalizeV, normalizeFound], by norm_num [normalizeV, normalizeFixed], ?_⟩
  rintro ⟨q, hq⟩
  rw [e] at hq; cases hq

theorem normRowV_getElem (rep : Bool) (l h r : List Rat) (i : Nat) (hi : i < (normRowV rep l h r).length)
    (h1 : i < l.length) (h2 : i < h.length) (h3 : i < r.length) :
    (normRowV rep l h r)[i] = normalizeV rep l[i] h[i] r[i] := by
  simp [normRowV]

/-- **Batching commutes (row-wise), both variants.**  With finite bounds a batch (any leading shape) is scaled image by
    image with the same bounds: element `i` of every row with `lo[i]`, `hi[i]` -/
theorem C15_normalize_v_rowwise (rep : Bool) (p : List Nat) (hp : 0 < numel p) (l h : List Rat)
    (hl : l.length = numel p) (hh : h.length = numel p) (batch : List Nat) (rows : List (List Rat))
    (hv : ∀ r ∈ rows, r.length = numel p) :
    applyNormV rep p (l.map some) (h.map some) ⟨batch ++ p, rows.flatten⟩ =
      .ok (batch ++ p, (rows.map (normRowV rep l h)).flatten) := by
  have e1 : allOk (l.map some) = some l := by simpa using allOk_map_some (fun x => some x) id l (by simp)
  have e2 : allOk (h.map some) = some h := by simpa using allOk_map_some (fun x => some x) id h (by simp)
  simp only [applyNormV, allSomeR, e1, e2, endsWith_append, chunk_flatten _ hp rows hv]
  rw [if_neg (by simp; omega)]

end Obs

namespace C15ValSrc
open ObsValGen ObsValGenEq

/-- every generated VALUE definition equals the hand-written model function -/
theorem C15_source_translation_value_equalities (nd isT : Bool) (s p : List Nat) (d dm : List Rat)
    (lo hi : List (Option Rat)) (hp : 0 < Obs.numel p) (hlo : lo.length = Obs.numel p)
    (hhi : hi.length = Obs.numel p) (batch : List Nat) (rows : List (List Rat))
    (hv : ∀ r ∈ rows, r.length = Obs.numel p) (n : Nat) (a : String) (ids : List String) :
    maybe_add_batch_dim nd ⟨s, d⟩ p = projShape d (Obs.maybeAddBatchDim ⟨s, dm⟩ p) ∧
    apply_image_normalization isT (tX ⟨batch ++ p, rows.flatten⟩) (boxOf p lo hi) =
      projV (Obs.applyNormV true p lo hi ⟨batch ++ p, rows.flatten⟩) ∧
    (do let t ← tLong (tX ⟨s, d⟩); let o ← fOneHot t n; pure (tFloat o) : M (T X)) =
      (match Obs.oneHotAll n d with
       | some r => .ok ⟨s ++ [n], r.map X.fin⟩
       | none => .error .onehot) ∧
    get_homo_id a = .ok (Obs.homoId a) ∧ _agent_position ids a = .ok (Obs.agentPosition ids a) :=
  ⟨gen_maybe_add_batch_dim_eq nd s d dm p,
   gen_apply_image_normalization_eq isT p lo hi hp hlo hhi batch rows hv,
   gen_one_hot_eq n s d, gen_get_homo_id_eq a, gen_agent_position_eq ids a⟩

theorem normRowV_fin (l h r : List Rat) : ∀ y ∈ Obs.normRowV true l h r, ∃ q, y = .fin q := by
  intro y hy
  simp only [Obs.normRowV, List.mem_iff_getElem] at hy
  obtain ⟨i, hi, rfl⟩ := hy
  simp [Obs.normalizeV]

/-- **Normalisation over the generated code (the repaired source), full statement.**  For a rank-anything Box with
    FINITE bounds (no guard `low ≠ high`), a batch of any leading shape is accepted, keeps its shape, is scaled image by
    image (`normRowV true`: element `i` with `low[i]`, `high[i]`, a zero scale replaced by one), and EVERY element of the
    result is finite. -/
theorem C15_source_translation_normalize (isT : Bool) (p : List Nat) (hp : 0 < Obs.numel p) (l h : List Rat)
    (hl : l.length = Obs.numel p) (hh : h.length = Obs.numel p) (batch : List Nat) (rows : List (List Rat))
    (hv : ∀ r ∈ rows, r.length = Obs.numel p) :
    apply_image_normalization isT (tX ⟨batch ++ p, rows.flatten⟩) (boxOf p (l.map some) (h.map some)) =
      .ok ⟨batch ++ p, ((rows.map (Obs.normRowV true l h)).flatten).map toX⟩ ∧
    ∀ y ∈ ((rows.map (Obs.normRowV true l h)).flatten).map toX, ∃ q, y = X.fin q := by
  constructor
  · rw [gen_apply_image_normalization_eq isT p _ _ hp (by simpa using hl) (by simpa using hh) batch rows hv,
      Obs.C15_normalize_v_rowwise true p hp l h hl hh batch rows hv]
    rfl
  · intro y hy
    simp only [List.mem_map, List.mem_flatten] at hy
    obtain ⟨z, ⟨row, ⟨r, _, rfl⟩, hz⟩, rfl⟩ := hy
    obtain ⟨q, rfl⟩ := normRowV_fin l h r z hz
    exact ⟨q, rfl⟩

/-- element `i` of a scaled image is `normalizeFixed low[i] high[i] x[i]` — in `[0, 1]` for `x[i]` within the bounds,
    `0` where the bounds coincide (`Obs.C15_normalize_fixed_bounds`) -/
theorem C15_source_translation_normalize_element (l h r : List Rat) (i : Nat)
    (hi : i < (Obs.normRowV true l h r).length) (h1 : i < l.length) (h2 : i < h.length) (h3 : i < r.length)
    (hb : l[i] ≤ h[i]) (hx1 : l[i] ≤ r[i]) (hx2 : r[i] ≤ h[i]) :
    ∃ q, toX (Obs.normRowV true l h r)[i] = X.fin q ∧ 0 ≤ q ∧ q ≤ 1 ∧ (l[i] = h[i] → q = 0) := by
  refine ⟨Obs.normalizeFixed l[i] h[i] r[i], ?_, ?_⟩
  · rw [Obs.normRowV_getElem true l h r i hi h1 h2 h3]; simp [Obs.normalizeV, toX]
  · have := Obs.C15_normalize_fixed_bounds l[i] h[i] r[i] hb hx1 hx2
    exact ⟨this.1.1, this.1.2, this.2.2.2.1⟩

/-- **Call condition over the generated code**: `preprocess_observation` scales a Box exactly when its rank is 3 AND
    `normalize_images` is on; a rank-4 (or rank-2) Box, or normalisation off, only gets its batch dimension -/
theorem C15_source_translation_normalize_call_condition (t : T X) (sp : Box) (norm : Bool) (hp : sp.shape ≠ []) :
    (sp.shape.length ≠ 3 ∨ norm = false →
      preprocess_observation_Box t sp norm = maybe_add_batch_dim false t sp.shape) ∧
    (sp.shape.length = 3 → preprocess_observation_Box t sp true =
      (match apply_image_normalization true t sp with
       | .ok o => maybe_add_batch_dim false o sp.shape
       | .error e => .error e)) := by
  constructor
  · intro h
    rw [gen_preprocess_box_eq t sp norm hp, if_neg]
    rintro ⟨h3, hn⟩
    rcases h with h | h
    · exact h h3
    · rw [h] at hn; cases hn
  · intro h3
    rw [gen_preprocess_box_eq t sp true hp, if_pos ⟨h3, rfl⟩]
    cases apply_image_normalization true t sp <;> rfl

/-- **Bypasses over the generated code**: `+inf` anywhere in `high`, or `-inf` anywhere in `low`, returns the
    observation unchanged (which infinity is looked for in which bound flows from the source) -/
theorem C15_source_translation_normalize_bypass (isT : Bool) (p : List Nat) (lo hi : List (Option Rat))
    (hp : 0 < Obs.numel p) (hlo : lo.length = Obs.numel p) (hhi : hi.length = Obs.numel p)
    (batch : List Nat) (rows : List (List Rat)) (hv : ∀ r ∈ rows, r.length = Obs.numel p)
    (hinf : Obs.allOk lo = none ∨ Obs.allOk hi = none) :
    apply_image_normalization isT (tX ⟨batch ++ p, rows.flatten⟩) (boxOf p lo hi) =
      .ok (tX ⟨batch ++ p, rows.flatten⟩) := by
  rw [gen_apply_image_normalization_eq isT p lo hi hp hlo hhi batch rows hv]
  have : Obs.applyNormV true p lo hi ⟨batch ++ p, rows.flatten⟩ =
      .ok (batch ++ p, rows.flatten.map .fin) := by
    unfold Obs.applyNormV Obs.allSomeR
    rcases hinf with h | h
    · rw [h]
    · rw [h]; cases Obs.allOk lo <;> rfl
  rw [this]
  simp [projV, tX, List.map_map, Function.comp_def, toX]

/-- **As found, over the IEEE arithmetic of the generated code**: the expression `(x - low) / (high - low)` of the
    source before the repair gives `nan` for the legal value of a pixel whose bounds coincide -/
theorem C15_source_translation_normalize_found_witness :
    X.div (X.sub (X.fin 0) (X.fin 0)) (X.sub (X.fin 0) (X.fin 0)) = X.nan ∧
    ∀ l h x : Rat, X.div (X.sub (X.fin x) (X.fin l)) (X.sub (X.fin h) (X.fin l)) = toX (Obs.normalizeFound l h x) :=
  ⟨by simp [X.sub, X.div], elem_found⟩

/-- **One-hot values over the generated code**: `F.one_hot(x.long(), n).float()` of in-range integer values is, value
    by value, the one-hot vector (a `1` at the value's position); a value outside `[0, n)` is an error (torch raises) -/
theorem C15_source_translation_onehot (n : Nat) (s : List Nat) (vs : List Int) :
    ((∀ v ∈ vs, 0 ≤ v ∧ v < (n : Int)) →
      (do let t ← tLong (tX ⟨s, vs.map (fun (v : Int) => (v : Rat))⟩); let o ← fOneHot t n; pure (tFloat o) : M (T X)) =
        .ok ⟨s ++ [n], ((vs.map (fun (v : Int) => Obs.oneHotVec n v.toNat)).flatten).map X.fin⟩) ∧
    ((∃ v ∈ vs, v < 0 ∨ (n : Int) ≤ v) →
      (do let t ← tLong (tX ⟨s, vs.map (fun (v : Int) => (v : Rat))⟩); let o ← fOneHot t n; pure (tFloat o) : M (T X)) =
        .error .onehot) := by
  have key : Obs.oneHotAll n (vs.map (fun (v : Int) => (v : Rat))) =
      (Obs.allOk (vs.map (Obs.oneHot n))).map List.flatten := by
    simp [Obs.oneHotAll, List.map_map, Function.comp_def, Obs.toLong_intCast]
  constructor
  · intro hr
    rw [gen_one_hot_eq, key]
    have : Obs.allOk (vs.map (Obs.oneHot n)) = some (vs.map (fun (v : Int) => Obs.oneHotVec n v.toNat)) :=
      Obs.allOk_map_some _ _ vs (by intro v hv; simp [Obs.oneHot, hr v hv])
    rw [this]; rfl
  · rintro ⟨v, hv, hbad⟩
    rw [gen_one_hot_eq, key]
    have : Obs.allOk (vs.map (Obs.oneHot n)) = none := by
      clear key
      induction vs with
      | nil => cases hv
      | cons a r ih =>
        simp only [List.map_cons]
        rcases List.mem_cons.mp hv with rfl | hm
        · have : Obs.oneHot n v = none := by unfold Obs.oneHot; rw [if_neg (by omega)]
          simp [this, Obs.allOk]
        · cases h : Obs.oneHot n a <;> simp [Obs.allOk, ih hm]
    rw [this]; rfl

/-- **Batch dimension with values**: `maybe_add_batch_dim` (ndarray and tensor branch alike) never touches the data -/
theorem C15_source_translation_batch_dim_values {α} (nd : Bool) (s p : List Nat) (d : List α) (t : T α)
    (h : maybe_add_batch_dim nd ⟨s, d⟩ p = .ok t) :
    t.data = d ∧ ∃ t', Obs.maybeAddBatchDim ⟨s, []⟩ p = .ok t' ∧ t.shape = t'.shape := by
  rw [gen_maybe_add_batch_dim_eq nd s d [] p] at h
  cases hm : Obs.maybeAddBatchDim ⟨s, []⟩ p with
  | error e => rw [hm] at h; cases e <;> cases h
  | ok t' => rw [hm] at h; cases h; exact ⟨rfl, t', rfl, rfl⟩

/-- **Agent ids**: the group of an agent is its id without the last `_` field (an id without `_` is its own group);
    positions follow `agent_ids`, unknown ids last — so `drone_10` belongs to `drone` and sits at ITS index, not at
    its lexicographic place -/
theorem C15_source_translation_agent_ids (ids : List String) (a : String) :
    get_homo_id a = .ok (Obs.homoId a) ∧ _agent_position ids a = .ok (Obs.agentPosition ids a) ∧
    (a ∉ ids → _agent_position ids a = .ok ids.length) ∧
    (∀ i (hi : i < ids.length), ids.Nodup → _agent_position ids ids[i] = .ok i) := by
  refine ⟨gen_get_homo_id_eq a, gen_agent_position_eq ids a, ?_, ?_⟩
  · intro hn
    rw [gen_agent_position_eq]
    have : ids.findIdx? (· == a) = none := by
      rw [List.findIdx?_eq_none_iff]; intro x hx; simp; rintro rfl; exact hn hx
    simp [Obs.agentPosition, this]
  · intro i hi hnd
    rw [gen_agent_position_eq]
    have : ids.findIdx? (· == ids[i]) = some i := by
      rw [List.findIdx?_eq_some_iff_getElem]
      refine ⟨hi, by simp, ?_⟩
      intro j hj
      have := List.pairwise_iff_getElem.mp hnd j i (by omega) hi hj
      simpa using this
    simp [Obs.agentPosition, this]

/-- **Shared policy: assemble then disassemble over the generated numeric core.**  `np.stack` + `reshape(A·E, -1)` of
    the agents' outputs followed by `reshape(A, E, -1)[i]` gives agent `i` exactly its own output back, for every
    number of agents, environments and features -/
theorem C15_source_translation_shared_policy_inverse {α} (sh : List Nat) (xs : List (List α)) (hne : xs ≠ [])
    (E w : Nat) (hE : 0 < E) (hw : 0 < w) (hlen : ∀ x ∈ xs, x.length = E * w) (t : T α)
    (h : (do let st ← npStack (xs.map (fun x => (⟨sh, x⟩ : T α))) 0
             npReshape st [some (xs.length * E), none] : M (T α)) = .ok t) (i : Nat) (hi : i < xs.length) :
    t.data = Obs.assembleHomogeneous xs ∧
    (do let r ← npReshape t [some xs.length, some E, none]; tIdx0 r i : M (T α)) = .ok ⟨[E, w], xs.getD i []⟩ := by
  have hd := gen_assemble_core sh xs hne E t h
  refine ⟨hd, ?_⟩
  have hA : 0 < xs.length := List.length_pos_iff.mpr hne
  have hlen' : t.data.length = xs.length * (E * w) := by
    rw [hd, Obs.assembleHomogeneous, Obs.length_flatten_const (E * w) xs hlen]
  rw [gen_disassemble_core t xs.length E i hA hE w hlen' hi, hd,
    Obs.disassemble_assemble xs (E * w) (Nat.mul_pos hE hw) hne hlen]

/-- **Centralised critic over the generated code**: `torch.cat(obs, dim=1)` of the agents' `[B, d_a]` tensors, in the
    order of the dict's values, is the model's `stackCritic`; row `b` of it is built from row `b` of every agent -/
theorem C15_source_translation_critic_rows (B : Nat) (ts : List (Obs.Tensor × Nat)) (hts : ts ≠ [])
    (h : ∀ td ∈ ts, 0 < td.2 ∧ td.1.data.length = B * td.2) (b : Nat) (hb : b < B) :
    torchCat (ts.map (fun td => (⟨[B, td.2], td.1.data⟩ : T Rat))) 1 =
      .ok ⟨[B, (ts.map (·.2)).sum], (Obs.stackCritic B ts).data⟩ ∧
    ((Obs.stackCritic B ts).rows ((ts.map (·.2)).sum))[b]? =
      some ((ts.map (fun td => (td.1.rows td.2).getD b [])).flatten) :=
  ⟨gen_stack_critic_vec_eq B ts hts (fun td htd => (h td htd).1), (Obs.C15_stack_critic_rows B ts hts h b hb).1⟩

/-! non-vacuity over the generated definitions -/
example : _agent_position ["z_1", "z_0", "b_0"] "b_0" = .ok 2 := by decide
/-- a batch of two images over a Box with a DEGENERATE pixel (bounds `[0, 0]`) is accepted by the generated code -/
example : ∃ t, apply_image_normalization true (tX ⟨[2] ++ [1, 1, 2], [[0, 51], [0, 255]].flatten⟩)
    (boxOf [1, 1, 2] ([0, 0].map some) ([0, 255].map some)) = .ok t :=
  ⟨_, (C15_source_translation_normalize true [1, 1, 2] (by decide) [0, 0] [0, 255] rfl rfl [2]
    [[0, 51], [0, 255]] (by simp [Obs.numel])).1⟩
example : Obs.normalizeFixed 0 255 51 = 1 / 5 ∧ Obs.normalizeFixed 0 0 0 = 0 := by
  norm_num [Obs.normalizeFixed, Obs.scaleOf]

end C15ValSrc

/-!
## Round 5: the multi-agent dict loops inside the model (`Gen/ObsMaGen.lean`, harness/py2lean_obsma.py)

`MultiAgentRLAlgorithm.preprocess_observation`, `sum_shared_rewards`, `IPPO.preprocess_observation` and
`IPPO.assemble_shared_inputs` are translated from the source text; `Proofs/ObsMaGenEq.lean` proves them equal to
`Obs.maPreprocess`, `Obs.sumShared`, `Obs.ippoPreprocess`, `Obs.assembleShared`.
-/
namespace C15MaSrc
open ObsValGen ObsMaGen ObsMaGenEq

/-- **(i) over the generated code**: whenever the translated `MultiAgentRLAlgorithm.preprocess_observation` returns,
for every agent list, every key order of the observation dict and every agent `a` in it, the entry of `a` is `a`'s
observation prepared with `a`'s OWN space `self.observation_space.get(a)`; agents absent from the dict get no entry. -/
theorem C15_source_translation_ma_own_space {O S P} (ids : List String) (spaces : PyDict S)
    (prep : O → Option S → M P) (obs res : PyDict O → PyDict P) (o : PyDict O)
    (h : ma_preprocess_observation ids spaces prep o = .ok (res o)) (a : String) :
    (a ∈ pyKeys o → ∃ x v, pyGet o a = .ok x ∧ prep x (pyGetOpt spaces a) = .ok v ∧ pyGet (res o) a = .ok v)
    ∧ (a ∉ pyKeys o → pyGet (res o) a = .error .key) := by
  rw [gen_ma_preprocess_eq] at h
  cases hm : Obs.maPreprocess Exn.key ids spaces.items prep o.items with
  | error e => rw [hm] at h; cases h
  | ok r =>
    rw [hm] at h
    have hr : res o = ⟨r⟩ := by simp only [Except.map] at h; exact (Except.ok.inj h).symm
    have := maPreprocess_own_space Exn.key ids spaces.items prep o.items r hm a
    constructor
    · intro ha
      obtain ⟨x, v, h1, h2, h3⟩ := this.1 ha
      exact ⟨x, v, by rw [pyGet_eq, h1]; rfl, by rw [pyGetOpt_eq]; exact h2, by rw [pyGet_eq, hr, h3]; rfl⟩
    · intro ha
      rw [pyGet_eq, hr, this.2 ha]; rfl

/-- the result does not depend on the order in which the observation dict lists the agents: two dicts with the same
entries per agent give the same entry per agent -/
theorem C15_source_translation_ma_order_invariant {O S P} (ids : List String) (spaces : PyDict S)
    (prep : O → Option S → M P) (o1 o2 r1 r2 : PyDict _)
    (h1 : ma_preprocess_observation ids spaces prep o1 = .ok r1)
    (h2 : ma_preprocess_observation ids spaces prep o2 = .ok r2)
    (hk : ∀ a, a ∈ pyKeys o1 ↔ a ∈ pyKeys o2) (hv : ∀ a, pyGet o1 a = pyGet o2 a) (a : String) :
    pyGet r1 a = pyGet r2 a := by
  have A := C15_source_translation_ma_own_space ids spaces prep (fun _ => r1) (fun _ => r1) o1 h1 a
  have B := C15_source_translation_ma_own_space ids spaces prep (fun _ => r2) (fun _ => r2) o2 h2 a
  by_cases ha : a ∈ pyKeys o1
  · obtain ⟨x, v, e1, e2, e3⟩ := A.1 ha
    obtain ⟨x', v', f1, f2, f3⟩ := B.1 ((hk a).mp ha)
    rw [hv a, f1] at e1
    cases e1
    rw [e2] at f2
    cases f2
    rw [e3, f3]
  · rw [A.2 ha, B.2 (fun hb => ha ((hk a).mpr hb))]

/-- decided witness for the seeded change "agent 0's space for every agent" -/
theorem C15_source_translation_ma_fixed_space_witness :
    ma_preprocess_observation ["a_0", "b_0"] ⟨[("a_0", 2), ("b_0", 5)]⟩ (fun (o : Nat) s => .ok (o, s))
        ⟨[("b_0", 7), ("a_0", 1)]⟩ = .ok ⟨[("a_0", (1, some 2)), ("b_0", (7, some 5))]⟩
    ∧ Obs.maPreprocessFixedSpace Exn.key ["a_0", "b_0"] [("a_0", 2), ("b_0", 5)] "a_0" (fun (o : Nat) s => .ok (o, s))
        [("b_0", 7), ("a_0", 1)] = .ok [("a_0", (1, some 2)), ("b_0", (7, some 2))] := by
  constructor
  · rw [gen_ma_preprocess_eq]
    have : Obs.maPreprocess Exn.key ["a_0", "b_0"] [("a_0", 2), ("b_0", 5)] (fun (o : Nat) s => .ok (o, s))
        [("b_0", 7), ("a_0", 1)] = .ok [("a_0", (1, some 2)), ("b_0", (7, some 5))] := by decide
    simp only [this]; rfl
  · decide

/-- `sum_shared_rewards`, `IPPO.preprocess_observation`, `IPPO.assemble_shared_inputs`: generated = model -/
theorem C15_source_translation_ma_loops_eq :
    (∀ (shared : List String) (rewards : PyDict Rat),
      sum_shared_rewards shared rewards = (Obs.sumShared Exn.key shared rewards.items).map PyDict.mk)
    ∧ (∀ {O S P : Type} (ids shared : List String) (spaces : PyDict S) (prep : O → Option S → M P)
        (concat : List P → M (List P)) (obs : PyDict O),
      ippo_preprocess_observation ids shared spaces prep concat obs
        = (Obs.ippoPreprocess Exn.key ids shared spaces.items prep concat obs.items).map PyDict.mk)
    ∧ (∀ {E V : Type} (ids shared : List String) (stack : E → Bool → M (List V)) (input : PyDict E),
      (assemble_shared_inputs ids shared stack input).map (fun d => proj d.items)
        = Obs.assembleShared Exn.key ids shared (stack0 stack) input.items) :=
  ⟨fun s r => gen_sum_shared_rewards_eq s r, fun ids sh sp p c o => gen_ippo_preprocess_eq ids sh sp p c o,
   fun ids sh st i => gen_assemble_shared_inputs_eq ids sh st i⟩

/-- **(iii) over the generated code**: whenever the translated `sum_shared_rewards` returns, the entry of every group
`g` of `shared_agent_ids` is `0 +` exactly the rewards of the agents whose group (`get_homo_id`) is `g`, in the order of
the rewards dict — with `R` the vector of per-env rewards and pointwise `+` this is the sum env by env —, and nothing
else has an entry. -/
theorem C15_source_translation_ma_sum_shared_rewards {R} [Add R] [OfNat R 0] (shared : List String)
    (rewards res : PyDict R) (h : sum_shared_rewards shared rewards = .ok res) (g : String) :
    Obs.alookup g res.items = if g ∈ shared then some (groupSum g rewards.items 0) else none := by
  rw [gen_sum_shared_rewards_eq] at h
  cases hm : Obs.sumShared Exn.key shared rewards.items with
  | error e => rw [hm] at h; cases h
  | ok r =>
    rw [hm] at h
    have hr : res = ⟨r⟩ := by simp only [Except.map] at h; exact (Except.ok.inj h).symm
    rw [hr]
    exact sumShared_sums_own_group Exn.key shared rewards.items r hm g

/-- **(iv) over the generated code**: whenever the translated (repaired) `IPPO.assemble_shared_inputs` returns, every
group of `shared_agent_ids` lists exactly its agents present in the input, in the order of `self.agent_ids`: the order
of the input dictionary does not occur in the result. -/
theorem C15_source_translation_ma_shared_inputs_order {E V} (ids shared : List String)
    (stack : E → Bool → M (List V)) (input : PyDict E) (res : PyDict (PyDict V)) (hnd : ids.Nodup)
    (h : assemble_shared_inputs ids shared stack input = .ok res) (g : String) :
    (Obs.alookup g (proj res.items)).map Obs.akeys
      = if g ∈ shared then some (groupMembers input.items g ids) else none := by
  have e := gen_assemble_shared_inputs_eq ids shared stack input
  rw [h] at e
  exact assembleShared_agent_ids_order Exn.key ids shared (stack0 stack) input.items _ hnd e.symm g

/-- two input dictionaries holding the same agents in ANY two orders are grouped with identical agent lists -/
theorem C15_source_translation_ma_shared_inputs_order_invariant {E V} (ids shared : List String)
    (stack : E → Bool → M (List V)) (i1 i2 : PyDict E) (r1 r2 : PyDict (PyDict V)) (hnd : ids.Nodup)
    (hsame : ∀ a, pyInDict a i1 = pyInDict a i2)
    (h1 : assemble_shared_inputs ids shared stack i1 = .ok r1)
    (h2 : assemble_shared_inputs ids shared stack i2 = .ok r2) (g : String) :
    (Obs.alookup g (proj r1.items)).map Obs.akeys = (Obs.alookup g (proj r2.items)).map Obs.akeys := by
  rw [C15_source_translation_ma_shared_inputs_order ids shared stack i1 r1 hnd h1 g,
    C15_source_translation_ma_shared_inputs_order ids shared stack i2 r2 hnd h2 g]
  have : ∀ a, (Obs.alookup a i1.items).isSome = (Obs.alookup a i2.items).isSome := by
    intro a; rw [← pyInDict_eq, ← pyInDict_eq]; exact hsame a
  simp [groupMembers, this]

end C15MaSrc
