import Proofs.DistReal
import Proofs.DistGenEq
import Proofs.PpoGlueGenEq

/-!
# C16 — stochastic policies report the true log-probability and entropy of their actions

Model: `Model/Dist.lean` — the composition logic of `agilerl/networks/distributions.py`
(`TorchDistribution`, `EvolvableDistribution`), generic in the carrier and in the component
log-densities.  Theorems over lists hold for every `nvec`, every number of components and every
carrier; theorems about `exp/log/tanh` are over ℝ with Mathlib's functions.

Derived here: slice offsets of `torch.split`; selection and summation of the matching component
entries; masking commutes with splitting; the softmax mass bound of a masked logit; additivity of
Shannon entropy and of log-probability over independent components; `tanh′ = 1 − tanh²`
(from Mathlib's `sinh/cosh` derivatives) and the algebra that turns the change-of-variables formula
into the `− Σ log(1 − a²)` correction; state-independence of the repaired `log_prob`.

Only stated (not derived from measure theory): the change-of-variables rule itself, i.e. that the
density of `a = g(u)` for a differentiable strictly increasing `g` is `f(u) / g′(u)`; that the
Gaussian / Bernoulli / Categorical component values handed to the model are the true component
log-probabilities (those come from `torch.distributions`, cross-checked by the harness oracle);
float32 rounding (the bound of `C16_masked_prob_bound` is below the smallest float32 subnormal as
soon as `1e8 − spread > 104`, which is what makes the masked probability exactly zero in floats).

Source translation (`C16_source_translation_*`, last section): `harness/py2lean_dist.py` executes
`agilerl/networks/distributions.py` and `StochasticActor.{__init__, forward, action_log_prob, action_entropy,
scale_action}` symbolically, once per action-space kind, and writes `Gen/DistGen.lean` (regenerated from the tree
under test on every run); `Proofs/DistGenEq.lean` proves those definitions equal to the composition functions of
`Model/Dist.lean`, and the main theorems above are restated over the generated definitions with the elementary
functions and primitive log-densities as the explicit parameter structure `DistGen.Prims`.

PPO / IPPO glue (`C16_glue_*`, `C16_source_translation_glue_*`, after the non-vacuity examples):
`harness/py2lean_ppoglue.py` translates `PPO.{_get_action_and_values, evaluate_actions, get_action}`, the minibatch
statements of `PPO.learn`, the per-group body of `IPPO.get_action` and the minibatch statements of
`IPPO._learn_individual` into `Gen/PpoGlueGen.lean`; `Proofs/PpoGlueGenEq.lean` proves them equal to the glue functions
of `Model/Dist.lean` (`Glue.*`) and builds the glue environment of a policy that acts row by row (`rowGlue`) over the
row policies of `Gen/DistGen.lean`.  Derived: which action / log-prob is stored, `ratio = 1` in the first minibatch
without a mask, the squeeze / unsqueeze logic, the skipped single-row minibatch, re-evaluation without the mask
(`_partial` + decided witness: open finding `C16-ppo-reevaluation-ignores-mask`), the entropy bonus.
-/
namespace Dist
open Util

variable {α : Type}

/-- `torch.split(logits, nvec, dim=1)`: there are `len(nvec)` components, component `k` has
    `nvec[k]` entries, and its entry `j` is entry `offset k + j = nvec[0]+…+nvec[k-1] + j` of the
    flat vector — for every `nvec`. -/
theorem C16_split_offsets (xs : List α) (nvec : List Nat) (hlen : xs.length = nvec.sum) :
    (splitSizes xs nvec).length = nvec.length ∧
    ∀ k (hk : k < nvec.length), ∃ part, (splitSizes xs nvec)[k]? = some part ∧
      part.length = nvec[k] ∧ ∀ j, j < nvec[k] → part[j]? = xs[offset nvec k + j]? := by
  refine ⟨splitSizes_length xs nvec, fun k hk => ?_⟩
  refine ⟨_, splitSizes_getElem? xs nvec k hk, ?_, ?_⟩
  · have h1 : offset nvec k + nvec[k] ≤ nvec.sum := by
      have : offset nvec (k + 1) = offset nvec k + nvec[k] := by
        simp only [offset, List.take_add_one, List.getElem?_eq_getElem hk, Option.toList_some,
          List.sum_append, List.sum_cons, List.sum_nil, Nat.add_zero]
      rw [← this]
      exact List.Sublist.sum_le_sum (List.take_sublist _ _) (by simp)
    simp only [List.length_take, List.length_drop]; omega
  · intro j hj
    rw [List.getElem?_take_of_lt hj, List.getElem?_drop]

/-- the reported log-probability of a MultiDiscrete action is the sum, over **all** `len(nvec)`
    components, of the entry that action coordinate `k` selects in **its own** slice of the flat
    per-outcome table (flat position `offset k + action[k]`) — no component dropped, none counted
    twice, no slice shifted. -/
theorem C16_sum_over_components [Add α] [Zero α] (nvec : List Nat) (flat : List α)
    (action : List Nat) (hlen : flat.length = nvec.sum) (hact : action.length = nvec.length)
    (hval : ∀ k (hk : k < nvec.length), action[k]'(by omega) < nvec[k]) :
    ∃ vals : List α, multiDiscreteLogProb nvec flat action = some vals.sum ∧
      vals.length = nvec.length ∧
      ∀ k (hk : k < nvec.length), offset nvec k + action[k]'(by omega) < flat.length ∧
        vals[k]? = flat[offset nvec k + action[k]'(by omega)]? := by
  obtain ⟨vals, h1, h2, h3⟩ := select_spec nvec flat action (by omega) hact hval
  exact ⟨vals, by simp [multiDiscreteLogProb, multiCatLogProb, h1], h2, h3⟩

/-- an action coordinate outside its component (index ≥ `nvec[k]`) is rejected, it never reads
    the neighbouring component's slice -/
theorem C16_sum_over_components_reject [Add α] [Zero α] (nvec : List Nat) (flat : List α)
    (action : List Nat) (k : Nat) (hk : k < nvec.length) (hka : k < action.length)
    (hbad : nvec[k] ≤ action[k]) : multiDiscreteLogProb nvec flat action = none := by
  have hz : (List.zipWith catLogProb (splitSizes flat nvec) action)[k]? = some none := by
    rw [List.getElem?_zipWith, splitSizes_getElem? flat nvec k hk, List.getElem?_eq_getElem hka]
    simp only [catLogProb, Option.some.injEq]
    rw [List.getElem?_eq_none]
    simp only [List.length_take]; omega
  have : ∀ (l : List (Option α)) (k : Nat), l[k]? = some none → allSome l = none := by
    intro l
    induction l with
    | nil => intro k h; simp at h
    | cons x r ih =>
      intro k h
      cases k with
      | zero => simp at h; subst h; rfl
      | succ k =>
        cases x with
        | none => rfl
        | some v => rw [allSome_cons_some, ih k (by simpa using h)]; rfl
  simp [multiDiscreteLogProb, multiCatLogProb, this _ k hz]

/-- MultiBinary: bit `i` contributes `log p_i(1)` when set and `log p_i(0)` when clear, and the
    reported value is the sum over all bits -/
theorem C16_sum_over_components_bits [Add α] [Zero α] (lp1 lp0 : List α) (bits : List Bool)
    (h0 : lp0.length = lp1.length) (hb : bits.length = lp1.length) :
    ∃ terms : List α, bernLogProb lp1 lp0 bits = terms.sum ∧ terms.length = lp1.length ∧
      ∀ i (hi : i < lp1.length),
        terms[i]? = some (if bits[i] then lp1[i] else lp0[i]) := by
  refine ⟨_, rfl, by simp [h0, hb], fun i hi => ?_⟩
  have hz : (lp1.zip lp0)[i]? = some (lp1[i], lp0[i]) := by
    rw [List.getElem?_eq_getElem (by simp; omega)]; simp [List.getElem_zip]
  simp [List.getElem?_zipWith, hz, List.getElem?_eq_getElem (show i < bits.length by omega)]

/-- Box: dimension `i` contributes its own Gaussian log-density evaluated at coordinate `i` of the
    point, summed over all dimensions -/
theorem C16_sum_over_components_normal [Add α] [Zero α] (comp : List (α → α)) (x : List α)
    (h : x.length = comp.length) :
    ∃ terms : List α, indepLogProb comp x = terms.sum ∧ terms.length = comp.length ∧
      ∀ i (hi : i < comp.length), terms[i]? = some (comp[i] x[i]) := by
  refine ⟨_, rfl, by simp [h], fun i hi => ?_⟩
  simp [List.getElem?_zipWith, List.getElem?_eq_getElem hi,
    List.getElem?_eq_getElem (show i < x.length by omega)]

/-- why a *sum*: for independent components with non-zero probabilities `p_k`, the log of the
    joint probability `∏ p_k` is the sum of the component log-probabilities (ℝ, Mathlib `log`) -/
theorem C16_log_joint_is_sum (p : List ℝ) (hp : ∀ x ∈ p, x ≠ 0) :
    Real.log p.prod = (p.map Real.log).sum := Real.log_list_prod hp

/-- `apply_mask` masks each split separately; that is the same as masking the flat vector and
    splitting afterwards, every allowed logit is unchanged and every masked one is exactly `neg` -/
theorem C16_mask_before_split (neg : α) (nvec : List Nat) (ls : List α) (ms : List Bool)
    (hl : ls.length = nvec.sum) (hm : ms.length = ls.length) :
    maskSplit neg nvec ls ms = splitSizes (maskLogits neg ls ms) nvec ∧
    (maskSplit neg nvec ls ms).flatten = maskLogits neg ls ms ∧
    ∀ i (hi : i < ls.length),
      (maskLogits neg ls ms)[i]? = some (if ms[i] then ls[i] else neg) := by
  refine ⟨maskSplit_eq neg nvec ls ms, ?_, fun i hi => maskLogits_getElem? neg ls ms i hi (by omega)⟩
  rw [maskSplit_eq]
  exact flatten_splitSizes _ _ (by rw [maskLogits_length]; omega)

/-- masked actions have (numerically) zero probability: if the masked logit is `−1e8` and some
    allowed logit of the same component is at least `−spread`, the softmax mass of the masked
    action is at most `exp(−(1e8 − spread))`.  (The hypothesis is about the allowed logit's
    absolute size: a network that outputs logits below `−1e8` defeats the mask.) -/
theorem C16_masked_prob_bound (ls : List ℝ) (ms : List Bool) (hm : ms.length = ls.length)
    (i m : Nat) (hi : i < ls.length) (hmm : m < ls.length)
    (hmask : ms[i] = false) (hallow : ms[m] = true) (spread : ℝ) (hs : -spread ≤ ls[m]) :
    softmaxAt (maskLogits (-1e8) ls ms) i ≤ Real.exp (-(1e8 - spread)) := by
  have hlen : (maskLogits (-1e8 : ℝ) ls ms).length = ls.length := by
    rw [maskLogits_length]; omega
  have e1 := maskLogits_getElem? (-1e8 : ℝ) ls ms i hi (by omega)
  have e2 := maskLogits_getElem? (-1e8 : ℝ) ls ms m hmm (by omega)
  rw [hmask] at e1; rw [hallow] at e2
  simp only [Bool.false_eq_true, if_false, if_true] at e1 e2
  have hi' : i < (maskLogits (-1e8 : ℝ) ls ms).length := by omega
  have hm' : m < (maskLogits (-1e8 : ℝ) ls ms).length := by omega
  rw [List.getElem?_eq_getElem hi'] at e1
  rw [List.getElem?_eq_getElem hm'] at e2
  apply softmaxAt_le _ i m hi' hm'
  rw [Option.some.inj e1, Option.some.inj e2]
  linarith

/-- entropy of the composed distribution is the sum of the component entropies; with squashing
    the code reports no entropy (`None`) -/
theorem C16_entropy_sum [Add α] [Zero α] [Sub α] (comp : List (α → α)) (s : Option (List α))
    (ents : List α) :
    (TorchDist.entropy { comp := comp, squash := false, sampled := s } ents = some ents.sum) ∧
    (TorchDist.entropy { comp := comp, squash := true, sampled := s } ents = none) := by
  simp [TorchDist.entropy, sumEntropy]

/-- why a sum: Shannon entropy of two independent finite components is additive (ℝ) -/
theorem C16_entropy_sum_independent {ι κ : Type} [Fintype ι] [Fintype κ] (p : ι → ℝ) (q : κ → ℝ)
    (hp : ∑ i, p i = 1) (hq : ∑ j, q j = 1) :
    shannon (fun ij : ι × κ => p ij.1 * q ij.2) = shannon p + shannon q :=
  shannon_prod p q hp hq

/-- **repaired code**: re-evaluating an action is a function of the action and the current
    parameters only.  Whatever the cache holds and whether or not the action is the one that was
    just sampled, the result is the Gaussian at the action's own pre-image minus the correction
    on the action.  (`pre ∘ th = id`: `atanh (tanh u) = u`.) -/
theorem C16_eval_stored_action [Add α] [Zero α] [Sub α] (comp : List (α → α)) (corr th pre : α → α)
    (hinv : ∀ x, pre (th x) = x) (s : Option (List α)) (fresh : Bool) (a : List α)
    (hfresh : fresh = true → ∃ u, s = some u ∧ a = u.map th) :
    TorchDist.logProbFixed { comp := comp, squash := true, sampled := s } corr fresh a (a.map pre)
      = indepLogProb comp (a.map pre) - (a.map corr).sum := by
  unfold TorchDist.logProbFixed
  simp only [if_true]
  cases fresh with
  | false => rfl
  | true =>
    obtain ⟨u, rfl, rfl⟩ := hfresh rfl
    have : (u.map th).map pre = u := by
      rw [List.map_map]; conv_rhs => rw [← List.map_id u]
      exact List.map_congr_left (fun x _ => hinv x)
    simp [this]

/-- in particular the value `evaluate_actions` computes for a stored action does not depend on
    the action drawn by the forward pass that precedes it -/
theorem C16_eval_stored_action_no_hidden_state [Add α] [Zero α] [Sub α] (comp : List (α → α))
    (corr th : α → α) (u' u'' a preA : List α) :
    evalStoredFixed comp corr th u' a preA = evalStoredFixed comp corr th u'' a preA := rfl

/-- on the action that has just been sampled the snapshot code and the repaired code agree -/
theorem C16_fresh_sample_agrees [Add α] [Zero α] [Sub α] (comp : List (α → α)) (corr th : α → α)
    (u preA : List α) :
    let d := (({ comp := comp, squash := true : TorchDist α }).sample th u)
    d.1.logProbCode corr d.2 = some (d.1.logProbFixed corr true d.2 preA) := by
  simp [TorchDist.sample, TorchDist.logProbCode, TorchDist.logProbFixed]

/-- **snapshot code** (defect D10): with squashing the value reported for a stored action depends
    on the draw of the intervening forward pass — concrete witness over `Int` -/
theorem C16_eval_stored_action_code_witness :
    ¬ (∀ u' u'' a : List Int,
        evalStoredCode [fun x => -(x * x)] (fun _ => 0) id u' a
          = evalStoredCode [fun x => -(x * x)] (fun _ => 0) id u'' a) := by
  intro h
  have := h [0] [1] [5]
  revert this
  decide

/-- the change-of-variables term.  *Stated*: the log-density of `a = tanh u` is
    `log f(u) − log tanh′(u)` per dimension.  *Derived*: `tanh′ = 1 − tanh²` (so the argument of the
    log is positive) and the identity between that formula and what the (repaired) code computes
    with `ε = 0`: `Σ log N_i(u_i) − Σ log(1 − a_i²)` for `a = tanh u`. -/
theorem C16_squash_correction (comp : List (ℝ → ℝ)) (u : List ℝ) (hlen : comp.length = u.length)
    (s : Option (List ℝ)) (fresh : Bool) (hfresh : fresh = true → s = some u) :
    TorchDist.logProbFixed { comp := comp, squash := true, sampled := s }
        (fun a => Real.log (1 - a ^ 2)) fresh (u.map Real.tanh) u
      = (List.zipWith (fun f x => f x - Real.log (deriv Real.tanh x)) comp u).sum ∧
    ∀ x : ℝ, deriv Real.tanh x = 1 - Real.tanh x ^ 2 ∧ 0 < 1 - Real.tanh x ^ 2 := by
  constructor
  · have key : indepLogProb comp u - ((u.map Real.tanh).map (fun a => Real.log (1 - a ^ 2))).sum
        = (List.zipWith (fun f x => f x - Real.log (deriv Real.tanh x)) comp u).sum := by
      have := sum_zipWith_sub comp u (fun x => Real.log (1 - Real.tanh x ^ 2)) hlen
      simp only [indepLogProb, List.map_map, Function.comp_def]
      rw [this]
      simp only [deriv_tanh]
    cases fresh with
    | false => simpa [TorchDist.logProbFixed] using key
    | true =>
      have hs := hfresh rfl
      subst hs
      simpa [TorchDist.logProbFixed] using key
  · intro x
    exact ⟨deriv_tanh x, by have := deriv_tanh_pos x; rwa [deriv_tanh] at this⟩

/-- the `1e-6` inside the code's logarithm shifts each correction term by at most `ε / (1 − a²)` -/
theorem C16_squash_eps_bound (a eps : ℝ) (ha : a ^ 2 < 1) (he : 0 ≤ eps) :
    0 ≤ Real.log (1 - a ^ 2 + eps) - Real.log (1 - a ^ 2) ∧
    Real.log (1 - a ^ 2 + eps) - Real.log (1 - a ^ 2) ≤ eps / (1 - a ^ 2) := by
  have hx : 0 < 1 - a ^ 2 := by linarith
  constructor
  · have := Real.log_le_log hx (show 1 - a ^ 2 ≤ 1 - a ^ 2 + eps by linarith)
    linarith
  · rw [← Real.log_div (by linarith) hx.ne']
    have h1 : 0 < (1 - a ^ 2 + eps) / (1 - a ^ 2) := div_pos (by linarith) hx
    have := Real.log_le_sub_one_of_pos h1
    have e : (1 - a ^ 2 + eps) / (1 - a ^ 2) - 1 = eps / (1 - a ^ 2) := by
      field_simp; ring
    linarith

/-! ### the theorems over the definitions generated from the source text (`Gen/DistGen.lean`) -/

section source_translation
set_option linter.unusedSectionVars false
variable [Add α] [Sub α] [Mul α] [Zero α] (P : DistGen.Prims α)

/-- **over the translated source**: which `torch.distributions` object is built for which action space (read off
    the `isinstance` chain of `get_distribution` and the `_handlers` table in source order), the std is
    `exp(log_std)`, squashing is switched on only for Box, any other space class raises. -/
theorem C16_source_translation_distribution_per_space (log_std logits : List α) (nvec : List Nat)
    (sq : Bool) (init : α) (d : Nat) :
    DistGen.Box.distribution P log_std logits = .normal logits (log_std.map P.exp) ∧
    DistGen.Discrete.distribution P logits = .categorical logits ∧
    DistGen.MultiDiscrete.distribution P nvec logits = .categoricals (splitSizes logits nvec) ∧
    DistGen.MultiBinary.distribution P logits = .bernoulli logits ∧
    DistGen.Other.distribution_raises = "NotImplementedError" ∧
    DistGen.Box.log_std_init P init d = List.replicate d (P.lit 1 * init) ∧
    (DistGen.Box.squash_flag P sq = sq ∧ DistGen.Discrete.squash_flag P = false ∧
      DistGen.MultiDiscrete.squash_flag P = false ∧ DistGen.MultiBinary.squash_flag P = false) :=
  ⟨gen_distribution_box_eq P _ _, gen_distribution_discrete_eq P _, gen_distribution_multiDiscrete_eq P _ _,
   gen_distribution_multiBinary_eq P _, rfl, gen_log_std_init_eq P _ _, gen_squash_flag_eq P sq⟩

/-- **over the translated source** (MultiDiscrete): the action returned is the draw, and the reported log-probability
    is the sum over **all** `len(nvec)` components of the primitive categorical log-probability of coordinate `k` under
    **its own** slice `[offset k, offset k + nvec[k])` of the logits. -/
theorem C16_source_translation_sum_over_components (nvec : List Nat) (logits : List α)
    (action : List Nat) (hact : action.length = nvec.length) :
    (DistGen.MultiDiscrete.forward P nvec logits action).1 = action ∧
    ∃ vals : List α, (DistGen.MultiDiscrete.forward P nvec logits action).2.1 = vals.sum ∧
      vals.length = nvec.length ∧
      ∀ k (hk : k < nvec.length), vals[k]? =
        some (P.categoricalLogProb ((logits.drop (offset nvec k)).take nvec[k]) (action[k]'(by omega))) := by
  rw [gen_multiDiscrete_forward_eq]
  refine ⟨rfl, _, rfl, by simp [splitSizes_length, hact], fun k hk => ?_⟩
  rw [List.getElem?_zipWith, splitSizes_getElem? logits nvec k hk,
    List.getElem?_eq_getElem (show k < action.length by omega)]

/-- the same through the hand model: when a table `tbl` tabulates the primitive, the model's split / select / sum
    (`multiCatLogProb`, the subject of `C16_sum_over_components`) returns exactly the generated value -/
theorem C16_source_translation_sum_over_components_model (tbl : List α → List α)
    (hP : ∀ l k, k < (tbl l).length → (tbl l)[k]? = some (P.categoricalLogProb l k))
    (nvec : List Nat) (logits : List α) (action : List Nat)
    (hval : List.Forall₂ (fun part k => k < (tbl part).length) (splitSizes logits nvec) action) :
    multiCatLogProb ((splitSizes logits nvec).map tbl) action
      = some (DistGen.MultiDiscrete.forward P nvec logits action).2.1 :=
  gen_multiDiscrete_log_prob_eq P tbl hP nvec logits action hval

/-- **over the translated source** (MultiBinary): bit `i` contributes the primitive Bernoulli log-probability of
    that bit under logit `i`; the reported value is the sum over all bits -/
theorem C16_source_translation_sum_over_components_bits (logits : List α) (bits : List Bool)
    (hb : bits.length = logits.length) :
    ∃ terms : List α, (DistGen.MultiBinary.forward P logits bits).2.1 = terms.sum ∧
      terms.length = logits.length ∧
      ∀ i (hi : i < logits.length), terms[i]? = some (P.bernoulliLogProb logits[i] (bits[i]'(by omega))) := by
  refine ⟨List.zipWith P.bernoulliLogProb logits bits, rfl, by simp [hb], fun i hi => ?_⟩
  simp [List.getElem?_zipWith, List.getElem?_eq_getElem hi,
    List.getElem?_eq_getElem (show i < bits.length by omega)]

/-- **over the translated source** (Box, no squashing): dimension `i` contributes the primitive Gaussian log-density
    with mean `logits[i]` and std `exp(log_std[i])` at coordinate `i` of the draw; summed over all dimensions -/
theorem C16_source_translation_sum_over_components_normal (low high log_std logits u : List α)
    (hs : log_std.length = logits.length) (hu : u.length = logits.length) :
    (DistGen.Box.forward P false low high log_std logits u).1 = u ∧
    ∃ terms : List α, (DistGen.Box.forward P false low high log_std logits u).2.1 = terms.sum ∧
      terms.length = logits.length ∧
      ∀ i (hi : i < logits.length), terms[i]? =
        some (P.normalLogPdf logits[i] (P.exp (log_std[i]'(by omega))) (u[i]'(by omega))) := by
  refine ⟨rfl, DistGen.zipWith3 P.normalLogPdf logits (log_std.map P.exp) u, rfl, ?_, fun i hi => ?_⟩
  · simp [gen_zipWith3_eq, hs, hu]
  · simp [gen_zipWith3_eq, List.getElem?_zipWith, List.getElem?_eq_getElem hi,
      List.getElem?_eq_getElem (show i < log_std.length by omega),
      List.getElem?_eq_getElem (show i < u.length by omega)]

/-- **over the translated source**: the reported entropy is the sum of the component entropies for every space;
    with squashing `forward` and `action_entropy` report `None` -/
theorem C16_source_translation_entropy_sum (low high log_std logits u : List α) (nvec : List Nat)
    (act : List Nat) (bits : List Bool) :
    (DistGen.Box.forward P false low high log_std logits u).2.2
      = some (List.zipWith P.normalEntropy logits (log_std.map P.exp)).sum ∧
    (DistGen.Box.forward P true low high log_std logits u).2.2 = none ∧
    DistGen.Box.entropy_stored P true log_std logits = none ∧
    DistGen.Box.entropy_stored P false log_std logits
      = some (List.zipWith P.normalEntropy logits (log_std.map P.exp)).sum ∧
    (DistGen.MultiDiscrete.forward P nvec logits act).2.2
      = ((splitSizes logits nvec).map P.categoricalEntropy).sum ∧
    (DistGen.MultiBinary.forward P logits bits).2.2 = (logits.map P.bernoulliEntropy).sum ∧
    (DistGen.Discrete.forward P logits 0).2.2 = P.categoricalEntropy logits := by
  refine ⟨rfl, rfl, rfl, rfl, ?_, rfl, rfl⟩
  rw [gen_multiDiscrete_forward_eq]; rfl

/-- **over the translated source**: `apply_mask` keeps an allowed logit and writes exactly the source's constant
    (`P.lit (-100000000)`: −1e8) into a masked position, for Discrete on the flat vector and for MultiDiscrete /
    MultiBinary per split (which is the same as on the flat vector); a Box space with a mask raises. -/
theorem C16_source_translation_masked_logits (nvec : List Nat) (n : Nat) (ls : List α) (ms : List Bool)
    (hm : ms.length = ls.length) :
    DistGen.Discrete.masked_logits P ls ms = maskLogits (P.lit (-100000000)) ls ms ∧
    (ls.length = nvec.sum →
      DistGen.MultiDiscrete.masked_logits P nvec ls ms = maskLogits (P.lit (-100000000)) ls ms) ∧
    (ls.length = n → DistGen.MultiBinary.masked_logits P n ls ms = maskLogits (P.lit (-100000000)) ls ms) ∧
    (∀ i (hi : i < ls.length), (maskLogits (P.lit (-100000000)) ls ms)[i]?
        = some (if ms[i] then ls[i] else P.lit (-100000000))) ∧
    DistGen.Box.masked_logits_raises = "NotImplementedError" := by
  refine ⟨gen_discrete_masked_logits_eq P ls ms, fun hl => ?_, fun hl => ?_,
    fun i hi => maskLogits_getElem? _ ls ms i hi (by omega), rfl⟩
  · rw [gen_multiDiscrete_masked_logits_eq]
    exact (C16_mask_before_split _ nvec ls ms hl hm).2.1
  · rw [gen_multiBinary_masked_logits_eq]
    exact (C16_mask_before_split _ [n] ls ms (by simpa using hl) hm).2.1

/-- **over the translated source**: the masked forward pass is the unmasked one on the masked logits — the mask is
    applied before the distribution is built, so sampling, log-probability and entropy all see it -/
theorem C16_source_translation_mask_before_distribution (nvec : List Nat) (n : Nat) (ls : List α)
    (ms : List Bool) (k : Nat) (act : List Nat) (bits : List Bool) :
    DistGen.Discrete.forward_masked P ls ms k
      = DistGen.Discrete.forward P (DistGen.Discrete.masked_logits P ls ms) k ∧
    DistGen.MultiDiscrete.forward_masked P nvec ls ms act
      = DistGen.MultiDiscrete.forward P nvec (DistGen.MultiDiscrete.masked_logits P nvec ls ms) act ∧
    DistGen.MultiBinary.forward_masked P n ls ms bits
      = DistGen.MultiBinary.forward P (DistGen.MultiBinary.masked_logits P n ls ms) bits := by
  refine ⟨?_, ?_, ?_⟩
  · rw [gen_discrete_forward_masked_eq, gen_discrete_masked_logits_eq]
  · rw [gen_multiDiscrete_forward_masked_eq, gen_multiDiscrete_masked_logits_eq]
  · rw [gen_multiBinary_forward_masked_eq, gen_multiBinary_masked_logits_eq]

/-- **over the translated source**: with squashing the returned action is the rescaled `tanh` of the draw and the
    reported log-probability is the primitive Gaussian log-density of the draw (the pre-image) minus
    `Σ log(1 − a² + 1e-6)` on the squashed action — sign and constants as the source writes them -/
theorem C16_source_translation_squash_log_prob (low high log_std logits u : List α) :
    (DistGen.Box.forward P true low high log_std logits u).1
      = DistGen.Box.scale_action P low high (u.map P.tanh) ∧
    (DistGen.Box.forward P true low high log_std logits u).2.1
      = indepLogProb (genComp P log_std logits) u
        - ((u.map P.tanh).map (fun a => P.log (P.lit 1 - DistGen.powNat (P.lit 1) a 2 + P.lit (1 / 1000000)))).sum := by
  rw [gen_box_forward_eq P true low high log_std logits u u]
  exact ⟨rfl, rfl⟩

/-- **over the translated source**: re-evaluating a stored action (not the object `sample()` has just returned)
    gives the Gaussian at the action's own pre-image `atanh(clamp(a, −1 + eps, 1 − eps))` minus the correction on the
    action — a function of the action and the current parameters only: the draw of the forward pass that precedes
    the evaluation does not enter -/
theorem C16_source_translation_eval_stored_action (log_std logits u' u'' : List α) (eps : α) (a : List α) :
    DistGen.Box.log_prob_stored P false true log_std logits u' eps a
      = indepLogProb (genComp P log_std logits) (a.map (genPre P eps)) - (a.map (genCorr P)).sum ∧
    DistGen.Box.log_prob_stored P false true log_std logits u' eps a
      = DistGen.Box.log_prob_stored P false true log_std logits u'' eps a := by
  rw [gen_box_log_prob_stored_eq_evalStored, gen_box_log_prob_stored_eq_evalStored]
  exact ⟨rfl, C16_eval_stored_action_no_hidden_state _ _ _ u' u'' a _⟩

/-- **over the translated source**: re-evaluating uses the same formula as sampling.  For the discrete spaces and
    the unsquashed Gaussian literally; with squashing, if `atanh(clamp(tanh x)) = x`, evaluating the action that a
    forward pass with draw `u` returned gives the log-probability that forward pass reported — whether it is
    recognised as the cached sample (`fresh`, then the cache holds `u`) or not, and whatever was drawn since. -/
theorem C16_source_translation_reevaluation_same_formula (low high log_std logits u u' : List α) (eps : α)
    (nvec : List Nat) (k : Nat) (act : List Nat) (bits : List Bool) (fresh : Bool)
    (hinv : ∀ x, genPre P eps (P.tanh x) = x) (hfresh : fresh = true → u' = u) :
    DistGen.Box.log_prob_stored P fresh true log_std logits u' eps (u.map P.tanh)
      = (DistGen.Box.forward P true low high log_std logits u).2.1 ∧
    DistGen.Box.log_prob_stored P fresh false log_std logits u' eps u
      = (DistGen.Box.forward P false low high log_std logits u).2.1 ∧
    DistGen.Discrete.log_prob_stored P logits k = (DistGen.Discrete.forward P logits k).2.1 ∧
    DistGen.MultiDiscrete.log_prob_stored P nvec logits act
      = (DistGen.MultiDiscrete.forward P nvec logits act).2.1 ∧
    DistGen.MultiBinary.log_prob_stored P logits bits = (DistGen.MultiBinary.forward P logits bits).2.1 := by
  refine ⟨?_, ?_, rfl, rfl, rfl⟩
  · rw [gen_box_log_prob_stored_eq, gen_box_forward_eq P true low high log_std logits u u]
    have h := C16_eval_stored_action (genComp P log_std logits) (genCorr P) P.tanh (genPre P eps) hinv
      (some u') fresh (u.map P.tanh) (fun hf => ⟨u', rfl, by rw [hfresh hf]⟩)
    have hpre : (u.map P.tanh).map (genPre P eps) = u := by
      rw [List.map_map]; conv_rhs => rw [← List.map_id u]
      exact List.map_congr_left (fun x _ => hinv x)
    simp only [genDist, TorchDist.sample] at h ⊢
    rw [h, hpre]
    simp [TorchDist.logProbFixed]
  · rw [gen_box_log_prob_stored_eq, gen_box_forward_eq P false low high log_std logits u u]
    simp [genDist, TorchDist.sample, TorchDist.logProbFixed]

end source_translation

/-! #### carrier ℝ: the primitives are Mathlib's functions, the literals are read exactly -/

/-- **over the translated source**: a masked action has (numerically) zero probability — the softmax mass of a
    masked entry of the logits the generated `apply_mask` produces is at most `exp(−(1e8 − spread))` when some
    allowed logit is at least `−spread` (same hypothesis as `C16_masked_prob_bound`; the constant comes from the
    source text through `P.lit`). -/
theorem C16_source_translation_masked_prob_bound (P : DistGen.Prims ℝ) (hlit : ∀ q : ℚ, P.lit q = (q : ℝ))
    (ls : List ℝ) (ms : List Bool) (hm : ms.length = ls.length)
    (i m : Nat) (hi : i < ls.length) (hmm : m < ls.length)
    (hmask : ms[i] = false) (hallow : ms[m] = true) (spread : ℝ) (hs : -spread ≤ ls[m]) :
    softmaxAt (DistGen.Discrete.masked_logits P ls ms) i ≤ Real.exp (-(1e8 - spread)) := by
  rw [gen_discrete_masked_logits_eq]
  have : genNeg P = (-1e8 : ℝ) := by rw [genNeg, hlit]; norm_num
  rw [this]
  exact C16_masked_prob_bound ls ms hm i m hi hmm hmask hallow spread hs

/-- **over the translated source**: the squash-corrected log-probability `forward` reports is, per dimension, the
    primitive log-density of the pre-image `u` minus the log of the derivative of the squashing map at `u`
    (`tanh′ u = 1 − tanh² u`, derived in `Proofs/DistReal.lean`) shifted by the source's `1e-6` inside the logarithm;
    by `C16_squash_eps_bound` each term differs from the exact change-of-variables term by at most `1e-6 / tanh′ u`. -/
theorem C16_source_translation_squash_correction (P : DistGen.Prims ℝ) (hlit : ∀ q : ℚ, P.lit q = (q : ℝ))
    (hlog : P.log = Real.log) (htanh : P.tanh = Real.tanh)
    (low high log_std logits u : List ℝ) (hs : log_std.length = logits.length) (hu : u.length = logits.length) :
    (DistGen.Box.forward P true low high log_std logits u).2.1
      = (List.zipWith (fun f x => f x - Real.log (deriv Real.tanh x + 1e-6)) (genComp P log_std logits) u).sum ∧
    ∀ x : ℝ, 0 ≤ Real.log (deriv Real.tanh x + 1e-6) - Real.log (deriv Real.tanh x) ∧
      Real.log (deriv Real.tanh x + 1e-6) - Real.log (deriv Real.tanh x) ≤ 1e-6 / deriv Real.tanh x := by
  constructor
  · rw [(C16_source_translation_squash_log_prob P low high log_std logits u).2]
    have hlen : (genComp P log_std logits).length = u.length := by simp [genComp, hs, hu]
    have := sum_zipWith_sub (genComp P log_std logits) u (fun x => Real.log (deriv Real.tanh x + 1e-6)) hlen
    rw [← this]
    simp only [indepLogProb, List.map_map, Function.comp_def, hlit, hlog, htanh, deriv_tanh, DistGen.powNat]
    congr 2
    apply List.map_congr_left
    intro x _
    congr 1
    push_cast
    ring
  · intro x
    have h := C16_squash_eps_bound (Real.tanh x) 1e-6 (Real.tanh_sq_lt_one x) (by norm_num)
    rw [deriv_tanh]
    exact h

/-! ### non-vacuity -/

-- MultiDiscrete([2,3]): action (1,2) selects flat entries 1 and 2+2=4
example : multiDiscreteLogProb [2, 3] [(-1 : Int), -2, -3, -4, -5] [1, 2] = some (-7) := by decide
example : ([(-1 : Int), -2, -3, -4, -5].length = [2, 3].sum) ∧ ([1, 2].length = [2, 3].length) := by decide
example : offset [2, 3, 4] 2 = 5 := by decide
-- an index that would spill into the next slice is rejected
example : multiDiscreteLogProb [2, 3] [(-1 : Int), -2, -3, -4, -5] [2, 0] = none := by decide
-- mask per split = mask on the flat vector
example : maskSplit (-100 : Int) [2, 3] [1, 2, 3, 4, 5] [true, false, false, true, true]
    = [[1, -100], [-100, 4, 5]] := by decide
-- bits
example : bernLogProb [(-1 : Int), -2] [-3, -4] [true, false] = -5 := by decide
-- the hypotheses of `C16_eval_stored_action` are satisfiable with a fresh action
example : ∃ (s : Option (List Int)) (a : List Int), ∃ u, s = some u ∧ a = u.map (fun x => x + 1) :=
  ⟨some [3], [4], [3], rfl, rfl⟩
-- snapshot code: the same stored action, two different answers
example : evalStoredCode [fun x : Int => -(x * x)] (fun _ => 0) id [0] [5] = some 0 ∧
          evalStoredCode [fun x : Int => -(x * x)] (fun _ => 0) id [1] [5] = some (-1) := by decide
-- the bound of `C16_masked_prob_bound` has satisfiable hypotheses
example : ∃ (ls : List ℝ) (ms : List Bool), ms.length = ls.length ∧ ms[0]? = some false ∧
    ms[1]? = some true := ⟨[0, 0], [false, true], rfl, rfl, rfl⟩

-- the hypotheses of the source-translation theorems are satisfiable: `atanh ∘ clamp ∘ tanh = id` for the concrete
-- primitives of `Proofs/DistGenEq.lean`, and a primitive structure over ℝ that reads the literals exactly
example : ∀ x, genPre exPrims 0 (exPrims.tanh x) = x := fun _ => rfl
noncomputable example : ∃ P : DistGen.Prims ℝ, (∀ q : ℚ, P.lit q = (q : ℝ)) ∧ P.log = Real.log ∧ P.tanh = Real.tanh :=
  ⟨{ lit := fun q => (q : ℝ), log := Real.log, exp := Real.exp, tanh := Real.tanh, atanh := fun x => x,
     clamp := fun lo hi x => max lo (min hi x), normalLogPdf := fun m s x => -((x - m) ^ 2) / (2 * s ^ 2) - Real.log s,
     normalEntropy := fun _ s => Real.log s, categoricalLogProb := fun l k => l.getD k 0,
     categoricalEntropy := fun _ => 0, bernoulliLogProb := fun l b => if b then l else -l,
     bernoulliEntropy := fun _ => 0 }, fun _ => rfl, rfl, rfl⟩
-- generated MultiDiscrete([2,3]) forward: action (1,2) selects logits 1 and 2+2=4 of the flat vector
example : (DistGen.MultiDiscrete.forward exPrims [2, 3] [-1, -2, -3, -4, -5] [1, 2]).2.1 = -7 := by decide

set_option linter.unusedSectionVars false
set_option linter.unusedSimpArgs false
set_option linter.unusedVariables false


/-! ### the PPO / IPPO glue: which action, which mask, which log-prob (model level) -/
section glue
variable {α T O M D : Type} [Add T] [Sub T] [Mul T] [Sub α] [Neg α]

/-- **which action and which log-prob are stored**: in training mode `PPO.get_action` returns the policy head's action
    exactly as sampled — NOT scaled to the Box bounds (with squashing: `tanh(u) ∈ (−1,1)`), NOT clipped — together with
    the head's log-prob of exactly that action; in evaluation mode on a Box space it returns the rescaled action
    (`low + 0.5·(a+1)·(high−low)`, squashing) or the clipped one, while the log-prob stays that of the unscaled /
    unclipped action; on every other space the action is never touched. -/
theorem C16_glue_stored_action_is_head_action (G : Glue α T O M D) (isBox share : Bool) (high low : T) (obs : O)
    (mask : Option M) (d : D) :
    (G.ppoGetAction isBox share true high low obs mask d).1 = (G.forward_head obs d mask).1 ∧
    (∀ training, (G.ppoGetAction isBox share training high low obs mask d).2.1 = (G.forward_head obs d mask).2.1) ∧
    (∀ training, (G.ppoGetAction false share training high low obs mask d).1 = (G.forward_head obs d mask).1) ∧
    (G.ppoGetAction true share false high low obs mask d).1
      = (if G.squash_output then low + G.lit (1 / 2) * ((G.forward_head obs d mask).1 + G.lit 1) * (high - low)
         else G.clip (G.forward_head obs d mask).1 low high) := by
  refine ⟨?_, fun _ => rfl, fun t => ?_, ?_⟩
  · cases isBox <;> rfl
  · cases t <;> rfl
  · rfl

/-- **(i) ratio = 1 in the first minibatch** — no mask, unchanged weights: if the actor re-evaluates its own action
    consistently (`action_log_prob` after ANY later unmasked forward pass `d'` on the same rows gives the log-prob the
    sampling pass `d` reported — per kind: `C16_source_translation_glue_row_policies_consistent`) and the squeeze logic
    hands the stored action over intact (`C16_glue_squeeze_keeps_action_dimension`), then for a minibatch of `n > 1`
    rows `learn` re-computes exactly the stored log-prob: `logratio = 0` and `ratio = exp 0 = 1` for every row. -/
theorem C16_glue_reevaluation_first_minibatch (G : Glue α T O M D) (zero one : α) (hsub : ∀ x : α, x - x = zero)
    (hexp : G.exp zero = one) (isBox isDiscrete share : Bool) (high low : T) (obs : O) (d d' : D) (n : Nat)
    (hn : n > 1)
    (hcons : G.action_log_prob obs d' none (G.forward_head obs d none).1 = (G.forward_head obs d none).2.1)
    (hshape : G.handed isDiscrete (G.forward_head obs d none).1 = (G.forward_head obs d none).1) :
    let r := G.ppoGetAction isBox share true high low obs none d
    (G.ppoLearnMinibatch isDiscrete n share obs r.1 r.2.1 d').map (fun t => (t.1, t.2.1, t.2.2.1, t.2.2.2.1))
      = some (r.1, r.2.1, r.2.1.map (fun _ => zero), r.2.1.map (fun _ => one)) := by
  intro r
  have h1 : r.1 = (G.forward_head obs d none).1 := (C16_glue_stored_action_is_head_action G isBox share high low obs none d).1
  have h2 : r.2.1 = (G.forward_head obs d none).2.1 := rfl
  unfold Glue.ppoLearnMinibatch Glue.ppoEvaluate
  simp only [hn, if_true, h1, h2, hshape, hcons, zipWith_sub_self zero hsub, List.map_map, Option.map_some]
  have : (G.exp ∘ fun (_ : α) => zero) = fun _ => one := by funext _; exact hexp
  rw [this]

/-- the same for IPPO: the stored action is what `actor(obs)` (StochasticActor.forward) returned in training mode -/
theorem C16_glue_ippo_reevaluation_first_minibatch (G : Glue α T O M D) (zero one : α) (hsub : ∀ x : α, x - x = zero)
    (hexp : G.exp zero = one) (isBox isDiscrete : Bool) (high low : T) (obs : O) (d d' : D) (n : Nat) (hn : n > 1)
    (hcons : G.action_log_prob obs d' none (G.forward obs d none).1 = (G.forward obs d none).2.1)
    (hshape : G.handed isDiscrete (G.forward obs d none).1 = (G.forward obs d none).1) :
    let r := G.ippoGetActionAgent isBox true high low obs none d
    (G.ippoLearnMinibatch isDiscrete n obs r.1 r.2.1 d').map (fun t => (t.1, t.2.1, t.2.2.1, t.2.2.2.1))
      = some (r.1, r.2.1, r.2.1.map (fun _ => zero), r.2.1.map (fun _ => one)) := by
  intro r
  have h1 : r.1 = (G.forward obs d none).1 := by cases isBox <;> rfl
  have h2 : r.2.1 = (G.forward obs d none).2.1 := rfl
  unfold Glue.ippoLearnMinibatch
  simp only [hn, if_true, h1, h2, hshape, hcons, zipWith_sub_self zero hsub, List.map_map, Option.map_some]
  have : (G.exp ∘ fun (_ : α) => zero) = fun _ => one := by funext _; exact hexp
  rw [this]

/-- **(ii) the squeeze / unsqueeze logic keeps the action dimension** for a minibatch of `B ≥ 2` rows: a `(B, d)`
    action tensor of a Box / MultiDiscrete / MultiBinary space is handed to the actor as `(B, d)` — also for `d = 1`,
    where `squeeze()` drops the dimension and `unsqueeze(1)` restores it (the earlier defect) — and Discrete actions,
    stored as `(B,)` or `(B, 1)`, are handed over as `(B,)`.  The rows are never touched. -/
theorem C16_glue_squeeze_keeps_action_dimension {β : Type} (B d : Nat) (hB : B ≥ 2) (hd : d ≥ 1) (rows : List β) :
    handedWith Shaped.squeeze Shaped.unsqueeze Shaped.dim false ⟨[B, d], rows⟩ = ⟨[B, d], rows⟩ ∧
    handedWith Shaped.squeeze Shaped.unsqueeze Shaped.dim true ⟨[B], rows⟩ = ⟨[B], rows⟩ ∧
    handedWith Shaped.squeeze Shaped.unsqueeze Shaped.dim true ⟨[B, 1], rows⟩ = ⟨[B], rows⟩ := by
  have hB1 : (B != 1) = true := by simp; omega
  refine ⟨?_, ?_, ?_⟩
  · by_cases h1 : d = 1
    · subst h1
      simp [handedWith, Shaped.squeeze, Shaped.unsqueeze, Shaped.dim, List.filter, hB1]
    · have hd1 : (d != 1) = true := by simp [h1]
      simp [handedWith, Shaped.squeeze, Shaped.unsqueeze, Shaped.dim, List.filter, hB1, hd1]
  · simp [handedWith, Shaped.squeeze, Shaped.dim, List.filter, hB1]
  · simp [handedWith, Shaped.squeeze, Shaped.dim, List.filter, hB1]

/-- **(ii), minibatch of one row, as coded**: the guard `len(minibatch_idxs) > 1` skips it — nothing is re-evaluated,
    no loss, no update from these rows (PPO and IPPO alike), whatever the tensors hold. -/
theorem C16_glue_minibatch_of_one_skipped (G : Glue α T O M D) (isDiscrete share : Bool) (obs : O) (a : T)
    (stored : List α) (d : D) (n : Nat) (hn : n ≤ 1) :
    G.ppoLearnMinibatch isDiscrete n share obs a stored d = none ∧
    G.ippoLearnMinibatch isDiscrete n obs a stored d = none := by
  have : ¬ n > 1 := by omega
  simp [Glue.ppoLearnMinibatch, Glue.ippoLearnMinibatch, this]

/-- … and it has to: on a single row the shape logic alone would turn a `(1, 3)` action into `(3, 1)` -/
theorem C16_glue_squeeze_single_row_witness :
    ¬ (handedWith Shaped.squeeze Shaped.unsqueeze Shaped.dim false (⟨[1, 3], [()]⟩ : Shaped Unit)).shape = [1, 3] := by
  decide

/-- **(iii) WITH a mask, as coded** (`_partial`: the statement "re-evaluating gives the stored log-prob" is proved only
    under the extra hypothesis that the mask does not change the log-prob of the stored action).  `evaluate_actions`
    has no mask argument and `learn` stores none: whatever mask `m` the action was sampled under, the log-prob
    re-computed in `learn` is `action_log_prob` after a forward pass with mask `None`.  Open finding
    `C16-ppo-reevaluation-ignores-mask`; refuted in general by `C16_glue_masked_reevaluation_witness`. -/
theorem C16_glue_masked_reevaluation_partial (G : Glue α T O M D) (zero : α) (hsub : ∀ x : α, x - x = zero)
    (isBox isDiscrete share : Bool) (high low : T) (obs : O) (m : M) (d d' : D) (n : Nat) (hn : n > 1) :
    let r := G.ppoGetAction isBox share true high low obs (some m) d
    (G.ppoLearnMinibatch isDiscrete n share obs r.1 r.2.1 d').map (·.2.1)
        = some (G.action_log_prob obs d' none (G.handed isDiscrete (G.forward_head obs d (some m)).1)) ∧
    (G.action_log_prob obs d' none (G.handed isDiscrete (G.forward_head obs d (some m)).1)
        = (G.forward_head obs d (some m)).2.1 →
      (G.ppoLearnMinibatch isDiscrete n share obs r.1 r.2.1 d').map (·.2.2.1)
        = some (r.2.1.map (fun _ => zero))) := by
  intro r
  have h1 : r.1 = (G.forward_head obs d (some m)).1 :=
    (C16_glue_stored_action_is_head_action G isBox share high low obs (some m) d).1
  have h2 : r.2.1 = (G.forward_head obs d (some m)).2.1 := rfl
  refine ⟨?_, fun hc => ?_⟩
  · unfold Glue.ppoLearnMinibatch Glue.ppoEvaluate
    simp only [hn, if_true, h1, Option.map_some]
  · unfold Glue.ppoLearnMinibatch Glue.ppoEvaluate
    simp only [hn, if_true, h1, h2, hc, zipWith_sub_self zero hsub, Option.map_some]

/-- **(iv) the entropy bonus, as coded**: `learn` uses the mean of the per-row entropies of the (unmasked) forward
    pass when the policy defines an entropy, and `−mean(log_prob of the stored actions)` when it is squashed
    (`entropy is None`); `get_action` reports the per-row entropies, resp. the single number `−mean(log_prob)`;
    IPPO has no stand-in: with a squashed policy its entropy entries are `None` (`.cpu()` / `.mean()` raise). -/
theorem C16_glue_entropy_bonus (G : Glue α T O M D) (isBox isDiscrete share training : Bool) (high low : T) (obs : O)
    (mask : Option M) (a : T) (stored : List α) (d : D) (n : Nat) (hn : n > 1) :
    (∀ ents, (G.forward_head obs d none).2.2 = some ents →
      (G.ppoLearnMinibatch isDiscrete n share obs a stored d).map (·.2.2.2.2) = some (G.mean ents)) ∧
    ((G.forward_head obs d none).2.2 = none →
      (G.ppoLearnMinibatch isDiscrete n share obs a stored d).map (fun t => (t.2.1, t.2.2.2.2))
        = some (G.action_log_prob obs d none (G.handed isDiscrete a),
                -(G.mean (G.action_log_prob obs d none (G.handed isDiscrete a))))) ∧
    (∀ ents, (G.forward_head obs d mask).2.2 = some ents →
      (G.ppoGetAction isBox share training high low obs mask d).2.2.1 = .rows ents) ∧
    ((G.forward_head obs d mask).2.2 = none →
      (G.ppoGetAction isBox share training high low obs mask d).2.2.1
        = .scalar (-(G.mean (G.forward_head obs d mask).2.1))) ∧
    ((G.forward obs d mask).2.2 = none →
      (G.ippoGetActionAgent isBox training high low obs mask d).2.2.1 = none) ∧
    (G.ippoLearnMinibatch isDiscrete n obs a stored d).map (·.2.2.2.2)
      = some ((G.forward obs d none).2.2.map G.mean) := by
  refine ⟨fun ents he => ?_, fun he => ?_, fun ents he => ?_, fun he => ?_, fun he => he, ?_⟩
  · simp [Glue.ppoLearnMinibatch, Glue.ppoEvaluate, hn, he, Glue.entOf, PEnt.mean]
  · simp [Glue.ppoLearnMinibatch, Glue.ppoEvaluate, hn, he, Glue.entOf, PEnt.mean]
  · simp [Glue.ppoGetAction, he, Glue.entOf]
  · simp [Glue.ppoGetAction, he, Glue.entOf]
  · simp [Glue.ippoLearnMinibatch, hn]

end glue

/-! ### the glue over a policy that acts row by row, and over the translated source -/
section rowwise
variable {α R U Mk A : Type} [Sub α] [Neg α] [Add (Shaped A)] [Sub (Shaped A)] [Mul (Shaped A)]

/-- **(i) for a row-wise policy, every action-space kind, every batch of `B ≥ 2` rows**: if re-evaluating a row's own
    action without a mask gives that row's reported log-prob (`hrow`; per kind
    `C16_source_translation_glue_row_policies_consistent`), the first minibatch of `PPO.learn` has `logratio = 0` and
    `ratio = 1` in every row — the stored action (the head's, unscaled and unclipped) is exactly the point the stored
    log-prob was computed for, it reaches `action_log_prob` with its `(B,)` / `(B, d)` shape, and the fresh draw `us'`
    of the forward pass inside `evaluate_actions` does not matter. -/
theorem C16_glue_rowwise_reevaluation_first_minibatch
    (fw : R → U → Option Mk → A × α × Option α) (lp : R → U → Option Mk → A → α)
    (hrow : ∀ r u u', lp r u' none (fw r u none).1 = (fw r u none).2.1)
    (isDiscrete : Bool) (dA : Nat) (hd : dA ≥ 1) (exp : α → α) (mean : List α → α) (num : Rat → α) (squash : Bool)
    (scale clip : A → A) (lit : Rat → Shaped A) (value : R → α)
    (zero one : α) (hsub : ∀ x : α, x - x = zero) (hexp : exp zero = one)
    (isBox share : Bool) (high low : Shaped A) (obs : List R) (us us' : List U)
    (hB : obs.length ≥ 2) (hu : us.length = obs.length) (hu' : us'.length = obs.length) (n : Nat) (hn : n > 1) :
    let G := rowGlue fw lp isDiscrete dA exp mean num squash scale clip lit value
    let r := G.ppoGetAction isBox share true high low obs none us
    (G.ppoLearnMinibatch isDiscrete n share obs r.1 r.2.1 us').map (fun t => (t.1, t.2.1, t.2.2.1, t.2.2.2.1))
      = some (r.1, r.2.1, r.2.1.map (fun _ => zero), r.2.1.map (fun _ => one)) := by
  intro G r
  apply C16_glue_reevaluation_first_minibatch G zero one hsub hexp isBox isDiscrete share high low obs us us' n hn
  · show (if _ then _ else _) = _
    rw [if_pos (by rfl)]
    exact rowForward_reeval fw lp hrow obs us us' obs.length hu hu' rfl
  · show handedWith Shaped.squeeze Shaped.unsqueeze Shaped.dim isDiscrete _ = _
    have h := C16_glue_squeeze_keeps_action_dimension obs.length dA hB hd
      ((List.zipWith (fun (ru : R × U) mk => fw ru.1 ru.2 mk) (obs.zip us) (maskRows none obs.length)).map (·.1))
    cases isDiscrete
    · exact h.1
    · exact h.2.1

end rowwise

section source_translation_glue
variable {α : Type} [Add α] [Sub α] [Mul α] [Zero α] (P : DistGen.Prims α)

/-- **over the translated source (`Gen/DistGen.lean`)**: the row policies of every action-space kind re-evaluate their
    own unmasked action consistently — Discrete / MultiDiscrete / MultiBinary and the plain Gaussian literally, the
    squashed Gaussian if `atanh(clamp(tanh x)) = x` (the stored action is the UNSCALED `tanh(u)`) -/
theorem C16_source_translation_glue_row_policies_consistent (low high log_std : List α) (eps : α) (nvec : List Nat)
    (n : Nat) (hinv : ∀ x, genPre P eps (P.tanh x) = x) :
    (∀ l k (u' : Nat), discreteLp P l u' none (discretePolicy P l k none).1 = (discretePolicy P l k none).2.1) ∧
    (∀ l k (u' : List Nat), multiDiscreteLp P nvec l u' none (multiDiscretePolicy P nvec l k none).1
        = (multiDiscretePolicy P nvec l k none).2.1) ∧
    (∀ l k (u' : List Bool), multiBinaryLp P n l u' none (multiBinaryPolicy P n l k none).1
        = (multiBinaryPolicy P n l k none).2.1) ∧
    (∀ l u u', boxLp P false log_std eps l u' none (boxPolicy P false low high log_std l u none).1
        = (boxPolicy P false low high log_std l u none).2.1) ∧
    (∀ l u u', boxLp P true log_std eps l u' none (boxPolicy P true low high log_std l u none).1
        = (boxPolicy P true low high log_std l u none).2.1) := by
  refine ⟨fun _ _ _ => rfl, fun _ _ _ => rfl, fun _ _ _ => rfl, fun l u u' => ?_, fun l u u' => ?_⟩
  · exact (C16_source_translation_reevaluation_same_formula P low high log_std l u u' eps [] 0 [] [] false hinv
      (by simp)).2.1
  · exact (C16_source_translation_reevaluation_same_formula P low high log_std l u u' eps [] 0 [] [] false hinv
      (by simp)).1

end source_translation_glue

section source_translation_glue2
variable {α T O M D : Type} [Add T] [Sub T] [Mul T] [Add α] [Sub α] [Mul α] [Neg α]

/-- **over the translated source (`ppo.py`)**: which action and which log-prob `PPO.get_action` returns
    (`C16_glue_stored_action_is_head_action` for the generated `get_action`) -/
theorem C16_source_translation_glue_stored_action (G : Glue α T O M D) (isBox share : Bool) (high low : T) (obs : O)
    (mask : Option M) (d : D) :
    (PpoGlueGen.PPO.get_action (toGen G) isBox share true high low obs mask d).1 = (G.forward_head obs d mask).1 ∧
    (∀ training, (PpoGlueGen.PPO.get_action (toGen G) isBox share training high low obs mask d).2.1
        = (G.forward_head obs d mask).2.1) ∧
    (PpoGlueGen.PPO.get_action (toGen G) true share false high low obs mask d).1
      = (if G.squash_output then low + G.lit (1 / 2) * ((G.forward_head obs d mask).1 + G.lit 1) * (high - low)
         else G.clip (G.forward_head obs d mask).1 low high) ∧
    (PpoGlueGen.IPPO.get_action_agent (toGen G) isBox true high low obs mask d).1 = (G.forward obs d mask).1 ∧
    (PpoGlueGen.IPPO.get_action_agent (toGen G) true false high low obs mask d).1
      = (if G.squash_output then G.scale_action (G.forward obs d mask).1 else G.clip (G.forward obs d mask).1 low high) := by
  have h := C16_glue_stored_action_is_head_action G isBox share high low obs mask d
  refine ⟨?_, fun t => ?_, ?_, ?_, ?_⟩
  · rw [gen_ppo_get_action_eq]; exact h.1
  · rw [gen_ppo_get_action_eq]; exact h.2.1 t
  · rw [gen_ppo_get_action_eq]; exact (C16_glue_stored_action_is_head_action G true share high low obs mask d).2.2.2
  · rw [gen_ippo_get_action_agent_eq]; cases isBox <;> rfl
  · rw [gen_ippo_get_action_agent_eq]; rfl

/-- **over the translated source**: (i) for the generated `get_action` / `learn_minibatch` of PPO and IPPO -/
theorem C16_source_translation_glue_reevaluation_first_minibatch (G : Glue α T O M D) (zero one : α)
    (hsub : ∀ x : α, x - x = zero) (hexp : G.exp zero = one) (isBox isDiscrete share : Bool) (high low : T) (obs : O)
    (d d' : D) (n : Nat) (hn : n > 1) :
    (G.action_log_prob obs d' none (G.forward_head obs d none).1 = (G.forward_head obs d none).2.1 →
     G.handed isDiscrete (G.forward_head obs d none).1 = (G.forward_head obs d none).1 →
      let r := PpoGlueGen.PPO.get_action (toGen G) isBox share true high low obs none d
      (PpoGlueGen.PPO.learn_minibatch (toGen G) isDiscrete n share obs r.1 r.2.1 d').map
          (fun t => (t.1, t.2.1, t.2.2.1, t.2.2.2.1))
        = some (r.1, r.2.1, r.2.1.map (fun _ => zero), r.2.1.map (fun _ => one))) ∧
    (G.action_log_prob obs d' none (G.forward obs d none).1 = (G.forward obs d none).2.1 →
     G.handed isDiscrete (G.forward obs d none).1 = (G.forward obs d none).1 →
      let r := PpoGlueGen.IPPO.get_action_agent (toGen G) isBox true high low obs none d
      (PpoGlueGen.IPPO.learn_minibatch (toGen G) isDiscrete n obs r.1 r.2.1 d').map
          (fun t => (t.1, t.2.1, t.2.2.1, t.2.2.2.1))
        = some (r.1, r.2.1, r.2.1.map (fun _ => zero), r.2.1.map (fun _ => one))) := by
  refine ⟨fun hc hs => ?_, fun hc hs => ?_⟩
  · intro r
    simp only [r, gen_ppo_get_action_eq, gen_ppo_learn_minibatch_eq]
    exact C16_glue_reevaluation_first_minibatch G zero one hsub hexp isBox isDiscrete share high low obs d d' n hn hc hs
  · intro r
    simp only [r, gen_ippo_get_action_agent_eq, gen_ippo_learn_minibatch_eq]
    exact C16_glue_ippo_reevaluation_first_minibatch G zero one hsub hexp isBox isDiscrete high low obs d d' n hn hc hs

/-- **over the translated source**: (ii) the generated minibatch slice hands a `(B, d)` action over as `(B, d)`
    (`B ≥ 2`, `d ≥ 1`, non-Discrete), Discrete actions as `(B,)`, and skips a minibatch of one row -/
theorem C16_source_translation_glue_squeeze (G : Glue α (Shaped β) O M D) [Add (Shaped β)] [Sub (Shaped β)] [Mul (Shaped β)]
    (hs : G.squeeze = Shaped.squeeze) (hu : G.unsqueeze = Shaped.unsqueeze) (hdim : G.dim = Shaped.dim)
    (B d : Nat) (hB : B ≥ 2) (hd : d ≥ 1) (rows : List β) (share : Bool) (obs : O) (stored : List α) (dr : D)
    (n : Nat) (hn : n > 1) :
    (PpoGlueGen.PPO.learn_minibatch (toGen G) false n share obs ⟨[B, d], rows⟩ stored dr).map (·.1)
      = some ⟨[B, d], rows⟩ ∧
    (PpoGlueGen.IPPO.learn_minibatch (toGen G) false n obs ⟨[B, d], rows⟩ stored dr).map (·.1)
      = some ⟨[B, d], rows⟩ ∧
    (PpoGlueGen.PPO.learn_minibatch (toGen G) true n share obs ⟨[B], rows⟩ stored dr).map (·.1) = some ⟨[B], rows⟩ ∧
    (∀ isDiscrete a, PpoGlueGen.PPO.learn_minibatch (toGen G) isDiscrete 1 share obs a stored dr = none ∧
                     PpoGlueGen.IPPO.learn_minibatch (toGen G) isDiscrete 1 obs a stored dr = none) := by
  have h := C16_glue_squeeze_keeps_action_dimension B d hB hd rows
  refine ⟨?_, ?_, ?_, fun isD a => ?_⟩
  · rw [gen_ppo_learn_minibatch_eq]
    simp only [Glue.ppoLearnMinibatch, hn, if_true, Option.map_some, Glue.handed, hs, hu, hdim, h.1]
  · rw [gen_ippo_learn_minibatch_eq]
    simp only [Glue.ippoLearnMinibatch, hn, if_true, Option.map_some, Glue.handed, hs, hu, hdim, h.1]
  · rw [gen_ppo_learn_minibatch_eq]
    simp only [Glue.ppoLearnMinibatch, hn, if_true, Option.map_some, Glue.handed, hs, hu, hdim, h.2.1]
  · rw [gen_ppo_learn_minibatch_eq, gen_ippo_learn_minibatch_eq]
    exact C16_glue_minibatch_of_one_skipped G isD share obs a stored dr 1 (Nat.le_refl 1)

/-- **over the translated source**: (iii) the generated `learn` slice re-evaluates WITHOUT the mask the action was
    sampled under (`_partial`, open finding `C16-ppo-reevaluation-ignores-mask`) -/
theorem C16_source_translation_glue_masked_reevaluation_partial (G : Glue α T O M D) (zero : α)
    (hsub : ∀ x : α, x - x = zero) (isBox isDiscrete share : Bool) (high low : T) (obs : O) (m : M) (d d' : D)
    (n : Nat) (hn : n > 1) :
    let r := PpoGlueGen.PPO.get_action (toGen G) isBox share true high low obs (some m) d
    (PpoGlueGen.PPO.learn_minibatch (toGen G) isDiscrete n share obs r.1 r.2.1 d').map (·.2.1)
        = some (G.action_log_prob obs d' none (G.handed isDiscrete (G.forward_head obs d (some m)).1)) ∧
    (G.action_log_prob obs d' none (G.handed isDiscrete (G.forward_head obs d (some m)).1)
        = (G.forward_head obs d (some m)).2.1 →
      (PpoGlueGen.PPO.learn_minibatch (toGen G) isDiscrete n share obs r.1 r.2.1 d').map (·.2.2.1)
        = some (r.2.1.map (fun _ => zero))) := by
  intro r
  simp only [r, gen_ppo_get_action_eq, gen_ppo_learn_minibatch_eq]
  exact C16_glue_masked_reevaluation_partial G zero hsub isBox isDiscrete share high low obs m d d' n hn

/-- **over the translated source**: (iv) the entropy bonus of the generated slices -/
theorem C16_source_translation_glue_entropy_bonus (G : Glue α T O M D) (isDiscrete share : Bool) (obs : O)
    (a : T) (stored : List α) (d : D) (n : Nat) (hn : n > 1) :
    (∀ ents, (G.forward_head obs d none).2.2 = some ents →
      (PpoGlueGen.PPO.learn_minibatch (toGen G) isDiscrete n share obs a stored d).map (·.2.2.2.2) = some (G.mean ents)) ∧
    ((G.forward_head obs d none).2.2 = none →
      (PpoGlueGen.PPO.learn_minibatch (toGen G) isDiscrete n share obs a stored d).map (fun t => (t.2.1, t.2.2.2.2))
        = some (G.action_log_prob obs d none (G.handed isDiscrete a),
                -(G.mean (G.action_log_prob obs d none (G.handed isDiscrete a))))) ∧
    (PpoGlueGen.IPPO.learn_minibatch (toGen G) isDiscrete n obs a stored d).map (·.2.2.2.2)
      = some ((G.forward obs d none).2.2.map G.mean) := by
  have h := C16_glue_entropy_bonus G false isDiscrete share true (G.lit 0) (G.lit 0) obs none a stored d n hn
  rw [gen_ppo_learn_minibatch_eq, gen_ippo_learn_minibatch_eq]
  exact ⟨h.1, h.2.1, h.2.2.2.2.2⟩

end source_translation_glue2

/-- **(iii) decided witness** (consistent with the open finding `C16-ppo-reevaluation-ignores-mask`): two rows of a
    Discrete(2) policy with logits `[0, 0]`, both sampled under the mask `[1, 0]`; the generated `learn` slice
    re-evaluates the stored actions without the mask and `logratio` is not 0, with unchanged weights -/
theorem C16_source_translation_glue_masked_reevaluation_witness :
    ¬ (let r := witGlue.forward_head [[0, 0], [0, 0]] [0, 0] (some [[true, false], [true, false]])
       (PpoGlueGen.PPO.learn_minibatch (toGen witGlue) true 2 false [[0, 0], [0, 0]] r.1 r.2.1 [0, 0]).map (·.2.2.1)
         = some (r.2.1.map (fun _ => 0))) := by
  decide

/-- … while without a mask the same two rows are re-evaluated to `logratio = 0` -/
theorem C16_source_translation_glue_unmasked_reevaluation_example :
    (let r := witGlue.forward_head [[0, 0], [0, 0]] [0, 1] none
     (PpoGlueGen.PPO.learn_minibatch (toGen witGlue) true 2 false [[0, 0], [0, 0]] r.1 r.2.1 [1, 0]).map (·.2.2.1)
       = some (r.2.1.map (fun _ => 0))) := by
  decide

/-! #### non-vacuity of the glue theorems -/

-- the hypotheses of `C16_glue_reevaluation_first_minibatch` hold for a concrete two-row Discrete(2) policy:
-- consistent re-evaluation after another draw, and the `(2,)` action tensor is handed over intact
example : witGlue.action_log_prob [[0, 0], [0, 0]] [1, 1] none (witGlue.forward_head [[0, 0], [0, 0]] [0, 1] none).1
    = (witGlue.forward_head [[0, 0], [0, 0]] [0, 1] none).2.1 := by decide
example : (witGlue.handed true (witGlue.forward_head [[0, 0], [0, 0]] [0, 1] none).1).shape
    = (witGlue.forward_head [[0, 0], [0, 0]] [0, 1] none).1.shape := by decide
-- `x - x = 0` and `exp 0 = 1` for the witness carrier (`exp := id` would need `0 = 1`: the hypotheses are about the
-- real `exp`; over `Int` with `exp := fun x => x + 1` they hold)
example : (∀ x : Int, x - x = 0) ∧ (fun x : Int => x + 1) 0 = 1 := ⟨fun x => Int.sub_self x, rfl⟩
-- a `(3, 1)` MultiBinary(1) minibatch: squeeze drops the action dimension, unsqueeze(1) restores it
example : (handedWith Shaped.squeeze Shaped.unsqueeze Shaped.dim false (⟨[3, 1], [(), (), ()]⟩ : Shaped Unit)).shape
    = [3, 1] := by decide
-- the row-policy hypothesis `atanh(clamp(tanh x)) = x` of the squashed Gaussian is satisfiable (`exPrims`)
example : ∀ x, genPre exPrims 0 (exPrims.tanh x) = x := fun _ => rfl

end Dist
