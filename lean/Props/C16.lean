import Proofs.DistReal
import Proofs.DistGenEq

/-!
# C16 — stochastic policies report the true log-probability and entropy of their actions

Model: `Model/Dist.lean` — the composition logic of `agilerl/networks/distributions.py`
(`TorchDistribution`, `EvolvableDistribution`), generic in the carrier and in the component
log-densities.  Theorems over lists hold for every `nvec`, every number of components and every
carrier; theorems about `exp/log/tanh` are over ℝ with Mathlib's functions.

Derived here: slice offsets of `torch.split`; selection and summation of the matching component
entries; masking commutes with splitting; the softmax mass bound of a masked logit; additivity of
Shannon entropy and of log-probability over independent components; `tanh′ = 1 − tanh²`
(from Mathlib's `sinh/cosh` derivatives) and the algebra that turns the change-of-variables formula
into the `− Σ log(1 − a²)` correction; state-independence of the repaired `log_prob`.

Only stated (not derived from measure theory): the change-of-variables rule itself, i.e. that the
density of `a = g(u)` for a differentiable strictly increasing `g` is `f(u) / g′(u)`; that the
Gaussian / Bernoulli / Categorical component values handed to the model are the true component
log-probabilities (those come from `torch.distributions`, cross-checked by the harness oracle);
float32 rounding (the bound of `C16_masked_prob_bound` is below the smallest float32 subnormal as
soon as `1e8 − spread > 104`, which is what makes the masked probability exactly zero in floats).

Source translation (`C16_source_translation_*`, last section): `harness/py2lean_dist.py` executes
`agilerl/networks/distributions.py` and `StochasticActor.{__init__, forward, action_log_prob, action_entropy,
scale_action}` symbolically, once per action-space kind, and writes `Gen/DistGen.lean` (regenerated from the tree
under test on every run); `Proofs/DistGenEq.lean` proves those definitions equal to the composition functions of
`Model/Dist.lean`, and the main theorems above are restated over the generated definitions with the elementary
functions and primitive log-densities as the explicit parameter structure `DistGen.Prims`.
-/
namespace Dist
open Util

variable {α : Type}

/-- `torch.split(logits, nvec, dim=1)`: there are `len(nvec)` components, component `k` has
    `nvec[k]` entries, and its entry `j` is entry `offset k + j = nvec[0]+…+nvec[k-1] + j` of the
    flat vector — for every `nvec`. -/
theorem C16_split_offsets (xs : List α) (nvec : List Nat) (hlen : xs.length = nvec.sum) :
    (splitSizes xs nvec).length = nvec.length ∧
    ∀ k (hk : k < nvec.length), ∃ part, (splitSizes xs nvec)[k]? = some part ∧
      part.length = nvec[k] ∧ ∀ j, j < nvec[k] → part[j]? = xs[offset nvec k + j]? := by
  refine ⟨splitSizes_length xs nvec, fun k hk => ?_⟩
  refine ⟨_, splitSizes_getElem? xs nvec k hk, ?_, ?_⟩
  · have h1 : offset nvec k + nvec[k] ≤ nvec.sum := by
      have : offset nvec (k + 1) = offset nvec k + nvec[k] := by
        simp only [offset, List.take_add_one, List.getElem?_eq_getElem hk, Option.toList_some,
          List.sum_append, List.sum_cons, List.sum_nil, Nat.add_zero]
      rw [← this]
      exact List.Sublist.sum_le_sum (List.take_sublist _ _) (by simp)
    simp only [List.length_take, List.length_drop]; omega
  · intro j hj
    rw [List.getElem?_take_of_lt hj, List.getElem?_drop]

/-- the reported log-probability of a MultiDiscrete action is the sum, over **all** `len(nvec)`
    components, of the entry that action coordinate `k` selects in **its own** slice of the flat
    per-outcome table (flat position `offset k + action[k]`) — no component dropped, none counted
    twice, no slice shifted. -/
theorem C16_sum_over_components [Add α] [Zero α] (nvec : List Nat) (flat : List α)
    (action : List Nat) (hlen : flat.length = nvec.sum) (hact : action.length = nvec.length)
    (hval : ∀ k (hk : k < nvec.length), action[k]'(by omega) < nvec[k]) :
    ∃ vals : List α, multiDiscreteLogProb nvec flat action = some vals.sum ∧
      vals.length = nvec.length ∧
      ∀ k (hk : k < nvec.length), offset nvec k + action[k]'(by omega) < flat.length ∧
        vals[k]? = flat[offset nvec k + action[k]'(by omega)]? := by
  obtain ⟨vals, h1, h2, h3⟩ := select_spec nvec flat action (by omega) hact hval
  exact ⟨vals, by simp [multiDiscreteLogProb, multiCatLogProb, h1], h2, h3⟩

/-- an action coordinate outside its component (index ≥ `nvec[k]`) is rejected, it never reads
    the neighbouring component's slice -/
theorem C16_sum_over_components_reject [Add α] [Zero α] (nvec : List Nat) (flat : List α)
    (action : List Nat) (k : Nat) (hk : k < nvec.length) (hka : k < action.length)
    (hbad : nvec[k] ≤ action[k]) : multiDiscreteLogProb nvec flat action = none := by
  have hz : (List.zipWith catLogProb (splitSizes flat nvec) action)[k]? = some none := by
    rw [List.getElem?_zipWith, splitSizes_getElem? flat nvec k hk, List.getElem?_eq_getElem hka]
    simp only [catLogProb, Option.some.injEq]
    rw [List.getElem?_eq_none]
    simp only [List.length_take]; omega
  have : ∀ (l : List (Option α)) (k : Nat), l[k]? = some none → allSome l = none := by
    intro l
    induction l with
    | nil => intro k h; simp at h
    | cons x r ih =>
      intro k h
      cases k with
      | zero => simp at h; subst h; rfl
      | succ k =>
        cases x with
        | none => rfl
        | some v => rw [allSome_cons_some, ih k (by simpa using h)]; rfl
  simp [multiDiscreteLogProb, multiCatLogProb, this _ k hz]

/-- MultiBinary: bit `i` contributes `log p_i(1)` when set and `log p_i(0)` when clear, and the
    reported value is the sum over all bits -/
theorem C16_sum_over_components_bits [Add α] [Zero α] (lp1 lp0 : List α) (bits : List Bool)
    (h0 : lp0.length = lp1.length) (hb : bits.length = lp1.length) :
    ∃ terms : List α, bernLogProb lp1 lp0 bits = terms.sum ∧ terms.length = lp1.length ∧
      ∀ i (hi : i < lp1.length),
        terms[i]? = some (if bits[i] then lp1[i] else lp0[i]) := by
  refine ⟨_, rfl, by simp [h0, hb], fun i hi => ?_⟩
  have hz : (lp1.zip lp0)[i]? = some (lp1[i], lp0[i]) := by
    rw [List.getElem?_eq_getElem (by simp; omega)]; simp [List.getElem_zip]
  simp [List.getElem?_zipWith, hz, List.getElem?_eq_getElem (show i < bits.length by omega)]

/-- Box: dimension `i` contributes its own Gaussian log-density evaluated at coordinate `i` of the
    point, summed over all dimensions -/
theorem C16_sum_over_components_normal [Add α] [Zero α] (comp : List (α → α)) (x : List α)
    (h : x.length = comp.length) :
    ∃ terms : List α, indepLogProb comp x = terms.sum ∧ terms.length = comp.length ∧
      ∀ i (hi : i < comp.length), terms[i]? = some (comp[i] x[i]) := by
  refine ⟨_, rfl, by simp [h], fun i hi => ?_⟩
  simp [List.getElem?_zipWith, List.getElem?_eq_getElem hi,
    List.getElem?_eq_getElem (show i < x.length by omega)]

/-- why a *sum*: for independent components with non-zero probabilities `p_k`, the log of the
    joint probability `∏ p_k` is the sum of the component log-probabilities (ℝ, Mathlib `log`) -/
theorem C16_log_joint_is_sum (p : List ℝ) (hp : ∀ x ∈ p, x ≠ 0) :
    Real.log p.prod = (p.map Real.log).sum := Real.log_list_prod hp

/-- `apply_mask` masks each split separately; that is the same as masking the flat vector and
    splitting afterwards, every allowed logit is unchanged and every masked one is exactly `neg` -/
theorem C16_mask_before_split (neg : α) (nvec : List Nat) (ls : List α) (ms : List Bool)
    (hl : ls.length = nvec.sum) (hm : ms.length = ls.length) :
    maskSplit neg nvec ls ms = splitSizes (maskLogits neg ls ms) nvec ∧
    (maskSplit neg nvec ls ms).flatten = maskLogits neg ls ms ∧
    ∀ i (hi : i < ls.length),
      (maskLogits neg ls ms)[i]? = some (if ms[i] then ls[i] else neg) := by
  refine ⟨maskSplit_eq neg nvec ls ms, ?_, fun i hi => maskLogits_getElem? neg ls ms i hi (by omega)⟩
  rw [maskSplit_eq]
  exact flatten_splitSizes _ _ (by rw [maskLogits_length]; omega)

/-- masked actions have (numerically) zero probability: if the masked logit is `−1e8` and some
    allowed logit of the same component is at least `−spread`, the softmax mass of the masked
    action is at most `exp(−(1e8 − spread))`.  (The hypothesis is about the allowed logit's
    absolute size: a network that outputs logits below `−1e8` defeats the mask.) -/
theorem C16_masked_prob_bound (ls : List ℝ) (ms : List Bool) (hm : ms.length = ls.length)
    (i m : Nat) (hi : i < ls.length) (hmm : m < ls.length)
    (hmask : ms[i] = false) (hallow : ms[m] = true) (spread : ℝ) (hs : -spread ≤ ls[m]) :
    softmaxAt (maskLogits (-1e8) ls ms) i ≤ Real.exp (-(1e8 - spread)) := by
  have hlen : (maskLogits (-1e8 : ℝ) ls ms).length = ls.length := by
    rw [maskLogits_length]; omega
  have e1 := maskLogits_getElem? (-1e8 : ℝ) ls ms i hi (by omega)
  have e2 := maskLogits_getElem? (-1e8 : ℝ) ls ms m hmm (by omega)
  rw [hmask] at e1; rw [hallow] at e2
  simp only [Bool.false_eq_true, if_false, if_true] at e1 e2
  have hi' : i < (maskLogits (-1e8 : ℝ) ls ms).length := by omega
  have hm' : m < (maskLogits (-1e8 : ℝ) ls ms).length := by omega
  rw [List.getElem?_eq_getElem hi'] at e1
  rw [List.getElem?_eq_getElem hm'] at e2
  apply softmaxAt_le _ i m hi' hm'
  rw [Option.some.inj e1, Option.some.inj e2]
  linarith

/-- entropy of the composed distribution is the sum of the component entropies; with squashing
    the code reports no entropy (`None`) -/
theorem C16_entropy_sum [Add α] [Zero α] [Sub α] (comp : List (α → α)) (s : Option (List α))
    (ents : List α) :
    (TorchDist.entropy { comp := comp, squash := false, sampled := s } ents = some ents.sum) ∧
    (TorchDist.entropy { comp := comp, squash := true, sampled := s } ents = none) := by
  simp [TorchDist.entropy, sumEntropy]

/-- why a sum: Shannon entropy of two independent finite components is additive (ℝ) -/
theorem C16_entropy_sum_independent {ι κ : Type} [Fintype ι] [Fintype κ] (p : ι → ℝ) (q : κ → ℝ)
    (hp : ∑ i, p i = 1) (hq : ∑ j, q j = 1) :
    shannon (fun ij : ι × κ => p ij.1 * q ij.2) = shannon p + shannon q :=
  shannon_prod p q hp hq

/-- **repaired code**: re-evaluating an action is a function of the action and the current
    parameters only.  Whatever the cache holds and whether or not the action is the one that was
    just sampled, the result is the Gaussian at the action's own pre-image minus the correction
    on the action.  (`pre ∘ th = id`: `atanh (tanh u) = u`.) -/
theorem C16_eval_stored_action [Add α] [Zero α] [Sub α] (comp : List (α → α)) (corr th pre : α → α)
    (hinv : ∀ x, pre (th x) = x) (s : Option (List α)) (fresh : Bool) (a : List α)
    (hfresh : fresh = true → ∃ u, s = some u ∧ a = u.map th) :
    TorchDist.logProbFixed { comp := comp, squash := true, sampled := s } corr fresh a (a.map pre)
      = indepLogProb comp (a.map pre) - (a.map corr).sum := by
  unfold TorchDist.logProbFixed
  simp only [if_true]
  cases fresh with
  | false => rfl
  | true =>
    obtain ⟨u, rfl, rfl⟩ := hfresh rfl
    have : (u.map th).map pre = u := by
      rw [List.map_map]; conv_rhs => rw [← List.map_id u]
      exact List.map_congr_left (fun x _ => hinv x)
    simp [this]

/-- in particular the value `evaluate_actions` computes for a stored action does not depend on
    the action drawn by the forward pass that precedes it -/
theorem C16_eval_stored_action_no_hidden_state [Add α] [Zero α] [Sub α] (comp : List (α → α))
    (corr th : α → α) (u' u'' a preA : List α) :
    evalStoredFixed comp corr th u' a preA = evalStoredFixed comp corr th u'' a preA := rfl

/-- on the action that has just been sampled the snapshot code and the repaired code agree -/
theorem C16_fresh_sample_agrees [Add α] [Zero α] [Sub α] (comp : List (α → α)) (corr th : α → α)
    (u preA : List α) :
    let d := (({ comp := comp, squash := true : TorchDist α }).sample th u)
    d.1.logProbCode corr d.2 = some (d.1.logProbFixed corr true d.2 preA) := by
  simp [TorchDist.sample, TorchDist.logProbCode, TorchDist.logProbFixed]

/-- **snapshot code** (defect D10): with squashing the value reported for a stored action depends
    on the draw of the intervening forward pass — concrete witness over `Int` -/
theorem C16_eval_stored_action_code_witness :
    ¬ (∀ u' u'' a : List Int,
        evalStoredCode [fun x => -(x * x)] (fun _ => 0) id u' a
          = evalStoredCode [fun x => -(x * x)] (fun _ => 0) id u'' a) := by
  intro h
  have := h [0] [1] [5]
  revert this
  decide

/-- the change-of-variables term.  *Stated*: the log-density of `a = tanh u` is
    `log f(u) − log tanh′(u)` per dimension.  *Derived*: `tanh′ = 1 − tanh²` (so the argument of the
    log is positive) and the identity between that formula and what the (repaired) code computes
    with `ε = 0`: `Σ log N_i(u_i) − Σ log(1 − a_i²)` for `a = tanh u`. -/
theorem C16_squash_correction (comp : List (ℝ → ℝ)) (u : List ℝ) (hlen : comp.length = u.length)
    (s : Option (List ℝ)) (fresh : Bool) (hfresh : fresh = true → s = some u) :
    TorchDist.logProbFixed { comp := comp, squash := true, sampled := s }
        (fun a => Real.log (1 - a ^ 2)) fresh (u.map Real.tanh) u
      = (List.zipWith (fun f x => f x - Real.log (deriv Real.tanh x)) comp u).sum ∧
    ∀ x : ℝ, deriv Real.tanh x = 1 - Real.tanh x ^ 2 ∧ 0 < 1 - Real.tanh x ^ 2 := by
  constructor
  · have key : indepLogProb comp u - ((u.map Real.tanh).map (fun a => Real.log (1 - a ^ 2))).sum
        = (List.zipWith (fun f x => f x - Real.log (deriv Real.tanh x)) comp u).sum := by
      have := sum_zipWith_sub comp u (fun x => Real.log (1 - Real.tanh x ^ 2)) hlen
      simp only [indepLogProb, List.map_map, Function.comp_def]
      rw [this]
      simp only [deriv_tanh]
    cases fresh with
    | false => simpa [TorchDist.logProbFixed] using key
    | true =>
      have hs := hfresh rfl
      subst hs
      simpa [TorchDist.logProbFixed] using key
  · intro x
    exact ⟨deriv_tanh x, by have := deriv_tanh_pos x; rwa [deriv_tanh] at this⟩

/-- the `1e-6` inside the code's logarithm shifts each correction term by at most `ε / (1 − a²)` -/
theorem C16_squash_eps_bound (a eps : ℝ) (ha : a ^ 2 < 1) (he : 0 ≤ eps) :
    0 ≤ Real.log (1 - a ^ 2 + eps) - Real.log (1 - a ^ 2) ∧
    Real.log (1 - a ^ 2 + eps) - Real.log (1 - a ^ 2) ≤ eps / (1 - a ^ 2) := by
  have hx : 0 < 1 - a ^ 2 := by linarith
  constructor
  · have := Real.log_le_log hx (show 1 - a ^ 2 ≤ 1 - a ^ 2 + eps by linarith)
    linarith
  · rw [← Real.log_div (by linarith) hx.ne']
    have h1 : 0 < (1 - a ^ 2 + eps) / (1 - a ^ 2) := div_pos (by linarith) hx
    have := Real.log_le_sub_one_of_pos h1
    have e : (1 - a ^ 2 + eps) / (1 - a ^ 2) - 1 = eps / (1 - a ^ 2) := by
      field_simp; ring
    linarith

/-! ### the theorems over the definitions generated from the source text (`Gen/DistGen.lean`) -/

section source_translation
set_option linter.unusedSectionVars false
variable [Add α] [Sub α] [Mul α] [Zero α] (P : DistGen.Prims α)

/-- **over the translated source**: which `torch.distributions` object is built for which action space (read off
    the `isinstance` chain of `get_distribution` and the `_handlers` table in source order), the std is
    `exp(log_std)`, squashing is switched on only for Box, any other space class raises. -/
theorem C16_source_translation_distribution_per_space (log_std logits : List α) (nvec : List Nat)
    (sq : Bool) (init : α) (d : Nat) :
    DistGen.Box.distribution P log_std logits = .normal logits (log_std.map P.exp) ∧
    DistGen.Discrete.distribution P logits = .categorical logits ∧
    DistGen.MultiDiscrete.distribution P nvec logits = .categoricals (splitSizes logits nvec) ∧
    DistGen.MultiBinary.distribution P logits = .bernoulli logits ∧
    DistGen.Other.distribution_raises = "NotImplementedError" ∧
    DistGen.Box.log_std_init P init d = List.replicate d (P.lit 1 * init) ∧
    (DistGen.Box.squash_flag P sq = sq ∧ DistGen.Discrete.squash_flag P = false ∧
      DistGen.MultiDiscrete.squash_flag P = false ∧ DistGen.MultiBinary.squash_flag P = false) :=
  ⟨gen_distribution_box_eq P _ _, gen_distribution_discrete_eq P _, gen_distribution_multiDiscrete_eq P _ _,
   gen_distribution_multiBinary_eq P _, rfl, gen_log_std_init_eq P _ _, gen_squash_flag_eq P sq⟩

/-- **over the translated source** (MultiDiscrete): the action returned is the draw, and the reported log-probability
    is the sum over **all** `len(nvec)` components of the primitive categorical log-probability of coordinate `k` under
    **its own** slice `[offset k, offset k + nvec[k])` of the logits. -/
theorem C16_source_translation_sum_over_components (nvec : List Nat) (logits : List α)
    (action : List Nat) (hact : action.length = nvec.length) :
    (DistGen.MultiDiscrete.forward P nvec logits action).1 = action ∧
    ∃ vals : List α, (DistGen.MultiDiscrete.forward P nvec logits action).2.1 = vals.sum ∧
      vals.length = nvec.length ∧
      ∀ k (hk : k < nvec.length), vals[k]? =
        some (P.categoricalLogProb ((logits.drop (offset nvec k)).take nvec[k]) (action[k]'(by omega))) := by
  rw [gen_multiDiscrete_forward_eq]
  refine ⟨rfl, _, rfl, by simp [splitSizes_length, hact], fun k hk => ?_⟩
  rw [List.getElem?_zipWith, splitSizes_getElem? logits nvec k hk,
    List.getElem?_eq_getElem (show k < action.length by omega)]

/-- the same through the hand model: when a table `tbl` tabulates the primitive, the model's split / select / sum
    (`multiCatLogProb`, the subject of `C16_sum_over_components`) returns exactly the generated value -/
theorem C16_source_translation_sum_over_components_model (tbl : List α → List α)
    (hP : ∀ l k, k < (tbl l).length → (tbl l)[k]? = some (P.categoricalLogProb l k))
    (nvec : List Nat) (logits : List α) (action : List Nat)
    (hval : List.Forall₂ (fun part k => k < (tbl part).length) (splitSizes logits nvec) action) :
    multiCatLogProb ((splitSizes logits nvec).map tbl) action
      = some (DistGen.MultiDiscrete.forward P nvec logits action).2.1 :=
  gen_multiDiscrete_log_prob_eq P tbl hP nvec logits action hval

/-- **over the translated source** (MultiBinary): bit `i` contributes the primitive Bernoulli log-probability of
    that bit under logit `i`; the reported value is the sum over all bits -/
theorem C16_source_translation_sum_over_components_bits (logits : List α) (bits : List Bool)
    (hb : bits.length = logits.length) :
    ∃ terms : List α, (DistGen.MultiBinary.forward P logits bits).2.1 = terms.sum ∧
      terms.length = logits.length ∧
      ∀ i (hi : i < logits.length), terms[i]? = some (P.bernoulliLogProb logits[i] (bits[i]'(by omega))) := by
  refine ⟨List.zipWith P.bernoulliLogProb logits bits, rfl, by simp [hb], fun i hi => ?_⟩
  simp [List.getElem?_zipWith, List.getElem?_eq_getElem hi,
    List.getElem?_eq_getElem (show i < bits.length by omega)]

/-- **over the translated source** (Box, no squashing): dimension `i` contributes the primitive Gaussian log-density
    with mean `logits[i]` and std `exp(log_std[i])` at coordinate `i` of the draw; summed over all dimensions -/
theorem C16_source_translation_sum_over_components_normal (low high log_std logits u : List α)
    (hs : log_std.length = logits.length) (hu : u.length = logits.length) :
    (DistGen.Box.forward P false low high log_std logits u).1 = u ∧
    ∃ terms : List α, (DistGen.Box.forward P false low high log_std logits u).2.1 = terms.sum ∧
      terms.length = logits.length ∧
      ∀ i (hi : i < logits.length), terms[i]? =
        some (P.normalLogPdf logits[i] (P.exp (log_std[i]'(by omega))) (u[i]'(by omega))) := by
  refine ⟨rfl, DistGen.zipWith3 P.normalLogPdf logits (log_std.map P.exp) u, rfl, ?_, fun i hi => ?_⟩
  · simp [gen_zipWith3_eq, hs, hu]
  · simp [gen_zipWith3_eq, List.getElem?_zipWith, List.getElem?_eq_getElem hi,
      List.getElem?_eq_getElem (show i < log_std.length by omega),
      List.getElem?_eq_getElem (show i < u.length by omega)]

/-- **over the translated source**: the reported entropy is the sum of the component entropies for every space;
    with squashing `forward` and `action_entropy` report `None` -/
theorem C16_source_translation_entropy_sum (low high log_std logits u : List α) (nvec : List Nat)
    (act : List Nat) (bits : List Bool) :
    (DistGen.Box.forward P false low high log_std logits u).2.2
      = some (List.zipWith P.normalEntropy logits (log_std.map P.exp)).sum ∧
    (DistGen.Box.forward P true low high log_std logits u).2.2 = none ∧
    DistGen.Box.entropy_stored P true log_std logits = none ∧
    DistGen.Box.entropy_stored P false log_std logits
      = some (List.zipWith P.normalEntropy logits (log_std.map P.exp)).sum ∧
    (DistGen.MultiDiscrete.forward P nvec logits act).2.2
      = ((splitSizes logits nvec).map P.categoricalEntropy).sum ∧
    (DistGen.MultiBinary.forward P logits bits).2.2 = (logits.map P.bernoulliEntropy).sum ∧
    (DistGen.Discrete.forward P logits 0).2.2 = P.categoricalEntropy logits := by
  refine ⟨rfl, rfl, rfl, rfl, ?_, rfl, rfl⟩
  rw [gen_multiDiscrete_forward_eq]; rfl

/-- **over the translated source**: `apply_mask` keeps an allowed logit and writes exactly the source's constant
    (`P.lit (-100000000)`: −1e8) into a masked position, for Discrete on the flat vector and for MultiDiscrete /
    MultiBinary per split (which is the same as on the flat vector); a Box space with a mask raises. -/
theorem C16_source_translation_masked_logits (nvec : List Nat) (n : Nat) (ls : List α) (ms : List Bool)
    (hm : ms.length = ls.length) :
    DistGen.Discrete.masked_logits P ls ms = maskLogits (P.lit (-100000000)) ls ms ∧
    (ls.length = nvec.sum →
      DistGen.MultiDiscrete.masked_logits P nvec ls ms = maskLogits (P.lit (-100000000)) ls ms) ∧
    (ls.length = n → DistGen.MultiBinary.masked_logits P n ls ms = maskLogits (P.lit (-100000000)) ls ms) ∧
    (∀ i (hi : i < ls.length), (maskLogits (P.lit (-100000000)) ls ms)[i]?
        = some (if ms[i] then ls[i] else P.lit (-100000000))) ∧
    DistGen.Box.masked_logits_raises = "NotImplementedError" := by
  refine ⟨gen_discrete_masked_logits_eq P ls ms, fun hl => ?_, fun hl => ?_,
    fun i hi => maskLogits_getElem? _ ls ms i hi (by omega), rfl⟩
  · rw [gen_multiDiscrete_masked_logits_eq]
    exact (C16_mask_before_split _ nvec ls ms hl hm).2.1
  · rw [gen_multiBinary_masked_logits_eq]
    exact (C16_mask_before_split _ [n] ls ms (by simpa using hl) hm).2.1

/-- **over the translated source**: the masked forward pass is the unmasked one on the masked logits — the mask is
    applied before the distribution is built, so sampling, log-probability and entropy all see it -/
theorem C16_source_translation_mask_before_distribution (nvec : List Nat) (n : Nat) (ls : List α)
    (ms : List Bool) (k : Nat) (act : List Nat) (bits : List Bool) :
    DistGen.Discrete.forward_masked P ls ms k
      = DistGen.Discrete.forward P (DistGen.Discrete.masked_logits P ls ms) k ∧
    DistGen.MultiDiscrete.forward_masked P nvec ls ms act
      = DistGen.MultiDiscrete.forward P nvec (DistGen.MultiDiscrete.masked_logits P nvec ls ms) act ∧
    DistGen.MultiBinary.forward_masked P n ls ms bits
      = DistGen.MultiBinary.forward P (DistGen.MultiBinary.masked_logits P n ls ms) bits := by
  refine ⟨?_, ?_, ?_⟩
  · rw [gen_discrete_forward_masked_eq, gen_discrete_masked_logits_eq]
  · rw [gen_multiDiscrete_forward_masked_eq, gen_multiDiscrete_masked_logits_eq]
  · rw [gen_multiBinary_forward_masked_eq, gen_multiBinary_masked_logits_eq]

/-- **over the translated source**: with squashing the returned action is the rescaled `tanh` of the draw and the
    reported log-probability is the primitive Gaussian log-density of the draw (the pre-image) minus
    `Σ log(1 − a² + 1e-6)` on the squashed action — sign and constants as the source writes them -/
theorem C16_source_translation_squash_log_prob (low high log_std logits u : List α) :
    (DistGen.Box.forward P true low high log_std logits u).1
      = DistGen.Box.scale_action P low high (u.map P.tanh) ∧
    (DistGen.Box.forward P true low high log_std logits u).2.1
      = indepLogProb (genComp P log_std logits) u
        - ((u.map P.tanh).map (fun a => P.log (P.lit 1 - DistGen.powNat (P.lit 1) a 2 + P.lit (1 / 1000000)))).sum := by
  rw [gen_box_forward_eq P true low high log_std logits u u]
  exact ⟨rfl, rfl⟩

/-- **over the translated source**: re-evaluating a stored action (not the object `sample()` has just returned)
    gives the Gaussian at the action's own pre-image `atanh(clamp(a, −1 + eps, 1 − eps))` minus the correction on the
    action — a function of the action and the current parameters only: the draw of the forward pass that precedes
    the evaluation does not enter -/
theorem C16_source_translation_eval_stored_action (log_std logits u' u'' : List α) (eps : α) (a : List α) :
    DistGen.Box.log_prob_stored P false true log_std logits u' eps a
      = indepLogProb (genComp P log_std logits) (a.map (genPre P eps)) - (a.map (genCorr P)).sum ∧
    DistGen.Box.log_prob_stored P false true log_std logits u' eps a
      = DistGen.Box.log_prob_stored P false true log_std logits u'' eps a := by
  rw [gen_box_log_prob_stored_eq_evalStored, gen_box_log_prob_stored_eq_evalStored]
  exact ⟨rfl, C16_eval_stored_action_no_hidden_state _ _ _ u' u'' a _⟩

/-- **over the translated source**: re-evaluating uses the same formula as sampling.  For the discrete spaces and
    the unsquashed Gaussian literally; with squashing, if `atanh(clamp(tanh x)) = x`, evaluating the action that a
    forward pass with draw `u` returned gives the log-probability that forward pass reported — whether it is
    recognised as the cached sample (`fresh`, then the cache holds `u`) or not, and whatever was drawn since. -/
theorem C16_source_translation_reevaluation_same_formula (low high log_std logits u u' : List α) (eps : α)
    (nvec : List Nat) (k : Nat) (act : List Nat) (bits : List Bool) (fresh : Bool)
    (hinv : ∀ x, genPre P eps (P.tanh x) = x) (hfresh : fresh = true → u' = u) :
    DistGen.Box.log_prob_stored P fresh true log_std logits u' eps (u.map P.tanh)
      = (DistGen.Box.forward P true low high log_std logits u).2.1 ∧
    DistGen.Box.log_prob_stored P fresh false log_std logits u' eps u
      = (DistGen.Box.forward P false low high log_std logits u).2.1 ∧
    DistGen.Discrete.log_prob_stored P logits k = (DistGen.Discrete.forward P logits k).2.1 ∧
    DistGen.MultiDiscrete.log_prob_stored P nvec logits act
      = (DistGen.MultiDiscrete.forward P nvec logits act).2.1 ∧
    DistGen.MultiBinary.log_prob_stored P logits bits = (DistGen.MultiBinary.forward P logits bits).2.1 := by
  refine ⟨?_, ?_, rfl, rfl, rfl⟩
  · rw [gen_box_log_prob_stored_eq, gen_box_forward_eq P true low high log_std logits u u]
    have h := C16_eval_stored_action (genComp P log_std logits) (genCorr P) P.tanh (genPre P eps) hinv
      (some u') fresh (u.map P.tanh) (fun hf => ⟨u', rfl, by rw [hfresh hf]⟩)
    have hpre : (u.map P.tanh).map (genPre P eps) = u := by
      rw [List.map_map]; conv_rhs => rw [← List.map_id u]
      exact List.map_congr_left (fun x _ => hinv x)
    simp only [genDist, TorchDist.sample] at h ⊢
    rw [h, hpre]
    simp [TorchDist.logProbFixed]
  · rw [gen_box_log_prob_stored_eq, gen_box_forward_eq P false low high log_std logits u u]
    simp [genDist, TorchDist.sample, TorchDist.logProbFixed]

end source_translation

/-! #### carrier ℝ: the primitives are Mathlib's functions, the literals are read exactly -/

/-- **over the translated source**: a masked action has (numerically) zero probability — the softmax mass of a
    masked entry of the logits the generated `apply_mask` produces is at most `exp(−(1e8 − spread))` when some
    allowed logit is at least `−spread` (same hypothesis as `C16_masked_prob_bound`; the constant comes from the
    source text through `P.lit`). -/
theorem C16_source_translation_masked_prob_bound (P : DistGen.Prims ℝ) (hlit : ∀ q : ℚ, P.lit q = (q : ℝ))
    (ls : List ℝ) (ms : List Bool) (hm : ms.length = ls.length)
    (i m : Nat) (hi : i < ls.length) (hmm : m < ls.length)
    (hmask : ms[i] = false) (hallow : ms[m] = true) (spread : ℝ) (hs : -spread ≤ ls[m]) :
    softmaxAt (DistGen.Discrete.masked_logits P ls ms) i ≤ Real.exp (-(1e8 - spread)) := by
  rw [gen_discrete_masked_logits_eq]
  have : genNeg P = (-1e8 : ℝ) := by rw [genNeg, hlit]; norm_num
  rw [this]
  exact C16_masked_prob_bound ls ms hm i m hi hmm hmask hallow spread hs

/-- **over the translated source**: the squash-corrected log-probability `forward` reports is, per dimension, the
    primitive log-density of the pre-image `u` minus the log of the derivative of the squashing map at `u`
    (`tanh′ u = 1 − tanh² u`, derived in `Proofs/DistReal.lean`) shifted by the source's `1e-6` inside the logarithm;
    by `C16_squash_eps_bound` each term differs from the exact change-of-variables term by at most `1e-6 / tanh′ u`. -/
theorem C16_source_translation_squash_correction (P : DistGen.Prims ℝ) (hlit : ∀ q : ℚ, P.lit q = (q : ℝ))
    (hlog : P.log = Real.log) (htanh : P.tanh = Real.tanh)
    (low high log_std logits u : List ℝ) (hs : log_std.length = logits.length) (hu : u.length = logits.length) :
    (DistGen.Box.forward P true low high log_std logits u).2.1
      = (List.zipWith (fun f x => f x - Real.log (deriv Real.tanh x + 1e-6)) (genComp P log_std logits) u).sum ∧
    ∀ x : ℝ, 0 ≤ Real.log (deriv Real.tanh x + 1e-6) - Real.log (deriv Real.tanh x) ∧
      Real.log (deriv Real.tanh x + 1e-6) - Real.log (deriv Real.tanh x) ≤ 1e-6 / deriv Real.tanh x := by
  constructor
  · rw [(C16_source_translation_squash_log_prob P low high log_std logits u).2]
    have hlen : (genComp P log_std logits).length = u.length := by simp [genComp, hs, hu]
    have := sum_zipWith_sub (genComp P log_std logits) u (fun x => Real.log (deriv Real.tanh x + 1e-6)) hlen
    rw [← this]
    simp only [indepLogProb, List.map_map, Function.comp_def, hlit, hlog, htanh, deriv_tanh, DistGen.powNat]
    congr 2
    apply List.map_congr_left
    intro x _
    congr 1
    push_cast
    ring
  · intro x
    have h := C16_squash_eps_bound (Real.tanh x) 1e-6 (Real.tanh_sq_lt_one x) (by norm_num)
    rw [deriv_tanh]
    exact h

/-! ### non-vacuity -/

-- MultiDiscrete([2,3]): action (1,2) selects flat entries 1 and 2+2=4
example : multiDiscreteLogProb [2, 3] [(-1 : Int), -2, -3, -4, -5] [1, 2] = some (-7) := by decide
example : ([(-1 : Int), -2, -3, -4, -5].length = [2, 3].sum) ∧ ([1, 2].length = [2, 3].length) := by decide
example : offset [2, 3, 4] 2 = 5 := by decide
-- an index that would spill into the next slice is rejected
example : multiDiscreteLogProb [2, 3] [(-1 : Int), -2, -3, -4, -5] [2, 0] = none := by decide
-- mask per split = mask on the flat vector
example : maskSplit (-100 : Int) [2, 3] [1, 2, 3, 4, 5] [true, false, false, true, true]
    = [[1, -100], [-100, 4, 5]] := by decide
-- bits
example : bernLogProb [(-1 : Int), -2] [-3, -4] [true, false] = -5 := by decide
-- the hypotheses of `C16_eval_stored_action` are satisfiable with a fresh action
example : ∃ (s : Option (List Int)) (a : List Int), ∃ u, s = some u ∧ a = u.map (fun x => x + 1) :=
  ⟨some [3], [4], [3], rfl, rfl⟩
-- snapshot code: the same stored action, two different answers
example : evalStoredCode [fun x : Int => -(x * x)] (fun _ => 0) id [0] [5] = some 0 ∧
          evalStoredCode [fun x : Int => -(x * x)] (fun _ => 0) id [1] [5] = some (-1) := by decide
-- the bound of `C16_masked_prob_bound` has satisfiable hypotheses
example : ∃ (ls : List ℝ) (ms : List Bool), ms.length = ls.length ∧ ms[0]? = some false ∧
    ms[1]? = some true := ⟨[0, 0], [false, true], rfl, rfl, rfl⟩

-- the hypotheses of the source-translation theorems are satisfiable: `atanh ∘ clamp ∘ tanh = id` for the concrete
-- primitives of `Proofs/DistGenEq.lean`, and a primitive structure over ℝ that reads the literals exactly
example : ∀ x, genPre exPrims 0 (exPrims.tanh x) = x := fun _ => rfl
noncomputable example : ∃ P : DistGen.Prims ℝ, (∀ q : ℚ, P.lit q = (q : ℝ)) ∧ P.log = Real.log ∧ P.tanh = Real.tanh :=
  ⟨{ lit := fun q => (q : ℝ), log := Real.log, exp := Real.exp, tanh := Real.tanh, atanh := fun x => x,
     clamp := fun lo hi x => max lo (min hi x), normalLogPdf := fun m s x => -((x - m) ^ 2) / (2 * s ^ 2) - Real.log s,
     normalEntropy := fun _ s => Real.log s, categoricalLogProb := fun l k => l.getD k 0,
     categoricalEntropy := fun _ => 0, bernoulliLogProb := fun l b => if b then l else -l,
     bernoulliEntropy := fun _ => 0 }, fun _ => rfl, rfl, rfl⟩
-- generated MultiDiscrete([2,3]) forward: action (1,2) selects logits 1 and 2+2=4 of the flat vector
example : (DistGen.MultiDiscrete.forward exPrims [2, 3] [-1, -2, -3, -4, -5] [1, 2]).2.1 = -7 := by decide

end Dist
