import Proofs.GAELeak
import Proofs.GAEFlat
import Proofs.GAEMatrix
import Proofs.GAEGenEq
import Proofs.FlattenGenEq
import Proofs.RolloutGenEq

/-!
# C17 — advantage estimation follows its definition and respects episode boundaries; every
estimate is applied to the observation/action it was computed for

Model: `Model/GAE.lean`.  `gaeLoop` is the backward loop of `PPO.learn` and
`IPPO._learn_individual` with its mutable accumulator, per column (= one parallel environment of
one agent; the tensor operations of the loop are element-wise in that dimension).  `adv`/`ret` are
the recursive definition.  The flatten functions lay a rollout out in training rows exactly as
`flatten_experiences` (PPO), `concatenate_experiences_into_batches` (IPPO states/actions) and the
reshapes of `_learn_individual` (IPPO log-probs/advantages/returns/values) do.

Every theorem quantifies over all rollout lengths, all numbers of environments/agents, all
reward/value/done sequences and all rational γ, λ (no restriction to [0,1] is needed).
-/
namespace GAE

/-- the estimates of the definition satisfy the stated recursion, `A_T = 0`,
    `d_T = next_done`, `V_T = critic(next_state)` -/
theorem C17_definition_recursion (γ lam : Rat) (c : Col) :
    (∀ t, t < c.T → adv γ lam c t =
        (c.r.getD t 0 + γ * valAt c (t + 1) * (1 - ind (doneAt c (t + 1))) - c.v.getD t 0)
        + γ * lam * (1 - ind (doneAt c (t + 1))) * adv γ lam c (t + 1)) ∧
    adv γ lam c c.T = 0 ∧ doneAt c c.T = c.nd ∧ valAt c c.T = c.nv := by
  refine ⟨fun t ht => adv_unfold γ lam c t ht, adv_beyond γ lam c c.T (Nat.le_refl _), ?_, ?_⟩
  · simp [doneAt]
  · simp [valAt]

/-- **loop = definition**, for every rollout length, reward/value/done sequence, γ and λ:
    the loop writes exactly `T` advantages and the `t`-th one is `A_t` -/
theorem C17_gae_is_recursion (γ lam : Rat) (c : Col) :
    (gaeLoop γ lam c).length = c.T ∧
    ∀ t, t < c.T → (gaeLoop γ lam c)[t]? = some (adv γ lam c t) :=
  gaeLoop_spec γ lam c

/-- the same for a whole rollout with `C` parallel columns (environments, or agents × environments),
    which is the function the correspondence harness runs (`gae run …`): entry `(t, j)` of the
    row-major result is `A_t` of column `j` — each column is estimated on its own -/
theorem C17_matrix_is_recursion (γ lam : Rat) (ro : Rollout) (t j : Nat) (ht : t < ro.T) (hj : j < ro.C) :
    (gaeMatrix γ lam ro).length = ro.T * ro.C ∧
    (gaeMatrix γ lam ro)[t * ro.C + j]? = some (adv γ lam (ro.col j) t) :=
  gaeMatrix_get γ lam ro t j ht hj

/-- `returns = advantages + values`: entry `t` is `A_t + V_t` -/
theorem C17_returns (γ lam : Rat) (c : Col) (hv : c.v.length = c.T) (t : Nat) (ht : t < c.T) :
    (returnsOf (gaeLoop γ lam c) c.v)[t]? = some (ret γ lam c t) := by
  have hx : c.v[t]? = some (c.v.getD t 0) := by
    rw [List.getD_eq_getElem?_getD, List.getElem?_eq_getElem (by omega)]; rfl
  exact returnsOf_get _ _ t _ _ ((gaeLoop_spec γ lam c).2 t ht) hx

/-- **no leak across an episode boundary inside the rollout** (per column, i.e. per environment
    and per agent): if `dones[k] = 1` in two rollouts (of any lengths) that agree on rewards,
    values and flags before step `k`, the loop gives them the same advantages and returns at every
    `t < k` — whatever follows `k`, including `V_k`, `next_value` and `next_done` -/
theorem C17_no_leak (γ lam : Rat) (c c' : Col) (k : Nat) (hk : k < c.T) (hk' : k < c'.T)
    (hd : c.d.getD k false = true) (hd' : c'.d.getD k false = true) (hag : AgreeBefore c c' k)
    (t : Nat) (ht : t < k) :
    (gaeLoop γ lam c)[t]? = (gaeLoop γ lam c')[t]? ∧
    adv γ lam c t = adv γ lam c' t ∧ ret γ lam c t = ret γ lam c' t := by
  have h := no_leak γ lam c c' k (by omega) (by omega)
    (by rw [doneAt_lt c k hk]; exact hd) (by rw [doneAt_lt c' k hk']; exact hd') hag t ht
  refine ⟨?_, h⟩
  rw [(gaeLoop_spec γ lam c).2 t (by omega), (gaeLoop_spec γ lam c').2 t (by omega), h.1]

/-- **no leak through the bootstrap**: with `next_done = 1` the critic's value of the final next
    observation (and anything else after the rollout) influences no estimate -/
theorem C17_no_leak_next_done (γ lam : Rat) (c c' : Col) (hT : c.T = c'.T)
    (hd : c.nd = true) (hd' : c'.nd = true) (hag : AgreeBefore c c' c.T)
    (t : Nat) (ht : t < c.T) :
    (gaeLoop γ lam c)[t]? = (gaeLoop γ lam c')[t]? ∧
    adv γ lam c t = adv γ lam c' t ∧ ret γ lam c t = ret γ lam c' t := by
  have h := no_leak γ lam c c' c.T (Nat.le_refl _) (by omega)
    (by simp [doneAt, hd]) (by simp [doneAt, hT, hd']) hag t ht
  refine ⟨?_, h⟩
  rw [(gaeLoop_spec γ lam c).2 t ht, (gaeLoop_spec γ lam c').2 t (by omega), h.1]

/-- **PPO rows**: states, actions, log-probs, advantages, returns and values (six tensors of any
    element types, indexed `(t, e)`) are flattened by the same map: row `e*T + t` of each of them
    holds the entry of step `t`, environment `e`; every flattened tensor has `T*E` rows -/
theorem C17_ppo_rows_aligned {σ α} (T E : Nat) (states : Nat → Nat → σ) (actions : Nat → Nat → α)
    (logp advs rets vals : Nat → Nat → Rat) (t e : Nat) (ht : t < T) (he : e < E) :
    (ppoFlatten T E states)[ppoFlat T t e]? = some (states t e) ∧
    (ppoFlatten T E actions)[ppoFlat T t e]? = some (actions t e) ∧
    (ppoFlatten T E logp)[ppoFlat T t e]? = some (logp t e) ∧
    (ppoFlatten T E advs)[ppoFlat T t e]? = some (advs t e) ∧
    (ppoFlatten T E rets)[ppoFlat T t e]? = some (rets t e) ∧
    (ppoFlatten T E vals)[ppoFlat T t e]? = some (vals t e) ∧
    (ppoFlatten T E states).length = T * E ∧ (ppoFlatten T E advs).length = T * E := by
  unfold ppoFlatten ppoFlat
  refine ⟨table2_get _ _ _ e t he ht, table2_get _ _ _ e t he ht, table2_get _ _ _ e t he ht,
    table2_get _ _ _ e t he ht, table2_get _ _ _ e t he ht, table2_get _ _ _ e t he ht, ?_, ?_⟩ <;>
  rw [table2_length, Nat.mul_comm]

/-- the PPO row map is a bijection between `{(t,e) | t < T, e < E}` and the rows `0 … T*E-1`:
    no sample is lost or used twice -/
theorem C17_ppo_flat_bijective (T E : Nat) :
    (∀ t e, t < T → e < E → ppoFlat T t e < T * E) ∧
    (∀ t e t' e', t < T → t' < T → ppoFlat T t e = ppoFlat T t' e' → t = t' ∧ e = e') ∧
    (∀ row, row < T * E → ∃ t e, t < T ∧ e < E ∧ ppoFlat T t e = row) := by
  unfold ppoFlat
  refine ⟨fun t e ht he => by rw [Nat.mul_comm T E]; exact flat2_lt E T e t he ht, ?_, ?_⟩
  · intro t e t' e' ht ht' h
    obtain ⟨h1, h2⟩ := flat2_inj T e t e' t' ht ht' h
    exact ⟨h2, h1⟩
  · intro row hr
    obtain ⟨e, t, he, ht, h⟩ := flat2_surj E T row (by rw [Nat.mul_comm]; exact hr)
    exact ⟨t, e, ht, he, h⟩

/-- **IPPO rows (repaired code)**: the flatten applied to log-probs/advantages/returns/values
    (`reshape(T, A, -1).transpose(0, 1).reshape(-1)` of the `(T, A*E)` matrix) is the flatten
    applied to states/actions (`concatenate_experiences_into_batches`): row
    `a*(T*E) + t*E + e` of all six tensors holds the entry of agent `a`, step `t`, environment `e`,
    for every number of agents sharing the policy, steps and environments -/
theorem C17_ippo_rows_aligned {σ α} (A T E : Nat) (hA : 0 < A)
    (states : Nat → Nat → Nat → σ) (actions : Nat → Nat → Nat → α)
    (logp advs rets vals : Nat → Nat → Nat → Rat) :
    (∀ {β} (x : Nat → Nat → Nat → β), ippoAdvFlatten A T E x = ippoObsFlatten A T E x) ∧
    (∀ a t e, e < E → ippoAdvFlat A T E a t e = ippoObsFlat T E a t e) ∧
    (∀ a t e, a < A → t < T → e < E →
      (ippoObsFlatten A T E states)[ippoObsFlat T E a t e]? = some (states a t e) ∧
      (ippoObsFlatten A T E actions)[ippoObsFlat T E a t e]? = some (actions a t e) ∧
      (ippoAdvFlatten A T E logp)[ippoObsFlat T E a t e]? = some (logp a t e) ∧
      (ippoAdvFlatten A T E advs)[ippoObsFlat T E a t e]? = some (advs a t e) ∧
      (ippoAdvFlatten A T E rets)[ippoObsFlat T E a t e]? = some (rets a t e) ∧
      (ippoAdvFlatten A T E vals)[ippoObsFlat T E a t e]? = some (vals a t e)) := by
  refine ⟨fun x => ippoAdvFlatten_eq A T E hA x, fun a t e he => ippoAdvFlat_eq A T E a t e hA he, ?_⟩
  intro a t e ha ht he
  simp only [ippoAdvFlatten_eq A T E hA]
  unfold ippoObsFlatten ippoObsFlat
  exact ⟨table3_get _ _ _ _ a t e ha ht he, table3_get _ _ _ _ a t e ha ht he,
    table3_get _ _ _ _ a t e ha ht he, table3_get _ _ _ _ a t e ha ht he,
    table3_get _ _ _ _ a t e ha ht he, table3_get _ _ _ _ a t e ha ht he⟩

/-- the IPPO row map is a bijection between `{(a,t,e)}` and the rows `0 … A*T*E-1` -/
theorem C17_ippo_flat_bijective (A T E : Nat) :
    (∀ a t e, a < A → t < T → e < E → ippoObsFlat T E a t e < A * (T * E)) ∧
    (∀ a t e a' t' e', t < T → t' < T → e < E → e' < E →
      ippoObsFlat T E a t e = ippoObsFlat T E a' t' e' → a = a' ∧ t = t' ∧ e = e') ∧
    (∀ row, row < A * (T * E) → ∃ a t e, a < A ∧ t < T ∧ e < E ∧ ippoObsFlat T E a t e = row) := by
  unfold ippoObsFlat
  exact ⟨fun a t e ha ht he => flat3_lt A T E a t e ha ht he,
    fun a t e a' t' e' ht ht' he he' h => flat3_inj T E a t e a' t' e' ht ht' he he' h,
    fun row hr => flat3_surj A T E row hr⟩

/-- the unrepaired (time-major) row map of the log-probs/advantages/values is also a bijection —
    nothing was lost, the rows were only paired with the wrong observations -/
theorem C17_ippo_unrepaired_flat_bijective (A T E : Nat) :
    (∀ a t e, a < A → t < T → e < E → ippoAdvFlat0 A E a t e < T * (A * E)) ∧
    (∀ a t e a' t' e', a < A → a' < A → e < E → e' < E →
      ippoAdvFlat0 A E a t e = ippoAdvFlat0 A E a' t' e' → a = a' ∧ t = t' ∧ e = e') := by
  unfold ippoAdvFlat0
  refine ⟨fun a t e ha ht he => flat3_lt T A E t a e ht ha he, ?_⟩
  intro a t e a' t' e' ha ha' he he' h
  obtain ⟨h1, h2, h3⟩ := flat3_inj A E t a e t' a' e' ha ha' he he' h
  exact ⟨h2, h1, h3⟩

/-- **IPPO columns (repaired code)**: rewards, dones, values, `next_value` and `next_done` all put
    agent `a`, environment `e` in column `a*E + e` of the matrices the loop runs over -/
theorem C17_ippo_columns_aligned {β} (A E : Nat) (f : Nat → Nat → β) (a e : Nat) (ha : a < A) (he : e < E) :
    (ippoCols A E f)[a * E + e]? = some (f a e) ∧ (ippoCols A E f).length = A * E :=
  ⟨table2_get A E f a e ha he, table2_length A E f⟩

/-- **witness for the unrepaired code** (D9): with two agents sharing a policy, two steps and one
    environment the time-major flatten of advantages/log-probs/values disagrees with the agent-major
    flatten of observations/actions: row 1 holds the observation of (agent 0, step 1) but the
    advantage of (agent 1, step 0) -/
theorem C17_ippo_unrepaired_witness :
    ¬ (∀ a t e, a < 2 → t < 2 → e < 1 → ippoAdvFlat0 2 1 a t e = ippoObsFlat 2 1 a t e) ∧
    ippoObsFlatten 2 2 1 (fun a t e => (a, t, e)) = [(0,0,0), (0,1,0), (1,0,0), (1,1,0)] ∧
    ippoAdvFlatten0 2 2 1 (fun a t e => (a, t, e)) = [(0,0,0), (1,0,0), (0,1,0), (1,1,0)] := by
  refine ⟨fun h => ?_, by decide, by decide⟩
  have := h 0 1 0 (by decide) (by decide) (by decide)
  revert this
  decide

/-- **witness for the unrepaired `next_done`** : stacked with `dim=1` it was laid out environment-major
    (`e*A + a`) while every other matrix of the loop is agent-major (`a*E + e`) -/
theorem C17_ippo_unrepaired_next_done_witness :
    ippoCols 2 2 (fun a e => (a, e)) = [(0,0), (0,1), (1,0), (1,1)] ∧
    ippoNextDoneCols0 2 2 (fun a e => (a, e)) = [(0,0), (1,0), (0,1), (1,1)] := by
  constructor <;> decide

/-! ## the source text, translated

`harness/py2lean_gae.py` translates the advantage-estimation loop of `PPO.learn`
(agilerl/algorithms/ppo.py) and of `IPPO._learn_individual` (agilerl/algorithms/ippo.py) — from the
definitions of `advantages` / `last_gae_lambda` through `for t in reversed(range(num_steps))` to
`returns = advantages + values`, read with Python's `ast` from the tree under test — into
`Gen/GAEGen.lean` on every run of the check; `Proofs/GAEGenEq.lean` proves the generated loop body and
the generated range EQUAL to `loopBody`, `gaeLoop`, `returnsOf`.  The theorems below restate the
advantage / return theorems directly over the generated definitions (`genPPO γ λ c` =
`GAEGen.PPO.gae λ γ c.r (flags c.d) c.v (ind c.nd) c.nv`, likewise `genIPPO`; `.1` = advantages,
`.2` = returns), so a change of the source that alters its meaning breaks them.  The flattening into
training rows (torch reshaping) is translated separately, by symbolic execution of the shape operations:
see `C17_source_translation_flatten_*` at the end of this file. -/
section source_translation
open GAEGen

/-- every generated definition equals the hand-written model function: the loop bodies for every step
    the loop visits, the ranges for every column -/
theorem C17_source_translation_equalities (γ lam : Rat) (c : Col) :
    (∀ s t, t < c.T → PPO.gae_body lam γ c.r (flags c.d) c.v (ind c.nd) c.nv (s.adv, s.last) t
        = ((loopBody γ lam c s t).adv, (loopBody γ lam c s t).last)) ∧
    PPO.gae lam γ c.r (flags c.d) c.v (ind c.nd) c.nv = (gaeLoop γ lam c, returnsOf (gaeLoop γ lam c) c.v) ∧
    (∀ s t, t < c.T → IPPO.gae_body lam γ c.r (flags c.d) c.v (ind c.nd) c.nv (s.adv, s.last) t
        = ((loopBody γ lam c s t).adv, (loopBody γ lam c s t).last)) ∧
    IPPO.gae lam γ c.r (flags c.d) c.v (ind c.nd) c.nv = (gaeLoop γ lam c, returnsOf (gaeLoop γ lam c) c.v) :=
  ⟨fun s t ht => gen_ppo_body_eq γ lam c s t ht, gen_ppo_gae_eq γ lam c,
    fun s t ht => gen_ippo_body_eq γ lam c s t ht, gen_ippo_gae_eq γ lam c⟩

/-- **loop = definition over the generated code**: the advantages the translated loops of `PPO.learn`
    and `IPPO._learn_individual` leave behind are `T` numbers and the `t`-th one is `A_t` of the
    recursive definition, for every rollout length, reward/value/done sequence, γ and λ -/
theorem C17_source_translation_gae_is_recursion (γ lam : Rat) (c : Col) :
    ((genPPO γ lam c).1.length = c.T ∧ ∀ t, t < c.T → (genPPO γ lam c).1[t]? = some (adv γ lam c t)) ∧
    ((genIPPO γ lam c).1.length = c.T ∧ ∀ t, t < c.T → (genIPPO γ lam c).1[t]? = some (adv γ lam c t)) := by
  rw [gen_ppo_gae_eq, gen_ippo_gae_eq]
  exact ⟨C17_gae_is_recursion γ lam c, C17_gae_is_recursion γ lam c⟩

/-- **returns over the generated code**: the translated `returns = advantages + values` is the
    entry-wise sum of the translated advantages and the values, and entry `t` is `A_t + V_t` -/
theorem C17_source_translation_returns (γ lam : Rat) (c : Col) (hv : c.v.length = c.T) :
    (genPPO γ lam c).2 = List.zipWith (· + ·) (genPPO γ lam c).1 c.v ∧
    (genIPPO γ lam c).2 = List.zipWith (· + ·) (genIPPO γ lam c).1 c.v ∧
    ∀ t, t < c.T → (genPPO γ lam c).2[t]? = some (ret γ lam c t) ∧
      (genIPPO γ lam c).2[t]? = some (ret γ lam c t) := by
  rw [gen_ppo_gae_eq, gen_ippo_gae_eq]
  exact ⟨rfl, rfl, fun t ht => ⟨C17_returns γ lam c hv t ht, C17_returns γ lam c hv t ht⟩⟩

/-- **a done flag at `t + 1` cuts the bootstrap, over the generated code**: if `dones[k] = 1` in two
    rollouts (of any lengths) that agree on rewards, values and flags before step `k`, the translated
    loops give them the same advantages and returns at every `t < k` — whatever follows `k`,
    including `V_k`, `next_value` and `next_done` -/
theorem C17_source_translation_no_leak (γ lam : Rat) (c c' : Col) (k : Nat) (hk : k < c.T) (hk' : k < c'.T)
    (hv : c.v.length = c.T) (hv' : c'.v.length = c'.T)
    (hd : c.d.getD k false = true) (hd' : c'.d.getD k false = true) (hag : AgreeBefore c c' k)
    (t : Nat) (ht : t < k) :
    (genPPO γ lam c).1[t]? = (genPPO γ lam c').1[t]? ∧ (genPPO γ lam c).2[t]? = (genPPO γ lam c').2[t]? ∧
    (genIPPO γ lam c).1[t]? = (genIPPO γ lam c').1[t]? ∧ (genIPPO γ lam c).2[t]? = (genIPPO γ lam c').2[t]? := by
  obtain ⟨h1, _, h3⟩ := C17_no_leak γ lam c c' k hk hk' hd hd' hag t ht
  have h2 : (returnsOf (gaeLoop γ lam c) c.v)[t]? = (returnsOf (gaeLoop γ lam c') c'.v)[t]? := by
    rw [C17_returns γ lam c hv t (by omega), C17_returns γ lam c' hv' t (by omega), h3]
  simp only [gen_ppo_gae_eq, gen_ippo_gae_eq]
  exact ⟨h1, h2, h1, h2⟩

/-- **no leak through the bootstrap, over the generated code**: with `next_done = 1` the critic's
    value of the final next observation influences no advantage and no return of the translated loops -/
theorem C17_source_translation_no_leak_next_done (γ lam : Rat) (c c' : Col) (hT : c.T = c'.T)
    (hv : c.v.length = c.T) (hv' : c'.v.length = c'.T)
    (hd : c.nd = true) (hd' : c'.nd = true) (hag : AgreeBefore c c' c.T) (t : Nat) (ht : t < c.T) :
    (genPPO γ lam c).1[t]? = (genPPO γ lam c').1[t]? ∧ (genPPO γ lam c).2[t]? = (genPPO γ lam c').2[t]? ∧
    (genIPPO γ lam c).1[t]? = (genIPPO γ lam c').1[t]? ∧ (genIPPO γ lam c).2[t]? = (genIPPO γ lam c').2[t]? := by
  obtain ⟨h1, _, h3⟩ := C17_no_leak_next_done γ lam c c' hT hd hd' hag t ht
  have h2 : (returnsOf (gaeLoop γ lam c) c.v)[t]? = (returnsOf (gaeLoop γ lam c') c'.v)[t]? := by
    rw [C17_returns γ lam c hv t ht, C17_returns γ lam c' hv' t (by omega), h3]
  simp only [gen_ppo_gae_eq, gen_ippo_gae_eq]
  exact ⟨h1, h2, h1, h2⟩

end source_translation

/-! ### non-vacuity -/

/-- a concrete rollout of one environment: an episode ends after step 1 (`dones[2] = 1`) -/
def exCol : Col := { r := [1, 2, 3], d := [false, false, true], v := [1/2, 1, 3/2], nv := 4, nd := false }
/-- the same rollout with everything from the boundary on replaced (and one more step) -/
def exCol' : Col := { r := [1, 2, -7, 5], d := [false, false, true, false], v := [1/2, 1, 9, 2], nv := -3, nd := true }

example : gaeLoop (1/2) (3/4) exCol = [11/8, 1, 7/2] := by decide +kernel
example : [adv (1/2) (3/4) exCol 0, adv (1/2) (3/4) exCol 1, adv (1/2) (3/4) exCol 2] = [11/8, 1, 7/2] := by decide +kernel
example : returnsOf (gaeLoop (1/2) (3/4) exCol) exCol.v = [15/8, 2, 5] := by decide +kernel
-- hypotheses of C17_no_leak hold for k = 2 although the rollouts differ afterwards …
example : AgreeBefore exCol exCol' 2 := by
  intro t ht
  have : t = 0 ∨ t = 1 := by omega
  rcases this with h | h <;> subst h <;> decide +kernel
example : exCol.d.getD 2 false = true ∧ exCol'.d.getD 2 false = true ∧ 2 < exCol.T ∧ 2 < exCol'.T := by decide +kernel
-- … and the conclusion is the expected concrete equality, while step 2 differs
example : (gaeLoop (1/2) (3/4) exCol').take 2 = [11/8, 1] ∧ (gaeLoop (1/2) (3/4) exCol')[2]? ≠ (gaeLoop (1/2) (3/4) exCol)[2]? := by decide +kernel
-- next_done as boundary
example : gaeLoop (1/2) (3/4) { exCol with nd := true, nv := 100 } = gaeLoop (1/2) (3/4) { exCol with nd := true, nv := -5 } := by decide +kernel
-- flatten maps on a concrete 2×3 rollout / 2 agents × 2 steps × 2 envs
example : ppoFlatten 2 3 (fun t e => (t, e)) = [(0,0), (1,0), (0,1), (1,1), (0,2), (1,2)] := by decide +kernel
example : ippoAdvFlatten 2 2 2 (fun a t e => (a, t, e)) = ippoObsFlatten 2 2 2 (fun a t e => (a, t, e)) := by decide +kernel
example : ippoAdvFlatten0 2 2 2 (fun a t e => (a, t, e)) ≠ ippoObsFlatten 2 2 2 (fun a t e => (a, t, e)) := by decide +kernel

-- the generated (source-translated) ranges on the same rollouts: values, and the hypotheses of
-- C17_source_translation_no_leak (value columns as long as the rollout)
example : genPPO (1/2) (3/4) exCol = ([11/8, 1, 7/2], [15/8, 2, 5]) ∧ genIPPO (1/2) (3/4) exCol = genPPO (1/2) (3/4) exCol := by decide +kernel
example : exCol.v.length = exCol.T ∧ exCol'.v.length = exCol'.T := by decide
example : (genIPPO (1/2) (3/4) exCol').1.take 2 = [11/8, 1] ∧ (genIPPO (1/2) (3/4) exCol').2.take 2 = [15/8, 2] := by decide +kernel

/-! ## minibatches (model) -/

/-- **any minibatch keeps the rows together (PPO)**: `get_experiences_samples` indexes the six flattened
    tensors with the same index vector; for EVERY index vector `idx` (shuffled, with repeats, any length)
    entry `j` of each of the six minibatch tensors is the entry of one and the same sample
    `(t, e) = ppoUnflat T idx[j]` — alignment survives any shuffle -/
theorem C17_minibatch_rows_aligned {σ α} (T E : Nat) (states : Nat → Nat → σ) (actions : Nat → Nat → α)
    (logp advs rets vals : Nat → Nat → Rat) (idx : List Nat) (j : Nat) (hj : j < idx.length)
    (hr : idx[j] < T * E) :
    let t := (ppoUnflat T idx[j]).1
    let e := (ppoUnflat T idx[j]).2
    t < T ∧ e < E ∧ ppoFlat T t e = idx[j] ∧
    (gather idx (ppoFlatten T E states))[j]? = some (some (states t e)) ∧
    (gather idx (ppoFlatten T E actions))[j]? = some (some (actions t e)) ∧
    (gather idx (ppoFlatten T E logp))[j]? = some (some (logp t e)) ∧
    (gather idx (ppoFlatten T E advs))[j]? = some (some (advs t e)) ∧
    (gather idx (ppoFlatten T E rets))[j]? = some (some (rets t e)) ∧
    (gather idx (ppoFlatten T E vals))[j]? = some (some (vals t e)) := by
  intro t e
  obtain ⟨h1, h2⟩ := ppoUnflat_bounds T E idx[j] hr
  refine ⟨h1, h2, ppoFlat_unflat T idx[j], ?_, ?_, ?_, ?_, ?_, ?_⟩ <;>
    rw [gather_get idx _ j hj, ppoFlatten_row T E _ idx[j] hr]

/-- **any minibatch keeps the rows together (IPPO)**: the same for the agent-major rows of the six IPPO tensors -/
theorem C17_ippo_minibatch_rows_aligned {σ α} (A T E : Nat) (hA : 0 < A)
    (states : Nat → Nat → Nat → σ) (actions : Nat → Nat → Nat → α)
    (logp advs rets vals : Nat → Nat → Nat → Rat) (idx : List Nat) (j : Nat) (hj : j < idx.length)
    (hr : idx[j] < A * (T * E)) :
    let a := (ippoUnflat T E idx[j]).1
    let t := (ippoUnflat T E idx[j]).2.1
    let e := (ippoUnflat T E idx[j]).2.2
    a < A ∧ t < T ∧ e < E ∧ ippoObsFlat T E a t e = idx[j] ∧
    (gather idx (ippoObsFlatten A T E states))[j]? = some (some (states a t e)) ∧
    (gather idx (ippoObsFlatten A T E actions))[j]? = some (some (actions a t e)) ∧
    (gather idx (ippoAdvFlatten A T E logp))[j]? = some (some (logp a t e)) ∧
    (gather idx (ippoAdvFlatten A T E advs))[j]? = some (some (advs a t e)) ∧
    (gather idx (ippoAdvFlatten A T E rets))[j]? = some (some (rets a t e)) ∧
    (gather idx (ippoAdvFlatten A T E vals))[j]? = some (some (vals a t e)) := by
  intro a t e
  obtain ⟨h1, h2, h3⟩ := ippoUnflat_bounds A T E idx[j] hr
  simp only [ippoAdvFlatten_eq A T E hA]
  refine ⟨h1, h2, h3, ippoFlat_unflat T E idx[j], ?_, ?_, ?_, ?_, ?_, ?_⟩ <;>
    rw [gather_get idx _ j hj, ippoObsFlatten_row A T E _ idx[j] hr]

/-- a minibatch has one entry per index, and an epoch's shuffled index vector (a permutation of `0 … n-1`)
    uses every training row exactly once -/
theorem C17_shuffle_uses_every_row_once {α} (idx : List Nat) (xs : List α) (n : Nat)
    (hp : idx.Perm (List.range n)) :
    (gather idx xs).length = idx.length ∧ idx.length = n ∧ ∀ row, row < n → idx.count row = 1 := by
  refine ⟨gather_length idx xs, by rw [hp.length_eq, List.length_range], fun row hr => ?_⟩
  rw [hp.count_eq row]
  exact range_count n row hr

/-! ## the re-layout code, translated -/
section source_translation_flatten
open FlattenGen

/-- every index map generated from the source equals the model's un-flatten map: the six tensors of a vectorised
    PPO rollout with Box / Dict / Tuple observations and Box / Discrete actions (`ppoUnflat`), of an IPPO rollout
    of `A` agents sharing a policy with Box / Dict observations and Box / Discrete actions (`ippoUnflat`), for all
    sizes; the feature index is never touched -/
theorem C17_source_translation_flatten_equalities (T E A F0 F1 row f : Nat) :
    (PPO.Vec.src0 T E F0 F1 row f = ((ppoUnflat T row).1, (ppoUnflat T row).2, f) ∧
     PPO.Vec.src1 T E F0 F1 row f = ((ppoUnflat T row).1, (ppoUnflat T row).2, f) ∧
     PPO.Vec.src2 T E F0 F1 row = ppoUnflat T row ∧ PPO.Vec.src3 T E F0 F1 row = ppoUnflat T row ∧
     PPO.Vec.src4 T E F0 F1 row = ppoUnflat T row ∧ PPO.Vec.src5 T E F0 F1 row = ppoUnflat T row) ∧
    (PPO.VecDict.src0_k0 T E F0 row f = ((ppoUnflat T row).1, (ppoUnflat T row).2, f) ∧
     PPO.VecDict.src0_k1 T E F0 row = ppoUnflat T row ∧ PPO.VecDict.src1 T E F0 row = ppoUnflat T row ∧
     PPO.VecDict.src2 T E F0 row = ppoUnflat T row ∧ PPO.VecDict.src3 T E F0 row = ppoUnflat T row ∧
     PPO.VecDict.src4 T E F0 row = ppoUnflat T row ∧ PPO.VecDict.src5 T E F0 row = ppoUnflat T row) ∧
    (PPO.VecTuple.src0_0 T E F0 F1 row f = ((ppoUnflat T row).1, (ppoUnflat T row).2, f) ∧
     PPO.VecTuple.src0_1 T E F0 F1 row = ppoUnflat T row ∧
     PPO.VecTuple.src1 T E F0 F1 row f = ((ppoUnflat T row).1, (ppoUnflat T row).2, f) ∧
     PPO.VecTuple.src2 T E F0 F1 row = ppoUnflat T row ∧ PPO.VecTuple.src3 T E F0 F1 row = ppoUnflat T row ∧
     PPO.VecTuple.src4 T E F0 F1 row = ppoUnflat T row ∧ PPO.VecTuple.src5 T E F0 F1 row = ppoUnflat T row) ∧
    (IPPO.Vec.src0 T E A F0 F1 row f = ((ippoUnflat T E row).1, (ippoUnflat T E row).2.1, (ippoUnflat T E row).2.2, f) ∧
     IPPO.Vec.src1 T E A F0 F1 row f = ((ippoUnflat T E row).1, (ippoUnflat T E row).2.1, (ippoUnflat T E row).2.2, f) ∧
     IPPO.Vec.src2 T E A F0 F1 row = ippoUnflat T E row ∧ IPPO.Vec.src3 T E A F0 F1 row = ippoUnflat T E row ∧
     IPPO.Vec.src4 T E A F0 F1 row = ippoUnflat T E row ∧ IPPO.Vec.src5 T E A F0 F1 row = ippoUnflat T E row) ∧
    (IPPO.VecDisc.src0_k0 T E A F0 row f = ((ippoUnflat T E row).1, (ippoUnflat T E row).2.1, (ippoUnflat T E row).2.2, f) ∧
     IPPO.VecDisc.src0_k1 T E A F0 row = ippoUnflat T E row ∧ IPPO.VecDisc.src1 T E A F0 row = ippoUnflat T E row ∧
     IPPO.VecDisc.src2 T E A F0 row = ippoUnflat T E row ∧ IPPO.VecDisc.src3 T E A F0 row = ippoUnflat T E row ∧
     IPPO.VecDisc.src4 T E A F0 row = ippoUnflat T E row ∧ IPPO.VecDisc.src5 T E A F0 row = ippoUnflat T E row) :=
  ⟨gen_ppo_vec_src_eq T E F0 F1 row f, gen_ppo_vecdict_src_eq T E F0 row f, gen_ppo_vectuple_src_eq T E F0 F1 row f,
    gen_ippo_vec_src_eq T E A F0 F1 row f, gen_ippo_vecdisc_src_eq T E A F0 row f⟩

/-- **PPO rows over the generated maps**: at the row `ppoFlat T t e = e*T + t` every one of the six tensors that the
    translated `stack_experiences` → `flatten_experiences` chain of `PPO.learn` hands to the minibatch loop holds
    the entry of step `t`, environment `e` (feature `f` in place `f`) — for Box, Dict and Tuple observations and
    Box and Discrete actions, every rollout length and number of environments -/
theorem C17_source_translation_flatten_ppo_rows_aligned (T E F0 F1 t e f : Nat) (ht : t < T) :
    (PPO.Vec.src0 T E F0 F1 (ppoFlat T t e) f = (t, e, f) ∧ PPO.Vec.src1 T E F0 F1 (ppoFlat T t e) f = (t, e, f) ∧
     PPO.Vec.src2 T E F0 F1 (ppoFlat T t e) = (t, e) ∧ PPO.Vec.src3 T E F0 F1 (ppoFlat T t e) = (t, e) ∧
     PPO.Vec.src4 T E F0 F1 (ppoFlat T t e) = (t, e) ∧ PPO.Vec.src5 T E F0 F1 (ppoFlat T t e) = (t, e)) ∧
    (PPO.VecDict.src0_k0 T E F0 (ppoFlat T t e) f = (t, e, f) ∧ PPO.VecDict.src0_k1 T E F0 (ppoFlat T t e) = (t, e) ∧
     PPO.VecDict.src1 T E F0 (ppoFlat T t e) = (t, e) ∧ PPO.VecDict.src2 T E F0 (ppoFlat T t e) = (t, e) ∧
     PPO.VecDict.src3 T E F0 (ppoFlat T t e) = (t, e) ∧ PPO.VecDict.src4 T E F0 (ppoFlat T t e) = (t, e) ∧
     PPO.VecDict.src5 T E F0 (ppoFlat T t e) = (t, e)) ∧
    (PPO.VecTuple.src0_0 T E F0 F1 (ppoFlat T t e) f = (t, e, f) ∧ PPO.VecTuple.src0_1 T E F0 F1 (ppoFlat T t e) = (t, e) ∧
     PPO.VecTuple.src1 T E F0 F1 (ppoFlat T t e) f = (t, e, f) ∧ PPO.VecTuple.src2 T E F0 F1 (ppoFlat T t e) = (t, e) ∧
     PPO.VecTuple.src3 T E F0 F1 (ppoFlat T t e) = (t, e) ∧ PPO.VecTuple.src4 T E F0 F1 (ppoFlat T t e) = (t, e) ∧
     PPO.VecTuple.src5 T E F0 F1 (ppoFlat T t e) = (t, e)) := by
  obtain ⟨a0, a1, a2, a3, a4, a5⟩ := gen_ppo_vec_src_eq T E F0 F1 (ppoFlat T t e) f
  obtain ⟨b0, b1, b2, b3, b4, b5, b6⟩ := gen_ppo_vecdict_src_eq T E F0 (ppoFlat T t e) f
  obtain ⟨c0, c1, c2, c3, c4, c5, c6⟩ := gen_ppo_vectuple_src_eq T E F0 F1 (ppoFlat T t e) f
  have u := ppoUnflat_flat T t e ht
  rw [a0, a1, a2, a3, a4, a5, b0, b1, b2, b3, b4, b5, b6, c0, c1, c2, c3, c4, c5, c6, u]
  simp

/-- the generated PPO row map is a bijection between the rows `0 … rows-1` of the flattened tensors and the
    samples `{(t, e) | t < T, e < E}`, with `rows = T*E` read off the translated `reshape`: no sample is lost or
    used twice; and the model's flattened list holds in row `row` the entry of the sample the generated map names -/
theorem C17_source_translation_flatten_ppo_bijective {β} (T E F0 F1 : Nat) (m : Nat → Nat → β) :
    PPO.Vec.rows2 T E F0 F1 = T * E ∧ PPO.Vec.rows0 T E F0 F1 = T * E ∧
    (∀ row, row < PPO.Vec.rows2 T E F0 F1 →
      (PPO.Vec.src2 T E F0 F1 row).1 < T ∧ (PPO.Vec.src2 T E F0 F1 row).2 < E ∧
      ppoFlat T (PPO.Vec.src2 T E F0 F1 row).1 (PPO.Vec.src2 T E F0 F1 row).2 = row ∧
      (ppoFlatten T E m)[row]? = some (m (PPO.Vec.src2 T E F0 F1 row).1 (PPO.Vec.src2 T E F0 F1 row).2)) ∧
    (∀ t e, t < T → e < E → ppoFlat T t e < PPO.Vec.rows2 T E F0 F1 ∧ PPO.Vec.src2 T E F0 F1 (ppoFlat T t e) = (t, e)) := by
  obtain ⟨r0, _, r2, _⟩ := gen_ppo_vec_rows_eq T E F0 F1
  refine ⟨r2, r0, fun row hr => ?_, fun t e ht he => ?_⟩
  · rw [r2] at hr
    rw [(gen_ppo_vec_src_eq T E F0 F1 row 0).2.2.1]
    obtain ⟨h1, h2⟩ := ppoUnflat_bounds T E row hr
    exact ⟨h1, h2, ppoFlat_unflat T row, ppoFlatten_row T E m row hr⟩
  · rw [r2, (gen_ppo_vec_src_eq T E F0 F1 _ 0).2.2.1]
    exact ⟨(C17_ppo_flat_bijective T E).1 t e ht he, ppoUnflat_flat T t e ht⟩

/-- **a rollout without environment dimension** (`is_vectorized_experiences` is false, `flatten_experiences` is
    skipped): the six generated maps are the identity on the step, environment 0 -/
theorem C17_source_translation_flatten_ppo_no_env_dimension (T F0 row f : Nat) (h : row < T) :
    PPO.Flat.rows2 T F0 = T ∧ PPO.Flat.src0 T F0 row f = (row, 0, f) ∧ PPO.Flat.src1 T F0 row = (row, 0) ∧
    PPO.Flat.src2 T F0 row = (row, 0) ∧ PPO.Flat.src3 T F0 row = (row, 0) ∧ PPO.Flat.src4 T F0 row = (row, 0) ∧
    PPO.Flat.src5 T F0 row = (row, 0) ∧ ppoFlat T row 0 = row := by
  obtain ⟨a0, a1, a2, a3, a4, a5⟩ := gen_ppo_flat_src_eq T F0 row f h
  have u : ppoUnflat T row = (row, 0) := by simp [ppoUnflat, Nat.mod_eq_of_lt h, Nat.div_eq_of_lt h]
  rw [a0, a1, a2, a3, a4, a5, u]
  simp [(gen_ppo_flat_rows_eq T F0).2.2.1, ppoFlat]

/-- **IPPO rows over the generated maps**: at the row `ippoObsFlat T E a t e = a*(T*E) + t*E + e` every one of the
    six tensors that the translated `assemble_shared_inputs` / `_learn_individual` hand to the minibatch loop —
    states and actions through `concatenate_experiences_into_batches`, log-probs / advantages / returns / values
    through `vectorize_experiences_by_agent` and `reshape(T, A, -1).transpose(0, 1).reshape(-1)` — holds the entry of
    agent `a`, step `t`, environment `e`, for every number of agents sharing the policy, steps and environments -/
theorem C17_source_translation_flatten_ippo_rows_aligned (T E A F0 F1 a t e f : Nat) (ht : t < T) (he : e < E) :
    (IPPO.Vec.src0 T E A F0 F1 (ippoObsFlat T E a t e) f = (a, t, e, f) ∧
     IPPO.Vec.src1 T E A F0 F1 (ippoObsFlat T E a t e) f = (a, t, e, f) ∧
     IPPO.Vec.src2 T E A F0 F1 (ippoObsFlat T E a t e) = (a, t, e) ∧
     IPPO.Vec.src3 T E A F0 F1 (ippoObsFlat T E a t e) = (a, t, e) ∧
     IPPO.Vec.src4 T E A F0 F1 (ippoObsFlat T E a t e) = (a, t, e) ∧
     IPPO.Vec.src5 T E A F0 F1 (ippoObsFlat T E a t e) = (a, t, e)) ∧
    (IPPO.VecDisc.src0_k0 T E A F0 (ippoObsFlat T E a t e) f = (a, t, e, f) ∧
     IPPO.VecDisc.src0_k1 T E A F0 (ippoObsFlat T E a t e) = (a, t, e) ∧
     IPPO.VecDisc.src1 T E A F0 (ippoObsFlat T E a t e) = (a, t, e) ∧
     IPPO.VecDisc.src2 T E A F0 (ippoObsFlat T E a t e) = (a, t, e) ∧
     IPPO.VecDisc.src3 T E A F0 (ippoObsFlat T E a t e) = (a, t, e) ∧
     IPPO.VecDisc.src4 T E A F0 (ippoObsFlat T E a t e) = (a, t, e) ∧
     IPPO.VecDisc.src5 T E A F0 (ippoObsFlat T E a t e) = (a, t, e)) := by
  obtain ⟨a0, a1, a2, a3, a4, a5⟩ := gen_ippo_vec_src_eq T E A F0 F1 (ippoObsFlat T E a t e) f
  obtain ⟨b0, b1, b2, b3, b4, b5, b6⟩ := gen_ippo_vecdisc_src_eq T E A F0 (ippoObsFlat T E a t e) f
  have u := ippoUnflat_flat T E a t e ht he
  rw [a0, a1, a2, a3, a4, a5, b0, b1, b2, b3, b4, b5, b6, u]
  simp

/-- the generated IPPO row map is a bijection between the rows `0 … A*T*E-1` and the samples `(a, t, e)`; the
    model's flattened lists hold in row `row` the entry of the sample the generated map names -/
theorem C17_source_translation_flatten_ippo_bijective {β} (T E A F0 F1 : Nat) (hA : 0 < A) (m : Nat → Nat → Nat → β) :
    IPPO.Vec.rows0 T E A F0 F1 = A * (T * E) ∧ IPPO.Vec.rows3 T E A F0 F1 = A * (T * E) ∧
    (∀ row, row < IPPO.Vec.rows3 T E A F0 F1 →
      (IPPO.Vec.src3 T E A F0 F1 row).1 < A ∧ (IPPO.Vec.src3 T E A F0 F1 row).2.1 < T ∧
      (IPPO.Vec.src3 T E A F0 F1 row).2.2 < E ∧
      ippoObsFlat T E (IPPO.Vec.src3 T E A F0 F1 row).1 (IPPO.Vec.src3 T E A F0 F1 row).2.1
        (IPPO.Vec.src3 T E A F0 F1 row).2.2 = row ∧
      (ippoAdvFlatten A T E m)[row]? = some (m (IPPO.Vec.src3 T E A F0 F1 row).1
        (IPPO.Vec.src3 T E A F0 F1 row).2.1 (IPPO.Vec.src3 T E A F0 F1 row).2.2)) ∧
    (∀ a t e, a < A → t < T → e < E → ippoObsFlat T E a t e < IPPO.Vec.rows3 T E A F0 F1 ∧
      IPPO.Vec.src3 T E A F0 F1 (ippoObsFlat T E a t e) = (a, t, e)) := by
  obtain ⟨r0, _, _, r3, _⟩ := gen_ippo_vec_rows_eq T E A F0 F1
  refine ⟨r0, r3, fun row hr => ?_, fun a t e ha ht he => ?_⟩
  · rw [r3] at hr
    rw [(gen_ippo_vec_src_eq T E A F0 F1 row 0).2.2.2.1, ippoAdvFlatten_eq A T E hA]
    obtain ⟨h1, h2, h3⟩ := ippoUnflat_bounds A T E row hr
    exact ⟨h1, h2, h3, ippoFlat_unflat T E row, ippoObsFlatten_row A T E m row hr⟩
  · rw [r3, (gen_ippo_vec_src_eq T E A F0 F1 _ 0).2.2.2.1]
    exact ⟨(C17_ippo_flat_bijective A T E).1 a t e ha ht he, ippoUnflat_flat T E a t e ht he⟩

/-- **IPPO columns over the generated maps**: in the `(T, A*E)` matrices of rewards, dones and values and in the
    `(1, A*E)` row of `next_done` that the translated code builds before the advantage loop, column `a*E + e` is
    agent `a`, environment `e` (the same column in all four), and there are `A*E` columns -/
theorem C17_source_translation_flatten_ippo_columns (T E A F0 F1 a t e : Nat) (he : e < E) :
    IPPO.Vec.mat_x3 T E A F0 F1 t (a * E + e) = (a, t, e) ∧ IPPO.Vec.mat_x4 T E A F0 F1 t (a * E + e) = (a, t, e) ∧
    IPPO.Vec.mat_x5 T E A F0 F1 t (a * E + e) = (a, t, e) ∧ IPPO.Vec.row_x7 T E A F0 F1 (a * E + e) = (a, T, e) ∧
    IPPO.Vec.mat_x3_cols T E A F0 F1 = A * E ∧ IPPO.Vec.mat_x4_cols T E A F0 F1 = A * E ∧
    IPPO.Vec.mat_x5_cols T E A F0 F1 = A * E ∧ IPPO.Vec.row_x7_cols T E A F0 F1 = A * E := by
  obtain ⟨h3, h4, h5, h7, c3, c4, c5, c7⟩ := gen_ippo_vec_mat_eq T E A F0 F1 t (a * E + e)
  rw [h3, h4, h5, h7, flat2_div E a e he, flat2_mod E a e he]
  exact ⟨rfl, rfl, rfl, rfl, c3, c4, c5, c7⟩

/-- **minibatches over the generated maps**: after the translated `get_experiences_samples`, row `j` of each of the
    six minibatch tensors is the entry of ONE sample — `ppoUnflat T (idx (start + j))` for PPO,
    `ippoUnflat T E (idx (start + j))` for IPPO — for EVERY index function `idx` (`np.random.shuffle` is arbitrary
    here) and every minibatch start: shuffling cannot separate a sample's six entries -/
theorem C17_source_translation_flatten_minibatch (idx : Nat → Nat) (start T E A F0 F1 j f : Nat) :
    (PPO.Vec.batch0 idx start T E F0 F1 j f = ((ppoUnflat T (idx (start + j))).1, (ppoUnflat T (idx (start + j))).2, f) ∧
     PPO.Vec.batch1 idx start T E F0 F1 j f = ((ppoUnflat T (idx (start + j))).1, (ppoUnflat T (idx (start + j))).2, f) ∧
     PPO.Vec.batch2 idx start T E F0 F1 j = ppoUnflat T (idx (start + j)) ∧
     PPO.Vec.batch3 idx start T E F0 F1 j = ppoUnflat T (idx (start + j)) ∧
     PPO.Vec.batch4 idx start T E F0 F1 j = ppoUnflat T (idx (start + j)) ∧
     PPO.Vec.batch5 idx start T E F0 F1 j = ppoUnflat T (idx (start + j))) ∧
    (IPPO.Vec.batch0 idx start T E A F0 F1 j f = ((ippoUnflat T E (idx (start + j))).1,
        (ippoUnflat T E (idx (start + j))).2.1, (ippoUnflat T E (idx (start + j))).2.2, f) ∧
     IPPO.Vec.batch1 idx start T E A F0 F1 j f = ((ippoUnflat T E (idx (start + j))).1,
        (ippoUnflat T E (idx (start + j))).2.1, (ippoUnflat T E (idx (start + j))).2.2, f) ∧
     IPPO.Vec.batch2 idx start T E A F0 F1 j = ippoUnflat T E (idx (start + j)) ∧
     IPPO.Vec.batch3 idx start T E A F0 F1 j = ippoUnflat T E (idx (start + j)) ∧
     IPPO.Vec.batch4 idx start T E A F0 F1 j = ippoUnflat T E (idx (start + j)) ∧
     IPPO.Vec.batch5 idx start T E A F0 F1 j = ippoUnflat T E (idx (start + j))) := by
  obtain ⟨a0, a1, a2, a3, a4, a5⟩ := gen_ppo_vec_batch_eq idx start T E F0 F1 j f
  obtain ⟨b0, b1, b2, b3, b4, b5⟩ := gen_ippo_vec_batch_eq idx start T E A F0 F1 j f
  rw [a0, a1, a2, a3, a4, a5, b0, b1, b2, b3, b4, b5]
  exact ⟨gen_ppo_vec_src_eq T E F0 F1 _ f, gen_ippo_vec_src_eq T E A F0 F1 _ f⟩

end source_translation_flatten

-- non-vacuity of the new statements on concrete sizes: the generated maps on a 2-step × 3-env PPO rollout and a
-- 2-agent × 2-step × 2-env IPPO rollout, a shuffled index vector with a repeat, a permutation
example : (List.range 6).map (FlattenGen.PPO.Vec.src2 2 3 4 5) = [(0,0), (1,0), (0,1), (1,1), (0,2), (1,2)] := by decide
example : (List.range 8).map (FlattenGen.IPPO.Vec.src0 2 2 2 4 5 · 3) = (List.range 8).map (fun r => ((FlattenGen.IPPO.Vec.src3 2 2 2 4 5 r).1, (FlattenGen.IPPO.Vec.src3 2 2 2 4 5 r).2.1, (FlattenGen.IPPO.Vec.src3 2 2 2 4 5 r).2.2, 3)) := by decide
example : gather [5, 0, 5, 2] (ppoFlatten 2 3 (fun t e => (t, e))) = [some (1,2), some (0,0), some (1,2), some (0,1)] := by decide
example : gather [7] (ppoFlatten 2 3 (fun t e => (t, e))) = [none] := by decide
example : [2, 0, 3, 1].Perm (List.range 4) := by decide

end GAE

namespace GAE

/-! ## source translation: the rollout collection (what `learn()` receives)

`harness/py2lean_rollout.py` translates the step loop of `train_on_policy` and `train_multi_agent_on_policy` (the
statements that call `get_action` and `env.step`, compute `next_done = np.logical_or(terminated, truncated)`, append to
the six lists, carry `state = next_state`, `done = next_done`, and build the experiences tuple) into
`RolloutGen.On.collect` / `RolloutGen.MaOn.collect`: from the observation on entry and a stream of replies (policy outputs
+ environment reply per step, one environment column of one agent) to the eight-tuple handed to `learn`.
TRUNCATION as coded: `done = terminated OR truncated` — a time-limit truncation cuts the bootstrap exactly like a
termination (the value of the state after a truncation is NOT bootstrapped).  `dones[0]` is `0` at the start of EVERY
learn step as coded (`done = np.zeros(num_envs)` inside the learn loop, not carried over); the GAE loop never reads it
(`C17_source_translation_rollout_first_flag_unread`). -/
section source_translation_rollout
open RolloutGen GAEGen
variable {σ α : Type}

/-- every generated definition equals the model: the step for every state and reply, the collection for every stream -/
theorem C17_source_translation_rollout_equalities (st u6 : σ) (u7 : Bool) (xs : List (Reply σ α))
    (s : On.St σ α) (s' : MaOn.St σ α) (x : Reply σ α) :
    onSt (On.step s x) = collectStep (onSt s) (ofGenOn x) ∧
    maSt (MaOn.step s' x) = collectStep (maSt s') (ofGen x) ∧
    On.collect st u6 u7 xs = (collect false st u6 u7 (xs.map ofGenOn)).tuple ∧
    MaOn.collect st u6 u7 xs = (collect false st u6 u7 (xs.map ofGen)).tuple :=
  ⟨gen_on_step_eq s x, gen_ma_step_eq s' x, gen_on_collect_eq st u6 u7 xs, gen_ma_collect_eq st u6 u7 xs⟩

/-- **`states[t]` is the observation the policy acted on at step `t`**: the observation `get_action` is called with in
    a step is exactly the entry that step appends to `states` (next to the action, log-prob and value `get_action`
    returned for it and the reward `env.step` returned for that action), in both training functions -/
theorem C17_source_translation_rollout_acted_state_recorded (s : On.St σ α) (s' : MaOn.St σ α) (x : Reply σ α) :
    (On.step s x).e0 = s.e0 ++ [On.acted s] ∧ (On.step s x).e1 = s.e1 ++ [x.pi0] ∧
    (On.step s x).e3 = s.e3 ++ [x.reward] ∧ (On.step s x).e5 = s.e5 ++ [x.pi3] ∧
    (MaOn.step s' x).e0 = s'.e0 ++ [MaOn.acted s'] ∧ (MaOn.step s' x).e1 = s'.e1 ++ [x.pi0] ∧
    (MaOn.step s' x).e3 = s'.e3 ++ [x.reward] ∧ (MaOn.step s' x).e5 = s'.e5 ++ [x.pi3] :=
  ⟨rfl, rfl, rfl, rfl, rfl, rfl, rfl, rfl⟩

/-- what the model collection guarantees, in the form both restatements below use -/
theorem C17_rollout_alignment (d0 : Bool) (st ns : σ) (nd : Bool) (xs : List (StepReply σ α)) :
    let R := collect d0 st ns nd xs
    (R.states.length = xs.length ∧ R.rewards.length = xs.length ∧ R.dones.length = xs.length ∧
      R.values.length = xs.length) ∧
    (0 < xs.length → R.dones[0]? = some d0 ∧ R.states[0]? = some st) ∧
    (∀ t, t + 1 < xs.length → R.dones[t + 1]? = xs[t]?.map StepReply.flag ∧
      R.states[t + 1]? = xs[t]?.map StepReply.after) ∧
    (∀ t, t + 1 = xs.length → some R.nextDone = xs[t]?.map StepReply.flag ∧ some R.nextState = xs[t]?.map (·.obs)) ∧
    (∀ t : Nat, R.rewards[t]? = xs[t]?.map (·.reward) ∧ R.values[t]? = xs[t]?.map (·.value) ∧
      R.actions[t]? = xs[t]?.map (·.action) ∧ R.logps[t]? = xs[t]?.map (·.logp)) := by
  intro R
  obtain ⟨_, h2, h3, h4, _, h6, _, _⟩ := collect_spec d0 st ns nd xs
  have hd := collect_dones d0 st ns nd xs
  have hs := collect_states d0 st ns nd xs
  refine ⟨⟨hs.1, by simp [R, h4], hd.1, by simp [R, h6]⟩, fun h => ⟨hd.2.1 h, hs.2.1 h⟩, fun t ht => ?_, fun t ht => ?_,
    fun t => ?_⟩
  · rw [← List.getElem?_map, ← List.getElem?_map]; exact ⟨hd.2.2 t ht, hs.2.2 t ht⟩
  · rw [← List.getElem?_map, ← List.getElem?_map]; exact collect_next_done d0 st ns nd xs t ht
  · simp only [R, h2, h3, h4, h6, List.getElem?_map, and_self]

/-- **`dones[t]` is the flag produced by step `t − 1`, over the generated collection (single agent)**: the six lists
    have one entry per reply; `dones[0] = 0` and `states[0]` is the observation on entry; `dones[t + 1]` is
    `terminated OR truncated` of the reply to step `t` and `states[t + 1]` its observation; `next_done` / `next_state`
    are flag / observation of the LAST reply; `rewards[t]`, `values[t]`, `actions[t]`, `log_probs[t]` belong to step `t` -/
theorem C17_source_translation_rollout_alignment (st u6 : σ) (u7 : Bool) (xs : List (Reply σ α)) :
    let E := On.collect st u6 u7 xs
    (E.1.length = xs.length ∧ E.2.2.2.1.length = xs.length ∧ E.2.2.2.2.1.length = xs.length ∧
      E.2.2.2.2.2.1.length = xs.length) ∧
    (0 < xs.length → E.2.2.2.2.1[0]? = some false ∧ E.1[0]? = some st) ∧
    (∀ t, t + 1 < xs.length → E.2.2.2.2.1[t + 1]? = xs[t]?.map genFlag ∧ E.1[t + 1]? = xs[t]?.map (·.obs)) ∧
    (∀ t, t + 1 = xs.length → some E.2.2.2.2.2.2.2 = xs[t]?.map genFlag ∧ some E.2.2.2.2.2.2.1 = xs[t]?.map (·.obs)) ∧
    (∀ t : Nat, E.2.2.2.1[t]? = xs[t]?.map (·.reward) ∧ E.2.2.2.2.2.1[t]? = xs[t]?.map (·.pi3) ∧
      E.2.1[t]? = xs[t]?.map (·.pi0) ∧ E.2.2.1[t]? = xs[t]?.map (·.pi1)) := by
  intro E
  have h := C17_rollout_alignment false st u6 u7 (xs.map ofGenOn)
  simp only [List.length_map, List.getElem?_map, Option.map_map] at h
  have e : E = (collect false st u6 u7 (xs.map ofGenOn)).tuple := gen_on_collect_eq st u6 u7 xs
  rw [e]
  exact h

/-- the same for one agent of the multi-agent loop; there `states[t + 1]` is the observation of the loop's own
    `env.reset()` when it reset the (non-vectorised) environment after step `t` -/
theorem C17_source_translation_rollout_alignment_multi_agent (st u6 : σ) (u7 : Bool) (xs : List (Reply σ α)) :
    let E := MaOn.collect st u6 u7 xs
    (E.1.length = xs.length ∧ E.2.2.2.1.length = xs.length ∧ E.2.2.2.2.1.length = xs.length ∧
      E.2.2.2.2.2.1.length = xs.length) ∧
    (0 < xs.length → E.2.2.2.2.1[0]? = some false ∧ E.1[0]? = some st) ∧
    (∀ t, t + 1 < xs.length → E.2.2.2.2.1[t + 1]? = xs[t]?.map genFlag ∧
      E.1[t + 1]? = xs[t]?.map (fun x => x.reset.getD x.obs)) ∧
    (∀ t, t + 1 = xs.length → some E.2.2.2.2.2.2.2 = xs[t]?.map genFlag ∧ some E.2.2.2.2.2.2.1 = xs[t]?.map (·.obs)) ∧
    (∀ t : Nat, E.2.2.2.1[t]? = xs[t]?.map (·.reward) ∧ E.2.2.2.2.2.1[t]? = xs[t]?.map (·.pi3) ∧
      E.2.1[t]? = xs[t]?.map (·.pi0) ∧ E.2.2.1[t]? = xs[t]?.map (·.pi1)) := by
  intro E
  have h := C17_rollout_alignment false st u6 u7 (xs.map ofGen)
  simp only [List.length_map, List.getElem?_map, Option.map_map] at h
  have e : E = (collect false st u6 u7 (xs.map ofGen)).tuple := gen_ma_collect_eq st u6 u7 xs
  rw [e]
  exact h

/-- **the convention the GAE loop relies on, over the generated collection**: what the loop reads as "done after step
    `t`" (`dones[t + 1]`, `next_done` for the last step — `doneAt … (t + 1)`) on the column built from the generated
    eight-tuple is `terminated OR truncated` of the reply to step `t`, for both training functions -/
theorem C17_source_translation_rollout_boundary (st u6 : σ) (u7 : Bool) (xs : List (Reply σ α)) (critic : σ → Rat)
    (t : Nat) (ht : t < xs.length) :
    some (doneAt (tupleCol (On.collect st u6 u7 xs) critic) (t + 1)) = xs[t]?.map genFlag ∧
    some (doneAt (tupleCol (MaOn.collect st u6 u7 xs) critic) (t + 1)) = xs[t]?.map genFlag := by
  rw [gen_on_collect_eq, gen_ma_collect_eq, tupleCol_tuple, tupleCol_tuple]
  constructor
  · rw [← flagsOf_on]; exact collect_doneAt false st u6 u7 _ critic t (by simpa using ht)
  · rw [← flagsOf_ma]; exact collect_doneAt false st u6 u7 _ critic t (by simpa using ht)

/-- **no reward or value from after the first done leaks into an advantage — generated collection ∘ generated GAE
    loop**: if the reply to step `s` reports done (terminated OR truncated) in two streams that agree up to step `s`
    (rewards and values up to and including `s`, flags before `s`), then the advantages and returns of every step
    `t ≤ s` that the translated loop of `PPO.learn` computes from the rollout `train_on_policy` collects — and the
    translated loop of `IPPO._learn_individual` from what `train_multi_agent_on_policy` collects — are the same for both
    streams: whatever rewards, values, flags, observations, critic values and lengths follow step `s`, and whatever the
    observations on entry are -/
theorem C17_source_translation_rollout_no_leak (γ lam : Rat) (st u6 st' u6' : σ) (u7 u7' : Bool)
    (xs xs' : List (Reply σ α)) (critic critic' : σ → Rat) (s : Nat) (hs : s < xs.length) (hs' : s < xs'.length)
    (hd : xs[s]?.map genFlag = some true) (hd' : xs'[s]?.map genFlag = some true) (hag : GenStreamsAgree xs xs' s)
    (t : Nat) (ht : t ≤ s) :
    ((genPPO γ lam (tupleCol (On.collect st u6 u7 xs) critic)).1[t]?
        = (genPPO γ lam (tupleCol (On.collect st' u6' u7' xs') critic')).1[t]? ∧
      (genPPO γ lam (tupleCol (On.collect st u6 u7 xs) critic)).2[t]?
        = (genPPO γ lam (tupleCol (On.collect st' u6' u7' xs') critic')).2[t]?) ∧
    ((genIPPO γ lam (tupleCol (MaOn.collect st u6 u7 xs) critic)).1[t]?
        = (genIPPO γ lam (tupleCol (MaOn.collect st' u6' u7' xs') critic')).1[t]? ∧
      (genIPPO γ lam (tupleCol (MaOn.collect st u6 u7 xs) critic)).2[t]?
        = (genIPPO γ lam (tupleCol (MaOn.collect st' u6' u7' xs') critic')).2[t]?) := by
  have key : ∀ (k : Reply σ α → StepReply σ α), (∀ x, (k x).reward = x.reward) → (∀ x, (k x).value = x.pi3) →
      (∀ x, (k x).flag = genFlag x) →
      let c := (collect false st u6 u7 (xs.map k)).col critic
      let c' := (collect false st' u6' u7' (xs'.map k)).col critic'
      (t < c.T ∧ t < c'.T ∧ c.v.length = c.T ∧ c'.v.length = c'.T) ∧
      adv γ lam c t = adv γ lam c' t ∧ ret γ lam c t = ret γ lam c' t := by
    intro k hr hv hf c c'
    have e3 : ∀ ys : List (Reply σ α), flagsOf (ys.map k) = ys.map genFlag := by
      intro ys; unfold flagsOf; rw [List.map_map]; exact List.map_congr_left (fun x _ => hf x)
    have hT := collect_T false st u6 u7 (xs.map k) critic
    have hT' := collect_T false st' u6' u7' (xs'.map k) critic'
    rw [List.length_map] at hT hT'
    refine ⟨⟨by rw [hT.1]; omega, by rw [hT'.1]; omega, by rw [hT.1, hT.2], by rw [hT'.1, hT'.2]⟩, ?_⟩
    exact collect_no_leak γ lam false st u6 st' u6' u7 u7' (xs.map k) (xs'.map k) critic critic' s
      (by simpa using hs) (by simpa using hs') (by rw [e3, List.getElem?_map]; exact hd)
      (by rw [e3, List.getElem?_map]; exact hd') (streamsAgree_of_gen k hr hv hf xs xs' s hag) t ht
  have fin : ∀ c c' : Col, (t < c.T ∧ t < c'.T ∧ c.v.length = c.T ∧ c'.v.length = c'.T) →
      adv γ lam c t = adv γ lam c' t → ret γ lam c t = ret γ lam c' t →
      ((genPPO γ lam c).1[t]? = (genPPO γ lam c').1[t]? ∧ (genPPO γ lam c).2[t]? = (genPPO γ lam c').2[t]?) ∧
      ((genIPPO γ lam c).1[t]? = (genIPPO γ lam c').1[t]? ∧ (genIPPO γ lam c).2[t]? = (genIPPO γ lam c').2[t]?) := by
    intro c c' ⟨h1, h2, h3, h4⟩ ha hr
    obtain ⟨⟨_, p1⟩, ⟨_, p2⟩⟩ := C17_source_translation_gae_is_recursion γ lam c
    obtain ⟨⟨_, p1'⟩, ⟨_, p2'⟩⟩ := C17_source_translation_gae_is_recursion γ lam c'
    obtain ⟨_, _, q⟩ := C17_source_translation_returns γ lam c h3
    obtain ⟨_, _, q'⟩ := C17_source_translation_returns γ lam c' h4
    rw [p1 t h1, p1' t h2, p2 t h1, p2' t h2, (q t h1).1, (q t h1).2, (q' t h2).1, (q' t h2).2, ha, hr]
    exact ⟨⟨rfl, rfl⟩, rfl, rfl⟩
  rw [gen_on_collect_eq, gen_on_collect_eq, gen_ma_collect_eq, gen_ma_collect_eq]
  simp only [tupleCol_tuple]
  obtain ⟨b1, a1, r1⟩ := key ofGenOn (fun _ => rfl) (fun _ => rfl) (fun _ => rfl)
  obtain ⟨b2, a2, r2⟩ := key ofGen (fun _ => rfl) (fun _ => rfl) (fun _ => rfl)
  exact ⟨(fin _ _ b1 a1 r1).1, (fin _ _ b2 a2 r2).2⟩

theorem specAdv_first_flag (γ lam : Rat) (c : Col) (b : Bool) :
    ∀ n t, specAdv γ lam { c with d := b :: c.d.tail } n t = specAdv γ lam c n t := by
  intro n
  induction n with
  | zero => intro t; rfl
  | succ n ih =>
    intro t
    have hd : doneAt { c with d := b :: c.d.tail } (t + 1) = doneAt c (t + 1) := by
      unfold doneAt Col.T
      cases c.d <;> simp
    have hv : valAt { c with d := b :: c.d.tail } (t + 1) = valAt c (t + 1) := rfl
    simp only [specAdv, delta, hd, hv, ih]

/-- `dones[0]` (reset to zeros at the start of every learn step as coded, although the environment is not reset) is
    never read by the advantage estimation: the advantages of two columns that differ only in `d[0]` are equal -/
theorem C17_source_translation_rollout_first_flag_unread (γ lam : Rat) (c : Col) (b : Bool) (t : Nat) (ht : t < c.T) :
    (genPPO γ lam { c with d := b :: c.d.tail }).1[t]? = (genPPO γ lam c).1[t]? := by
  have hT : ({ c with d := b :: c.d.tail } : Col).T = c.T := rfl
  rw [(C17_source_translation_gae_is_recursion γ lam _).1.2 t (by rw [hT]; exact ht),
    (C17_source_translation_gae_is_recursion γ lam c).1.2 t ht]
  unfold adv
  rw [hT, specAdv_first_flag]

/-! non-vacuity: a stream of three replies whose second step is TRUNCATED (not terminated), and a second stream that
    agrees with it up to that step and differs afterwards (other reward, value, flags, one more step) -/
def exReply (r v : Rat) (term trunc : Bool) (o : Nat) : Reply Nat Nat :=
  { pi0 := 0, pi1 := 0, pi2 := 0, pi3 := v, obs := o, reward := r, term := term, trunc := trunc, reset := none }
def exStream : List (Reply Nat Nat) := [exReply 1 (1/2) false false 11, exReply 2 1 false true 12, exReply 3 (3/2) false false 13]
def exStream' : List (Reply Nat Nat) :=
  [exReply 1 (1/2) false false 21, exReply 2 1 true false 22, exReply (-7) 9 true false 23, exReply 5 2 false false 24]

-- the truncation of step 1 shows up as dones[2] (NOT dones[1]); next_done / next_state belong to the last reply
example : (On.collect 10 0 true exStream).2.2.2.2.1 = [false, false, true] ∧
    (On.collect 10 0 true exStream).2.2.2.2.2.2.2 = false ∧ (On.collect 10 0 true exStream).2.2.2.2.2.2.1 = 13 ∧
    (On.collect 10 0 true exStream).1 = [10, 11, 12] := by
  refine ⟨?_, ?_, ?_, ?_⟩ <;> decide +kernel
example : (MaOn.collect 10 0 true exStream).2.2.2.2.1 = [false, false, true] := by decide +kernel
-- the hypotheses of C17_source_translation_rollout_no_leak hold for s = 1 …
example : exStream[1]?.map genFlag = some true ∧ exStream'[1]?.map genFlag = some true := by decide +kernel
example : GenStreamsAgree exStream exStream' 1 := by
  refine ⟨fun t ht => ?_, fun t ht => ?_⟩
  · have : t = 0 ∨ t = 1 := by omega
    rcases this with h | h <;> subst h <;> decide +kernel
  · have : t = 0 := by omega
    subst this; decide +kernel
-- … and the advantages of steps 0 and 1 are the same concrete numbers for both streams and any critic, step 2 differs
example : (genPPO (1/2) (3/4) (tupleCol (On.collect 10 0 true exStream) (fun _ => 4))).1 = [11/8, 1, 7/2] ∧
    ((genPPO (1/2) (3/4) (tupleCol (On.collect 20 0 true exStream') (fun _ => -3))).1).take 2 = [11/8, 1] := by
  decide +kernel

end source_translation_rollout
end GAE
