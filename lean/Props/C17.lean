import Proofs.GAELeak
import Proofs.GAEFlat
import Proofs.GAEMatrix
import Proofs.GAEGenEq

/-!
# C17 — advantage estimation follows its definition and respects episode boundaries; every
estimate is applied to the observation/action it was computed for

Model: `Model/GAE.lean`.  `gaeLoop` is the backward loop of `PPO.learn` and
`IPPO._learn_individual` with its mutable accumulator, per column (= one parallel environment of
one agent; the tensor operations of the loop are element-wise in that dimension).  `adv`/`ret` are
the recursive definition.  The flatten functions lay a rollout out in training rows exactly as
`flatten_experiences` (PPO), `concatenate_experiences_into_batches` (IPPO states/actions) and the
reshapes of `_learn_individual` (IPPO log-probs/advantages/returns/values) do.

Every theorem quantifies over all rollout lengths, all numbers of environments/agents, all
reward/value/done sequences and all rational γ, λ (no restriction to [0,1] is needed).
-/
namespace GAE

/-- the estimates of the definition satisfy the stated recursion, `A_T = 0`,
    `d_T = next_done`, `V_T = critic(next_state)` -/
theorem C17_definition_recursion (γ lam : Rat) (c : Col) :
    (∀ t, t < c.T → adv γ lam c t =
        (c.r.getD t 0 + γ * valAt c (t + 1) * (1 - ind (doneAt c (t + 1))) - c.v.getD t 0)
        + γ * lam * (1 - ind (doneAt c (t + 1))) * adv γ lam c (t + 1)) ∧
    adv γ lam c c.T = 0 ∧ doneAt c c.T = c.nd ∧ valAt c c.T = c.nv := by
  refine ⟨fun t ht => adv_unfold γ lam c t ht, adv_beyond γ lam c c.T (Nat.le_refl _), ?_, ?_⟩
  · simp [doneAt]
  · simp [valAt]

/-- **loop = definition**, for every rollout length, reward/value/done sequence, γ and λ:
    the loop writes exactly `T` advantages and the `t`-th one is `A_t` -/
theorem C17_gae_is_recursion (γ lam : Rat) (c : Col) :
    (gaeLoop γ lam c).length = c.T ∧
    ∀ t, t < c.T → (gaeLoop γ lam c)[t]? = some (adv γ lam c t) :=
  gaeLoop_spec γ lam c

/-- the same for a whole rollout with `C` parallel columns (environments, or agents × environments),
    which is the function the correspondence harness runs (`gae run …`): entry `(t, j)` of the
    row-major result is `A_t` of column `j` — each column is estimated on its own -/
theorem C17_matrix_is_recursion (γ lam : Rat) (ro : Rollout) (t j : Nat) (ht : t < ro.T) (hj : j < ro.C) :
    (gaeMatrix γ lam ro).length = ro.T * ro.C ∧
    (gaeMatrix γ lam ro)[t * ro.C + j]? = some (adv γ lam (ro.col j) t) :=
  gaeMatrix_get γ lam ro t j ht hj

/-- `returns = advantages + values`: entry `t` is `A_t + V_t` -/
theorem C17_returns (γ lam : Rat) (c : Col) (hv : c.v.length = c.T) (t : Nat) (ht : t < c.T) :
    (returnsOf (gaeLoop γ lam c) c.v)[t]? = some (ret γ lam c t) := by
  have hx : c.v[t]? = some (c.v.getD t 0) := by
    rw [List.getD_eq_getElem?_getD, List.getElem?_eq_getElem (by omega)]; rfl
  exact returnsOf_get _ _ t _ _ ((gaeLoop_spec γ lam c).2 t ht) hx

/-- **no leak across an episode boundary inside the rollout** (per column, i.e. per environment
    and per agent): if `dones[k] = 1` in two rollouts (of any lengths) that agree on rewards,
    values and flags before step `k`, the loop gives them the same advantages and returns at every
    `t < k` — whatever follows `k`, including `V_k`, `next_value` and `next_done` -/
theorem C17_no_leak (γ lam : Rat) (c c' : Col) (k : Nat) (hk : k < c.T) (hk' : k < c'.T)
    (hd : c.d.getD k false = true) (hd' : c'.d.getD k false = true) (hag : AgreeBefore c c' k)
    (t : Nat) (ht : t < k) :
    (gaeLoop γ lam c)[t]? = (gaeLoop γ lam c')[t]? ∧
    adv γ lam c t = adv γ lam c' t ∧ ret γ lam c t = ret γ lam c' t := by
  have h := no_leak γ lam c c' k (by omega) (by omega)
    (by rw [doneAt_lt c k hk]; exact hd) (by rw [doneAt_lt c' k hk']; exact hd') hag t ht
  refine ⟨?_, h⟩
  rw [(gaeLoop_spec γ lam c).2 t (by omega), (gaeLoop_spec γ lam c').2 t (by omega), h.1]

/-- **no leak through the bootstrap**: with `next_done = 1` the critic's value of the final next
    observation (and anything else after the rollout) influences no estimate -/
theorem C17_no_leak_next_done (γ lam : Rat) (c c' : Col) (hT : c.T = c'.T)
    (hd : c.nd = true) (hd' : c'.nd = true) (hag : AgreeBefore c c' c.T)
    (t : Nat) (ht : t < c.T) :
    (gaeLoop γ lam c)[t]? = (gaeLoop γ lam c')[t]? ∧
    adv γ lam c t = adv γ lam c' t ∧ ret γ lam c t = ret γ lam c' t := by
  have h := no_leak γ lam c c' c.T (Nat.le_refl _) (by omega)
    (by simp [doneAt, hd]) (by simp [doneAt, hT, hd']) hag t ht
  refine ⟨?_, h⟩
  rw [(gaeLoop_spec γ lam c).2 t ht, (gaeLoop_spec γ lam c').2 t (by omega), h.1]

/-- **PPO rows**: states, actions, log-probs, advantages, returns and values (six tensors of any
    element types, indexed `(t, e)`) are flattened by the same map: row `e*T + t` of each of them
    holds the entry of step `t`, environment `e`; every flattened tensor has `T*E` rows -/
theorem C17_ppo_rows_aligned {σ α} (T E : Nat) (states : Nat → Nat → σ) (actions : Nat → Nat → α)
    (logp advs rets vals : Nat → Nat → Rat) (t e : Nat) (ht : t < T) (he : e < E) :
    (ppoFlatten T E states)[ppoFlat T t e]? = some (states t e) ∧
    (ppoFlatten T E actions)[ppoFlat T t e]? = some (actions t e) ∧
    (ppoFlatten T E logp)[ppoFlat T t e]? = some (logp t e) ∧
    (ppoFlatten T E advs)[ppoFlat T t e]? = some (advs t e) ∧
    (ppoFlatten T E rets)[ppoFlat T t e]? = some (rets t e) ∧
    (ppoFlatten T E vals)[ppoFlat T t e]? = some (vals t e) ∧
    (ppoFlatten T E states).length = T * E ∧ (ppoFlatten T E advs).length = T * E := by
  unfold ppoFlatten ppoFlat
  refine ⟨table2_get _ _ _ e t he ht, table2_get _ _ _ e t he ht, table2_get _ _ _ e t he ht,
    table2_get _ _ _ e t he ht, table2_get _ _ _ e t he ht, table2_get _ _ _ e t he ht, ?_, ?_⟩ <;>
  rw [table2_length, Nat.mul_comm]

/-- the PPO row map is a bijection between `{(t,e) | t < T, e < E}` and the rows `0 … T*E-1`:
    no sample is lost or used twice -/
theorem C17_ppo_flat_bijective (T E : Nat) :
    (∀ t e, t < T → e < E → ppoFlat T t e < T * E) ∧
    (∀ t e t' e', t < T → t' < T → ppoFlat T t e = ppoFlat T t' e' → t = t' ∧ e = e') ∧
    (∀ row, row < T * E → ∃ t e, t < T ∧ e < E ∧ ppoFlat T t e = row) := by
  unfold ppoFlat
  refine ⟨fun t e ht he => by rw [Nat.mul_comm T E]; exact flat2_lt E T e t he ht, ?_, ?_⟩
  · intro t e t' e' ht ht' h
    obtain ⟨h1, h2⟩ := flat2_inj T e t e' t' ht ht' h
    exact ⟨h2, h1⟩
  · intro row hr
    obtain ⟨e, t, he, ht, h⟩ := flat2_surj E T row (by rw [Nat.mul_comm]; exact hr)
    exact ⟨t, e, ht, he, h⟩

/-- **IPPO rows (repaired code)**: the flatten applied to log-probs/advantages/returns/values
    (`reshape(T, A, -1).transpose(0, 1).reshape(-1)` of the `(T, A*E)` matrix) is the flatten
    applied to states/actions (`concatenate_experiences_into_batches`): row
    `a*(T*E) + t*E + e` of all six tensors holds the entry of agent `a`, step `t`, environment `e`,
    for every number of agents sharing the policy, steps and environments -/
theorem C17_ippo_rows_aligned {σ α} (A T E : Nat) (hA : 0 < A)
    (states : Nat → Nat → Nat → σ) (actions : Nat → Nat → Nat → α)
    (logp advs rets vals : Nat → Nat → Nat → Rat) :
    (∀ {β} (x : Nat → Nat → Nat → β), ippoAdvFlatten A T E x = ippoObsFlatten A T E x) ∧
    (∀ a t e, e < E → ippoAdvFlat A T E a t e = ippoObsFlat T E a t e) ∧
    (∀ a t e, a < A → t < T → e < E →
      (ippoObsFlatten A T E states)[ippoObsFlat T E a t e]? = some (states a t e) ∧
      (ippoObsFlatten A T E actions)[ippoObsFlat T E a t e]? = some (actions a t e) ∧
      (ippoAdvFlatten A T E logp)[ippoObsFlat T E a t e]? = some (logp a t e) ∧
      (ippoAdvFlatten A T E advs)[ippoObsFlat T E a t e]? = some (advs a t e) ∧
      (ippoAdvFlatten A T E rets)[ippoObsFlat T E a t e]? = some (rets a t e) ∧
      (ippoAdvFlatten A T E vals)[ippoObsFlat T E a t e]? = some (vals a t e)) := by
  refine ⟨fun x => ippoAdvFlatten_eq A T E hA x, fun a t e he => ippoAdvFlat_eq A T E a t e hA he, ?_⟩
  intro a t e ha ht he
  simp only [ippoAdvFlatten_eq A T E hA]
  unfold ippoObsFlatten ippoObsFlat
  exact ⟨table3_get _ _ _ _ a t e ha ht he, table3_get _ _ _ _ a t e ha ht he,
    table3_get _ _ _ _ a t e ha ht he, table3_get _ _ _ _ a t e ha ht he,
    table3_get _ _ _ _ a t e ha ht he, table3_get _ _ _ _ a t e ha ht he⟩

/-- the IPPO row map is a bijection between `{(a,t,e)}` and the rows `0 … A*T*E-1` -/
theorem C17_ippo_flat_bijective (A T E : Nat) :
    (∀ a t e, a < A → t < T → e < E → ippoObsFlat T E a t e < A * (T * E)) ∧
    (∀ a t e a' t' e', t < T → t' < T → e < E → e' < E →
      ippoObsFlat T E a t e = ippoObsFlat T E a' t' e' → a = a' ∧ t = t' ∧ e = e') ∧
    (∀ row, row < A * (T * E) → ∃ a t e, a < A ∧ t < T ∧ e < E ∧ ippoObsFlat T E a t e = row) := by
  unfold ippoObsFlat
  exact ⟨fun a t e ha ht he => flat3_lt A T E a t e ha ht he,
    fun a t e a' t' e' ht ht' he he' h => flat3_inj T E a t e a' t' e' ht ht' he he' h,
    fun row hr => flat3_surj A T E row hr⟩

/-- the unrepaired (time-major) row map of the log-probs/advantages/values is also a bijection —
    nothing was lost, the rows were only paired with the wrong observations -/
theorem C17_ippo_unrepaired_flat_bijective (A T E : Nat) :
    (∀ a t e, a < A → t < T → e < E → ippoAdvFlat0 A E a t e < T * (A * E)) ∧
    (∀ a t e a' t' e', a < A → a' < A → e < E → e' < E →
      ippoAdvFlat0 A E a t e = ippoAdvFlat0 A E a' t' e' → a = a' ∧ t = t' ∧ e = e') := by
  unfold ippoAdvFlat0
  refine ⟨fun a t e ha ht he => flat3_lt T A E t a e ht ha he, ?_⟩
  intro a t e a' t' e' ha ha' he he' h
  obtain ⟨h1, h2, h3⟩ := flat3_inj A E t a e t' a' e' ha ha' he he' h
  exact ⟨h2, h1, h3⟩

/-- **IPPO columns (repaired code)**: rewards, dones, values, `next_value` and `next_done` all put
    agent `a`, environment `e` in column `a*E + e` of the matrices the loop runs over -/
theorem C17_ippo_columns_aligned {β} (A E : Nat) (f : Nat → Nat → β) (a e : Nat) (ha : a < A) (he : e < E) :
    (ippoCols A E f)[a * E + e]? = some (f a e) ∧ (ippoCols A E f).length = A * E :=
  ⟨table2_get A E f a e ha he, table2_length A E f⟩

/-- **witness for the unrepaired code** (D9): with two agents sharing a policy, two steps and one
    environment the time-major flatten of advantages/log-probs/values disagrees with the agent-major
    flatten of observations/actions: row 1 holds the observation of (agent 0, step 1) but the
    advantage of (agent 1, step 0) -/
theorem C17_ippo_unrepaired_witness :
    ¬ (∀ a t e, a < 2 → t < 2 → e < 1 → ippoAdvFlat0 2 1 a t e = ippoObsFlat 2 1 a t e) ∧
    ippoObsFlatten 2 2 1 (fun a t e => (a, t, e)) = [(0,0,0), (0,1,0), (1,0,0), (1,1,0)] ∧
    ippoAdvFlatten0 2 2 1 (fun a t e => (a, t, e)) = [(0,0,0), (1,0,0), (0,1,0), (1,1,0)] := by
  refine ⟨fun h => ?_, by decide, by decide⟩
  have := h 0 1 0 (by decide) (by decide) (by decide)
  revert this
  decide

/-- **witness for the unrepaired `next_done`** : stacked with `dim=1` it was laid out environment-major
    (`e*A + a`) while every other matrix of the loop is agent-major (`a*E + e`) -/
theorem C17_ippo_unrepaired_next_done_witness :
    ippoCols 2 2 (fun a e => (a, e)) = [(0,0), (0,1), (1,0), (1,1)] ∧
    ippoNextDoneCols0 2 2 (fun a e => (a, e)) = [(0,0), (1,0), (0,1), (1,1)] := by
  constructor <;> decide

/-! ## the source text, translated

`harness/py2lean_gae.py` translates the advantage-estimation loop of `PPO.learn`
(agilerl/algorithms/ppo.py) and of `IPPO._learn_individual` (agilerl/algorithms/ippo.py) — from the
definitions of `advantages` / `last_gae_lambda` through `for t in reversed(range(num_steps))` to
`returns = advantages + values`, read with Python's `ast` from the tree under test — into
`Gen/GAEGen.lean` on every run of the check; `Proofs/GAEGenEq.lean` proves the generated loop body and
the generated range EQUAL to `loopBody`, `gaeLoop`, `returnsOf`.  The theorems below restate the
advantage / return theorems directly over the generated definitions (`genPPO γ λ c` =
`GAEGen.PPO.gae λ γ c.r (flags c.d) c.v (ind c.nd) c.nv`, likewise `genIPPO`; `.1` = advantages,
`.2` = returns), so a change of the source that alters its meaning breaks them.  The flattening into
training rows is torch reshaping, outside the translated subset: it stays with the theorems above and
the provenance-coded correspondence run. -/
section source_translation
open GAEGen

/-- every generated definition equals the hand-written model function: the loop bodies for every step
    the loop visits, the ranges for every column -/
theorem C17_source_translation_equalities (γ lam : Rat) (c : Col) :
    (∀ s t, t < c.T → PPO.gae_body lam γ c.r (flags c.d) c.v (ind c.nd) c.nv (s.adv, s.last) t
        = ((loopBody γ lam c s t).adv, (loopBody γ lam c s t).last)) ∧
    PPO.gae lam γ c.r (flags c.d) c.v (ind c.nd) c.nv = (gaeLoop γ lam c, returnsOf (gaeLoop γ lam c) c.v) ∧
    (∀ s t, t < c.T → IPPO.gae_body lam γ c.r (flags c.d) c.v (ind c.nd) c.nv (s.adv, s.last) t
        = ((loopBody γ lam c s t).adv, (loopBody γ lam c s t).last)) ∧
    IPPO.gae lam γ c.r (flags c.d) c.v (ind c.nd) c.nv = (gaeLoop γ lam c, returnsOf (gaeLoop γ lam c) c.v) :=
  ⟨fun s t ht => gen_ppo_body_eq γ lam c s t ht, gen_ppo_gae_eq γ lam c,
    fun s t ht => gen_ippo_body_eq γ lam c s t ht, gen_ippo_gae_eq γ lam c⟩

/-- **loop = definition over the generated code**: the advantages the translated loops of `PPO.learn`
    and `IPPO._learn_individual` leave behind are `T` numbers and the `t`-th one is `A_t` of the
    recursive definition, for every rollout length, reward/value/done sequence, γ and λ -/
theorem C17_source_translation_gae_is_recursion (γ lam : Rat) (c : Col) :
    ((genPPO γ lam c).1.length = c.T ∧ ∀ t, t < c.T → (genPPO γ lam c).1[t]? = some (adv γ lam c t)) ∧
    ((genIPPO γ lam c).1.length = c.T ∧ ∀ t, t < c.T → (genIPPO γ lam c).1[t]? = some (adv γ lam c t)) := by
  rw [gen_ppo_gae_eq, gen_ippo_gae_eq]
  exact ⟨C17_gae_is_recursion γ lam c, C17_gae_is_recursion γ lam c⟩

/-- **returns over the generated code**: the translated `returns = advantages + values` is the
    entry-wise sum of the translated advantages and the values, and entry `t` is `A_t + V_t` -/
theorem C17_source_translation_returns (γ lam : Rat) (c : Col) (hv : c.v.length = c.T) :
    (genPPO γ lam c).2 = List.zipWith (· + ·) (genPPO γ lam c).1 c.v ∧
    (genIPPO γ lam c).2 = List.zipWith (· + ·) (genIPPO γ lam c).1 c.v ∧
    ∀ t, t < c.T → (genPPO γ lam c).2[t]? = some (ret γ lam c t) ∧
      (genIPPO γ lam c).2[t]? = some (ret γ lam c t) := by
  rw [gen_ppo_gae_eq, gen_ippo_gae_eq]
  exact ⟨rfl, rfl, fun t ht => ⟨C17_returns γ lam c hv t ht, C17_returns γ lam c hv t ht⟩⟩

/-- **a done flag at `t + 1` cuts the bootstrap, over the generated code**: if `dones[k] = 1` in two
    rollouts (of any lengths) that agree on rewards, values and flags before step `k`, the translated
    loops give them the same advantages and returns at every `t < k` — whatever follows `k`,
    including `V_k`, `next_value` and `next_done` -/
theorem C17_source_translation_no_leak (γ lam : Rat) (c c' : Col) (k : Nat) (hk : k < c.T) (hk' : k < c'.T)
    (hv : c.v.length = c.T) (hv' : c'.v.length = c'.T)
    (hd : c.d.getD k false = true) (hd' : c'.d.getD k false = true) (hag : AgreeBefore c c' k)
    (t : Nat) (ht : t < k) :
    (genPPO γ lam c).1[t]? = (genPPO γ lam c').1[t]? ∧ (genPPO γ lam c).2[t]? = (genPPO γ lam c').2[t]? ∧
    (genIPPO γ lam c).1[t]? = (genIPPO γ lam c').1[t]? ∧ (genIPPO γ lam c).2[t]? = (genIPPO γ lam c').2[t]? := by
  obtain ⟨h1, _, h3⟩ := C17_no_leak γ lam c c' k hk hk' hd hd' hag t ht
  have h2 : (returnsOf (gaeLoop γ lam c) c.v)[t]? = (returnsOf (gaeLoop γ lam c') c'.v)[t]? := by
    rw [C17_returns γ lam c hv t (by omega), C17_returns γ lam c' hv' t (by omega), h3]
  simp only [gen_ppo_gae_eq, gen_ippo_gae_eq]
  exact ⟨h1, h2, h1, h2⟩

/-- **no leak through the bootstrap, over the generated code**: with `next_done = 1` the critic's
    value of the final next observation influences no advantage and no return of the translated loops -/
theorem C17_source_translation_no_leak_next_done (γ lam : Rat) (c c' : Col) (hT : c.T = c'.T)
    (hv : c.v.length = c.T) (hv' : c'.v.length = c'.T)
    (hd : c.nd = true) (hd' : c'.nd = true) (hag : AgreeBefore c c' c.T) (t : Nat) (ht : t < c.T) :
    (genPPO γ lam c).1[t]? = (genPPO γ lam c').1[t]? ∧ (genPPO γ lam c).2[t]? = (genPPO γ lam c').2[t]? ∧
    (genIPPO γ lam c).1[t]? = (genIPPO γ lam c').1[t]? ∧ (genIPPO γ lam c).2[t]? = (genIPPO γ lam c').2[t]? := by
  obtain ⟨h1, _, h3⟩ := C17_no_leak_next_done γ lam c c' hT hd hd' hag t ht
  have h2 : (returnsOf (gaeLoop γ lam c) c.v)[t]? = (returnsOf (gaeLoop γ lam c') c'.v)[t]? := by
    rw [C17_returns γ lam c hv t ht, C17_returns γ lam c' hv' t (by omega), h3]
  simp only [gen_ppo_gae_eq, gen_ippo_gae_eq]
  exact ⟨h1, h2, h1, h2⟩

end source_translation

/-! ### non-vacuity -/

/-- a concrete rollout of one environment: an episode ends after step 1 (`dones[2] = 1`) -/
def exCol : Col := { r := [1, 2, 3], d := [false, false, true], v := [1/2, 1, 3/2], nv := 4, nd := false }
/-- the same rollout with everything from the boundary on replaced (and one more step) -/
def exCol' : Col := { r := [1, 2, -7, 5], d := [false, false, true, false], v := [1/2, 1, 9, 2], nv := -3, nd := true }

example : gaeLoop (1/2) (3/4) exCol = [11/8, 1, 7/2] := by decide +kernel
example : [adv (1/2) (3/4) exCol 0, adv (1/2) (3/4) exCol 1, adv (1/2) (3/4) exCol 2] = [11/8, 1, 7/2] := by decide +kernel
example : returnsOf (gaeLoop (1/2) (3/4) exCol) exCol.v = [15/8, 2, 5] := by decide +kernel
-- hypotheses of C17_no_leak hold for k = 2 although the rollouts differ afterwards …
example : AgreeBefore exCol exCol' 2 := by
  intro t ht
  have : t = 0 ∨ t = 1 := by omega
  rcases this with h | h <;> subst h <;> decide +kernel
example : exCol.d.getD 2 false = true ∧ exCol'.d.getD 2 false = true ∧ 2 < exCol.T ∧ 2 < exCol'.T := by decide +kernel
-- … and the conclusion is the expected concrete equality, while step 2 differs
example : (gaeLoop (1/2) (3/4) exCol').take 2 = [11/8, 1] ∧ (gaeLoop (1/2) (3/4) exCol')[2]? ≠ (gaeLoop (1/2) (3/4) exCol)[2]? := by decide +kernel
-- next_done as boundary
example : gaeLoop (1/2) (3/4) { exCol with nd := true, nv := 100 } = gaeLoop (1/2) (3/4) { exCol with nd := true, nv := -5 } := by decide +kernel
-- flatten maps on a concrete 2×3 rollout / 2 agents × 2 steps × 2 envs
example : ppoFlatten 2 3 (fun t e => (t, e)) = [(0,0), (1,0), (0,1), (1,1), (0,2), (1,2)] := by decide +kernel
example : ippoAdvFlatten 2 2 2 (fun a t e => (a, t, e)) = ippoObsFlatten 2 2 2 (fun a t e => (a, t, e)) := by decide +kernel
example : ippoAdvFlatten0 2 2 2 (fun a t e => (a, t, e)) ≠ ippoObsFlatten 2 2 2 (fun a t e => (a, t, e)) := by decide +kernel

-- the generated (source-translated) ranges on the same rollouts: values, and the hypotheses of
-- C17_source_translation_no_leak (value columns as long as the rollout)
example : genPPO (1/2) (3/4) exCol = ([11/8, 1, 7/2], [15/8, 2, 5]) ∧ genIPPO (1/2) (3/4) exCol = genPPO (1/2) (3/4) exCol := by decide +kernel
example : exCol.v.length = exCol.T ∧ exCol'.v.length = exCol'.T := by decide
example : (genIPPO (1/2) (3/4) exCol').1.take 2 = [11/8, 1] ∧ (genIPPO (1/2) (3/4) exCol').2.take 2 = [15/8, 2] := by decide +kernel

end GAE
