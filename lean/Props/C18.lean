import Proofs.C51Sums
import Proofs.C51GenEq
import Proofs.C51BatchGenEq
import Proofs.DuelingGenEq
import Proofs.DuelingReal

/-!
# C18 — Rainbow's distributional target conserves probability mass and expected value

Model: `Model/C51.lean` — `_dqn_loss` of `agilerl/algorithms/dqn_rainbow.py` over exact rationals:
support `z_j = v_min + jΔ`, `t_z = clamp(r + (1-d)·γ·z_j)`, `b = clamp((t_z - v_min)/Δ, 0, N-1)`,
`l = ⌊b⌋`, `u = ⌈b⌉`, the two sequential fix-ups, the two `index_add_` calls on the flattened
`B·N` buffer with offsets `bi·N`, the element-wise loss `-(proj · log p).sum(1)` with opaque
log-probabilities, and the way `learn` combines the 1-step / n-step losses into priorities.

Every theorem holds for **all** `N ≥ 2`, all `v_min < v_max`, all rational rewards, done flags
(not only 0/1), discounts, batches and source vectors `p` — in particular `p` is *not* assumed to
sum to one (the real target distribution is a soft-max clamped from below, so it does not).

Source translation: `harness/py2lean_c51.py` translates `RainbowDQN.__init__` (support, `delta_z`), `_dqn_loss`
(symbolic execution per batch row with shape / dtype inference: the clamped Bellman shift, `b`, floor / ceil, the
two sequential masked fix-ups, the row offsets recognised as `i·num_atoms`, the two `index_add_` scatters, the
greedy selection of the target distribution, the loss) and `learn` (which batch feeds which call, `γ` vs
`γ ** n_step`, the combination, `+ prior_eps`, the returned indices) from the source text into
`Gen/C51Gen.lean`; `Proofs/C51GenEq.lean` proves the generated definitions equal to the model and the
`C18_source_translation_*` theorems at the end restate the property over the generated definitions, so they are
re-checked against what the code says now.

Where the distributions come from (second part, `namespace Duel`): `DuelingDistributionalMLP.forward` and
`RainbowQNetwork.forward` (custom_modules.py, q_networks.py) — the dueling combination, soft-max, the `1e-3`
clamp, the expectation, `log_softmax` — modelled in `namespace Duel` of `Model/C51.lean`, translated by
`harness/py2lean_dueling.py` into `Gen/DuelingGen.lean` (`Proofs/DuelingGenEq.lean`), theorems
`C18_dueling_*` / `C18_source_translation_dueling_*`.
-/
namespace C51

/-- the floor/ceil neighbours after the two sequential fix-ups: adjacent, inside the support,
    and bracketing `b` (so both interpolation weights `u - b`, `b - l` are non-negative) —
    for every position `b ∈ [0, N-1]`, integral (`b` exactly on an atom, including `0` and `N-1`)
    or not -/
theorem C18_ul_adjacent (N : Nat) (hN : 2 ≤ N) (b : Rat) (h0 : 0 ≤ b) (h1 : b ≤ (N : Rat) - 1) :
    (lowUp N b).2 - (lowUp N b).1 = 1 ∧ 0 ≤ (lowUp N b).1 ∧ (lowUp N b).2 ≤ (N : Int) - 1 ∧
    ((lowUp N b).1 : Rat) ≤ b ∧ b ≤ ((lowUp N b).2 : Rat) := by
  obtain ⟨a, b', c⟩ := lowUp_adjacent N hN b h0 h1
  obtain ⟨d, e⟩ := lowUp_brackets N hN b h0
  exact ⟨a, b', c, d, e⟩

/-- … and the `b` that `_dqn_loss` computes is such a position for every reward, done flag,
    discount and atom; the clamp on `b` (repair of the float32 overflow) is the identity over ℚ -/
theorem C18_ul_adjacent_in_loss (c : Cfg) (hc : c.Valid) (r d g : Rat) (j : Nat) :
    bpos c r d g j = (tz c r d g j - c.vmin) / c.delta ∧
    0 ≤ bpos c r d g j ∧ bpos c r d g j ≤ (c.N : Rat) - 1 ∧
    (lowUp c.N (bpos c r d g j)).2 - (lowUp c.N (bpos c r d g j)).1 = 1 ∧
    0 ≤ (lowUp c.N (bpos c r d g j)).1 ∧ (lowUp c.N (bpos c r d g j)).2 ≤ (c.N : Int) - 1 := by
  obtain ⟨b0, b1⟩ := bpos_range c (by have := hc.1; omega) r d g j
  obtain ⟨a1, a2, a3⟩ := lowUp_adjacent c.N hc.1 _ b0 b1
  exact ⟨bpos_eq c hc r d g j, b0, b1, a1, a2, a3⟩

/-- no flat index of either `index_add_` leaves the `B·N` buffer (the real call would raise) -/
theorem C18_scatter_in_range (c : Cfg) (hc : c.Valid) (g : Rat) (rows : List Row) :
    projOK c g rows = true :=
  projOK_of_valid c hc.1 g rows

/-- row `bi` of the batched, offset-based scatter is the projection of transition `bi` alone … -/
theorem C18_row_is_single_projection (c : Cfg) (hc : c.Valid) (g : Rat) (rows : List Row)
    (bi : Nat) (hbi : bi < rows.length) :
    projRow c g rows bi = projOne c g rows[bi] :=
  projRow_eq_projOne c hc.1 g rows bi hbi

/-- … hence the flattened offsets never mix batch rows: row `bi` of the result depends only on
    row `bi` of the inputs, whatever the other rows (and however many) are -/
theorem C18_rows_independent (c : Cfg) (hc : c.Valid) (g : Rat) (rows rows' : List Row) (bi bi' : Nat)
    (hbi : bi < rows.length) (hbi' : bi' < rows'.length) (hsame : rows[bi] = rows'[bi']) :
    projRow c g rows bi = projRow c g rows' bi' := by
  rw [projRow_eq_projOne c hc.1 g rows bi hbi, projRow_eq_projOne c hc.1 g rows' bi' hbi', hsame]

/-- total mass of every row of the projection = total mass of that row's source distribution -/
theorem C18_mass_conserved (c : Cfg) (hc : c.Valid) (g : Rat) (rows : List Row)
    (bi : Nat) (hbi : bi < rows.length) (hshape : rows[bi].p.length = c.N) :
    (projRow c g rows bi).sum = rows[bi].p.sum := by
  rw [projRow_eq_projOne c hc.1 g rows bi hbi]
  exact mass_projOne c hc.1 g _ hshape

/-- `Σ_k proj_k · z_k = Σ_j p_j · t_z_j` with `t_z_j = clamp(r + (1-d)·γ·z_j, v_min, v_max)` -/
theorem C18_mean_conserved (c : Cfg) (hc : c.Valid) (g : Rat) (rows : List Row)
    (bi : Nat) (hbi : bi < rows.length) (hshape : rows[bi].p.length = c.N) :
    dot (projRow c g rows bi) (supportList c) = dot rows[bi].p (tzList c g rows[bi]) := by
  rw [projRow_eq_projOne c hc.1 g rows bi hbi]
  exact mean_projOne c hc g _ hshape

/-- cross-entropy between the projected target of one transition (target distribution of the
    greedy next action under the online q-values) and the online log-distribution of the action
    taken -/
def crossEntropy (c : Cfg) (g : Rat) (s : Sample) : Rat := - dot (projOne c g s.row) s.logpA

/-- `_dqn_loss` returns, sample by sample, that cross-entropy -/
theorem C18_loss_is_cross_entropy (c : Cfg) (hc : c.Valid) (g : Rat) (batch : List Sample) :
    dqnLoss c g batch = batch.map (crossEntropy c g) := by
  unfold dqnLoss
  apply List.ext_getElem
  · simp
  · intro i h1 h2
    have hi : i < batch.length := by simpa using h2
    simp only [List.getElem_map, List.getElem_zipIdx, Nat.zero_add, crossEntropy]
    rw [projRow_eq_projOne c hc.1 g _ i (by simpa using hi)]
    simp

/-- the element-wise loss `learn` computes (with or without PER): 1-step alone with `γ`; n-step
    alone with `γ ^ n_step`; combined = the sum of the two -/
theorem C18_learn_elementwise (h : Hyper) (hc : h.cfg.Valid) (per : Bool) (one nb : List Sample) :
    (learn h per one none).elementwise = one.map (crossEntropy h.cfg h.gamma) ∧
    (h.combined = false → (learn h per one (some nb)).elementwise =
        nb.map (crossEntropy h.cfg (h.gamma ^ h.nStep))) ∧
    (h.combined = true → (learn h per one (some nb)).elementwise =
        List.zipWith (fun s t => crossEntropy h.cfg h.gamma s + crossEntropy h.cfg (h.gamma ^ h.nStep) t)
          one nb) := by
  refine ⟨?_, ?_, ?_⟩
  · simp [learn, C18_loss_is_cross_entropy _ hc]
  · intro hcomb
    simp [learn, hcomb, C18_loss_is_cross_entropy _ hc]
  · intro hcomb
    simp only [learn, hcomb, C18_loss_is_cross_entropy _ hc, if_true]
    rw [List.zipWith_map_left, List.zipWith_map_right]

/-- what `learn(per=True)` hands back as new priorities is that cross-entropy plus `prior_eps`,
    sample by sample, together with the batch's own indices in the same order; without PER no
    priorities are returned -/
theorem C18_priority_is_cross_entropy (h : Hyper) (hc : h.cfg.Valid) (one nb : List Sample) :
    (learn h true one none).priorities =
        some (one.map fun s => crossEntropy h.cfg h.gamma s + h.priorEps) ∧
    (h.combined = false → (learn h true one (some nb)).priorities =
        some (nb.map fun s => crossEntropy h.cfg (h.gamma ^ h.nStep) s + h.priorEps)) ∧
    (h.combined = true → (learn h true one (some nb)).priorities =
        some (List.zipWith (fun s t => crossEntropy h.cfg h.gamma s
                + crossEntropy h.cfg (h.gamma ^ h.nStep) t + h.priorEps) one nb)) ∧
    (learn h true one none).idxs = some (one.map (·.idx)) ∧
    (learn h true one (some nb)).idxs = some (one.map (·.idx)) ∧
    (learn h false one none).priorities = none ∧ (learn h false one (some nb)).priorities = none := by
  have key : ∀ nst, (learn h true one nst).priorities =
      some ((learn h true one nst).elementwise.map (· + h.priorEps)) := by intro nst; simp [learn]
  obtain ⟨e1, e2, e3⟩ := C18_learn_elementwise h hc true one nb
  refine ⟨?_, ?_, ?_, ?_, ?_, ?_, ?_⟩
  · rw [key, e1, List.map_map]; rfl
  · intro hcomb; rw [key, e2 hcomb, List.map_map]; rfl
  · intro hcomb; rw [key, e3 hcomb, List.map_zipWith]
  · simp [learn]
  · simp [learn]
  · simp [learn]
  · simp [learn]

/-! ### non-vacuity: 5 atoms on [-2, 2] (Δ = 1), γ = 1/2 -/

def ex5 : Cfg := { N := 5, vmin := -2, vmax := 2 }
def exP : List Rat := [1/2, 1/4, 1/8, 1/8, 1/16]      -- mass 17/16: not normalised on purpose

example : ex5.Valid := by decide +kernel
/-- reward exactly on an atom, terminal: `t_z = 1` for every atom, `b = 3 = ⌊b⌋ = ⌈b⌉`; the
    first fix-up moves `l` to 2 and all mass lands on atom 3 -/
example : projOne ex5 (1/2) { r := 1, d := 1, p := exP } = [0, 0, 0, 17/16, 0] := by decide +kernel
/-- reward beyond the support: clipped to `v_max`, `b = N-1`, all mass on the last atom -/
example : projOne ex5 (1/2) { r := 5, d := 0, p := exP } = [0, 0, 0, 0, 17/16] := by decide +kernel
/-- terminal with a reward below the support: `b = 0`, only the *second* fix-up fires -/
example : projOne ex5 (1/2) { r := -7, d := 1, p := exP } = [17/16, 0, 0, 0, 0] := by decide +kernel
example : lowUp 5 0 = (0, 1) ∧ lowUp 5 3 = (2, 3) ∧ lowUp 5 4 = (3, 4) ∧ lowUp 5 (5/2) = (2, 3) := by decide +kernel
/-- a non-terminal transition between atoms, in a batch of three: rows keep their own mass and
    mean, and the middle row equals its stand-alone projection -/
def exRows : List Row :=
  [{ r := 1, d := 1, p := exP }, { r := 1/4, d := 0, p := exP }, { r := 5, d := 0, p := exP }]
example : projRow ex5 (1/2) exRows 1 = [0, 7/16, 7/16, 11/64, 1/64] := by decide +kernel
example : (projRow ex5 (1/2) exRows 1).sum = 17/16 ∧
    dot (projRow ex5 (1/2) exRows 1) (supportList ex5) = dot exP (tzList ex5 (1/2) exRows[1]) := by decide +kernel
example : ∀ row ∈ exRows, row.p.length = ex5.N := by decide +kernel

/-! ### the theorems over the definitions generated from the source text (`Gen/C51Gen.lean`)

Inputs of the generated definitions: the attributes `self_v_min/v_max/num_atoms/delta_z/support/gamma/n_step/
combined_reward/prior_eps`, the row's `reward / done / action / obs / next_obs / idxs`, and the three forward
passes as opaque per-row functions — pinned BY NAME below (`actor`, `actor_target_q_False`,
`actor_q_False_log_True`): asking another network, or the same one with other flags, renames a parameter and the
statements stop elaborating.  `support0` / `delta_z0` are what `__init__` computes, so an agent constructed with
`(v_min, v_max, num_atoms)` runs `project (delta_z0 …) num_atoms (support0 …) …`. -/
section source_translation

/-- every generated definition equals its counterpart in the hand-written model -/
theorem C18_source_translation_equalities (c : Cfg) (g r d b x : Rat) (j : Nat) (p : List Rat) :
    C51Gen.delta_z0 c.N c.vmax c.vmin = c.delta ∧
    C51Gen.support0 c.N c.vmax c.vmin = supportList c ∧
    C51Gen.pos c.delta c.N c.vmax c.vmin r d g (c.z j) = bpos c r d g j ∧
    C51Gen.scatter0 c.N b x = ((lowUp c.N b).1, x * (((lowUp c.N b).2 : Rat) - b)) ∧
    C51Gen.scatter1 c.N b x = ((lowUp c.N b).2, x * (b - ((lowUp c.N b).1 : Rat))) ∧
    C51Gen.project c.delta c.N (supportList c) c.vmax c.vmin r d g p = projOne c g ⟨r, d, p⟩ :=
  ⟨gen_delta_z0_eq c, gen_support0_eq c, gen_pos_eq c r d g j, gen_scatter0_eq c.N b x, gen_scatter1_eq c.N b x,
   gen_project_eq c g r d p⟩

/-- the row an agent constructed with `(v_min, v_max, num_atoms)` projects, as the generated code computes it -/
def genProject (c : Cfg) (g r d : Rat) (p : List Rat) : List Rat :=
  C51Gen.project (C51Gen.delta_z0 c.N c.vmax c.vmin) c.N (C51Gen.support0 c.N c.vmax c.vmin) c.vmax c.vmin r d g p

theorem genProject_eq (c : Cfg) (g r d : Rat) (p : List Rat) : genProject c g r d p = projOne c g ⟨r, d, p⟩ := by
  unfold genProject
  rw [gen_delta_z0_eq, gen_support0_eq, gen_project_eq]

/-- **adjacency, over the generated code**: for every position `b ∈ [0, N-1]` the first `index_add_` writes at
    an atom `l`, the second at `l + 1`, both inside the support, `l ≤ b ≤ l + 1`, and the two values added are
    `x·(l + 1 - b)` and `x·(b - l)` — non-negative shares of `x` that sum to `x` -/
theorem C18_source_translation_adjacent (N : Nat) (hN : 2 ≤ N) (b x : Rat) (h0 : 0 ≤ b) (h1 : b ≤ (N : Rat) - 1) :
    (C51Gen.scatter1 N b x).1 = (C51Gen.scatter0 N b x).1 + 1 ∧
    0 ≤ (C51Gen.scatter0 N b x).1 ∧ (C51Gen.scatter1 N b x).1 ≤ (N : Int) - 1 ∧
    (((C51Gen.scatter0 N b x).1 : Int) : Rat) ≤ b ∧ b ≤ (((C51Gen.scatter1 N b x).1 : Int) : Rat) ∧
    (C51Gen.scatter0 N b x).2 = x * ((((C51Gen.scatter0 N b x).1 : Int) : Rat) + 1 - b) ∧
    (C51Gen.scatter1 N b x).2 = x * (b - (((C51Gen.scatter0 N b x).1 : Int) : Rat)) ∧
    (C51Gen.scatter0 N b x).2 + (C51Gen.scatter1 N b x).2 = x := by
  obtain ⟨a1, a2, a3, a4, a5⟩ := C18_ul_adjacent N hN b h0 h1
  rw [gen_scatter0_eq, gen_scatter1_eq]
  have e : (lowUp N b).2 = (lowUp N b).1 + 1 := by omega
  refine ⟨e, a2, a3, a4, a5, ?_, ?_, ?_⟩
  · simp only [e]; push_cast; ring
  · rfl
  · simp only [e]; push_cast; ring

/-- the position the generated code computes is in `[0, N-1]` for every reward, done flag, discount and atom,
    and the clamp on it (repair of the float32 overflow) is the identity over ℚ -/
theorem C18_source_translation_pos_in_range (c : Cfg) (hc : c.Valid) (r d g : Rat) (j : Nat) :
    let b := C51Gen.pos c.delta c.N c.vmax c.vmin r d g (c.z j)
    0 ≤ b ∧ b ≤ (c.N : Rat) - 1 ∧ b = (clamp c.vmin c.vmax (r + (1 - d) * g * c.z j) - c.vmin) / c.delta := by
  intro b
  have hb : b = bpos c r d g j := gen_pos_eq c r d g j
  obtain ⟨e, b0, b1, _⟩ := C18_ul_adjacent_in_loss c hc r d g j
  rw [hb]
  exact ⟨b0, b1, e⟩

/-- **mass, over the generated code**: the projected row has the mass of the source distribution -/
theorem C18_source_translation_mass (c : Cfg) (hc : c.Valid) (g r d : Rat) (p : List Rat) (hp : p.length = c.N) :
    (genProject c g r d p).sum = p.sum := by
  rw [genProject_eq]
  exact mass_projOne c hc.1 g ⟨r, d, p⟩ hp

/-- **mean, over the generated code**: `Σ_k proj_k · z_k = Σ_j p_j · clamp(r + (1-d)·γ·z_j)`; when no shifted
    atom leaves the support this is `r · mass + (1-d)·γ · Σ_j p_j z_j` (the Bellman shift of the mean) -/
theorem C18_source_translation_mean (c : Cfg) (hc : c.Valid) (g r d : Rat) (p : List Rat) (hp : p.length = c.N) :
    dot (genProject c g r d p) (C51Gen.support0 c.N c.vmax c.vmin) =
      dot p ((List.range c.N).map fun j => clamp c.vmin c.vmax (r + (1 - d) * g * c.z j)) ∧
    ((∀ j, j < c.N → c.vmin ≤ r + (1 - d) * g * c.z j ∧ r + (1 - d) * g * c.z j ≤ c.vmax) →
      dot (genProject c g r d p) (C51Gen.support0 c.N c.vmax c.vmin) =
        r * p.sum + (1 - d) * g * dot p (supportList c)) := by
  have h1 : dot (genProject c g r d p) (C51Gen.support0 c.N c.vmax c.vmin) =
      dot p ((List.range c.N).map fun j => clamp c.vmin c.vmax (r + (1 - d) * g * c.z j)) := by
    rw [genProject_eq, gen_support0_eq]
    exact mean_projOne c hc g ⟨r, d, p⟩ hp
  refine ⟨h1, ?_⟩
  intro hin
  rw [h1, dot_eq_sum _ _ c.N hp (by simp), dot_eq_sum _ _ c.N hp (by simp [supportList]), sum_getD, hp,
      Finset.mul_sum, Finset.mul_sum, ← Finset.sum_add_distrib]
  apply Finset.sum_congr rfl
  intro j hj
  have hj' := Finset.mem_range.mp hj
  rw [getD_map_range _ _ _ hj', getD_supportList c j hj', clamp_id _ _ _ (hin j hj').1 (hin j hj').2]
  ring

/-- **triangular weights, over the generated code**: atom `k` of the projected row is
    `Σ_j p_j · Λ(b_j - k)`, `Λ(t) = max 0 (1 - |t|)`, `b_j` the generated position of source atom `j`: each source
    atom's mass goes to the two atoms next to its shifted position, linearly in the distance, and nowhere else -/
theorem C18_source_translation_triangular (c : Cfg) (hc : c.Valid) (g r d : Rat) (p : List Rat) (k : Nat)
    (hk : k < c.N) :
    (genProject c g r d p).getD k 0 =
      ∑ j ∈ Finset.range c.N, p.getD j 0 *
        tri (C51Gen.pos c.delta c.N c.vmax c.vmin r d g ((C51Gen.support0 c.N c.vmax c.vmin).getD j 0) - (k : Rat)) := by
  rw [genProject_eq, getD_projOne_tri c hc.1 g _ k hk]
  apply Finset.sum_congr rfl
  intro j hj
  rw [gen_support0_eq, getD_supportList c j (Finset.mem_range.mp hj), gen_pos_eq]

/-- **terminal transitions, over the generated code**: with `done = 1` the projected row is the point mass at
    `clamp(r, v_min, v_max)` carrying the whole source mass, whatever `γ`: atom `k` gets `mass · Λ(β - k)` with
    `β = (clamp(r) - v_min)/Δ`; its mean is `mass · clamp(r)`; and when `clamp(r)` is the atom `z_m` the row is
    `mass` at `m` and `0` elsewhere -/
theorem C18_source_translation_done_point_mass (c : Cfg) (hc : c.Valid) (g r : Rat) (p : List Rat)
    (hp : p.length = c.N) :
    let β := (clamp c.vmin c.vmax r - c.vmin) / c.delta
    (∀ k, k < c.N → (genProject c g r 1 p).getD k 0 = p.sum * tri (β - (k : Rat))) ∧
    dot (genProject c g r 1 p) (C51Gen.support0 c.N c.vmax c.vmin) = p.sum * clamp c.vmin c.vmax r ∧
    (∀ m, m < c.N → clamp c.vmin c.vmax r = c.z m →
      ∀ k, k < c.N → (genProject c g r 1 p).getD k 0 = if k = m then p.sum else 0) := by
  intro β
  have hβ : clamp 0 ((c.N : Rat) - 1) β = β := by
    have := bpos_eq c hc r 1 g 0
    rw [bpos_done, tz_done] at this
    exact this
  have h1 : ∀ k, k < c.N → (genProject c g r 1 p).getD k 0 = p.sum * tri (β - (k : Rat)) := by
    intro k hk
    rw [genProject_eq, projOne_done c hc.1 g r p hp k hk, hβ]
  refine ⟨h1, ?_, ?_⟩
  · rw [(C18_source_translation_mean c hc g r 1 p hp).1, dot_eq_sum _ _ c.N hp (by simp), sum_getD, hp,
        Finset.sum_mul]
    apply Finset.sum_congr rfl
    intro j hj
    rw [getD_map_range _ _ _ (Finset.mem_range.mp hj)]
    congr 2
    ring
  · intro m hm hz k hk
    rw [h1 k hk]
    have hd := delta_pos c hc
    have hβm : β = (m : Rat) := by
      show (clamp c.vmin c.vmax r - c.vmin) / c.delta = (m : Rat)
      have hne : c.delta ≠ 0 := ne_of_gt hd
      rw [hz, div_eq_iff hne]; unfold Cfg.z; ring
    rw [hβm]
    unfold tri
    by_cases e : k = m
    · subst e; simp
    · rw [if_neg e]
      have : (1 : Rat) ≤ |(m : Rat) - (k : Rat)| := by
        rcases Nat.lt_or_gt_of_ne e with hlt | hgt
        · have : (k : Rat) + 1 ≤ (m : Rat) := by exact_mod_cast hlt
          rw [abs_of_nonneg (by linarith)]; linarith
        · have : (m : Rat) + 1 ≤ (k : Rat) := by exact_mod_cast hgt
          rw [abs_of_nonpos (by linarith)]; linarith
      rw [max_eq_left (by linarith), mul_zero]

section nets
variable {Obs : Type} (actor : Obs → List Rat) (actorLog actorT : Obs → List (List Rat))

/-- **which network is asked for what, over the generated code**: the distribution that is projected is the
    TARGET network's (`q=False`) distribution of the NEXT observation for the action that maximises the ONLINE
    network's q-values of the NEXT observation (first maximum) -/
theorem C18_source_translation_target_selection (next_obs : Obs) :
    C51Gen.target_dist (actor := actor) (actor_target_q_False := actorT) next_obs =
      (actorT next_obs).getD (argmaxFirst (actor next_obs)) [] := by
  unfold C51Gen.target_dist
  rw [gen_argmaxFirst_eq]

/-- **the loss, over the generated code**: the entry `_dqn_loss` returns for a row is the cross-entropy between
    the projected target of that row and the ONLINE network's log-distribution (`q=False, log=True`) of the
    CURRENT observation for the action taken -/
theorem C18_source_translation_loss_is_cross_entropy (c : Cfg) (g : Rat) (e : C51Gen.Row Obs)
    (hlog : LogOK actorLog c e) :
    C51Gen.dqn_loss (actor := actor) (actor_q_False_log_True := actorLog) (actor_target_q_False := actorT)
        (C51Gen.delta_z0 c.N c.vmax c.vmin) c.N (C51Gen.support0 c.N c.vmax c.vmin) c.vmax c.vmin
        e.obs e.action e.reward e.next_obs e.done g
      = crossEntropy c g (sampleOf actor actorLog actorT e) ∧
    crossEntropy c g (sampleOf actor actorLog actorT e) =
      - dot (genProject c g e.reward e.done ((actorT e.next_obs).getD (argmaxFirst (actor e.next_obs)) []))
            ((actorLog e.obs).getD e.action []) := by
  constructor
  · rw [gen_delta_z0_eq, gen_support0_eq]
    exact gen_dqn_loss_eq c g actor actorLog actorT e hlog
  · rw [genProject_eq]; rfl

/-- **learn, over the generated code**: row by row, the new priorities the generated `learn` returns under PER are
    the model's (`C18_priority_is_cross_entropy`: cross-entropy with `γ` for the 1-step batch, with `γ ^ n_step`
    for the n-step batch — each call fed by ITS OWN batch's reward / done / observations —, their sum when
    `combined_reward`, plus `prior_eps`), none without PER; the returned indices are the 1-step batch's; without
    PER the returned scalar loss is the batch mean of the same element-wise loss -/
theorem C18_source_translation_learn (h : Hyper) (hc : h.cfg.Valid) (one nb : List (C51Gen.Row Obs))
    (hlen : one.length = nb.length)
    (h1 : ∀ e ∈ one, LogOK actorLog h.cfg e) (hn : ∀ e ∈ nb, LogOK actorLog h.cfg e) :
    let S := sampleOf actor actorLog actorT
    let prio := fun e ne per =>
      C51Gen.learn_ret2 (actor := actor) (actor_q_False_log_True := actorLog) (actor_target_q_False := actorT)
        h.combined (C51Gen.delta_z0 h.cfg.N h.cfg.vmax h.cfg.vmin) h.gamma h.nStep h.cfg.N h.priorEps
        (C51Gen.support0 h.cfg.N h.cfg.vmax h.cfg.vmin) h.cfg.vmax h.cfg.vmin e ne per
    let lossTerm := fun e ne =>
      C51Gen.learn_ret0 (actor := actor) (actor_q_False_log_True := actorLog) (actor_target_q_False := actorT)
        h.combined (C51Gen.delta_z0 h.cfg.N h.cfg.vmax h.cfg.vmin) h.gamma h.nStep h.cfg.N
        (C51Gen.support0 h.cfg.N h.cfg.vmax h.cfg.vmin) h.cfg.vmax h.cfg.vmin e ne false
    Option.map (List.map some) (learn h true (one.map S) none).priorities = some (one.map fun e => prio e none true) ∧
    Option.map (List.map some) (learn h true (one.map S) (some (nb.map S))).priorities =
      some (List.zipWith (fun e ne => prio e (some ne) true) one nb) ∧
    (∀ e ne, prio e ne false = none) ∧
    (learn h false (one.map S) none).elementwise.map some = one.map (fun e => lossTerm e none) ∧
    (learn h false (one.map S) (some (nb.map S))).elementwise.map some =
      List.zipWith (fun e ne => lossTerm e (some ne)) one nb ∧
    (∀ (e : C51Gen.Row Obs) ne per, C51Gen.learn_ret1 e ne per = if per || ne.isSome then some e.idxs else none) ∧
    (∀ per nst, (learn h per (one.map S) nst).idxs =
      if per || nst.isSome then some (one.map fun e => e.idxs) else none) := by
  intro S prio lossTerm
  have key : ∀ nst, (learn h true (one.map S) nst).priorities =
      some ((learn h true (one.map S) nst).elementwise.map (· + h.priorEps)) := by intro nst; simp [learn]
  have hl : (one.map S).length = (nb.map S).length := by simpa using hlen
  obtain ⟨e1, e2⟩ := learn_elementwise_rows h hc.1 true (one.map S) (nb.map S) hl
  obtain ⟨f1, f2⟩ := learn_elementwise_rows h hc.1 false (one.map S) (nb.map S) hl
  have hp : ∀ e ne per, LogOK actorLog h.cfg e → (∀ x, ne = some x → LogOK actorLog h.cfg x) →
      prio e ne per = if per then some (rowLoss h (S e) (ne.map S) + h.priorEps) else none := by
    intro e ne per he hne
    simp only [prio, gen_delta_z0_eq, gen_support0_eq]
    exact gen_learn_ret2_eq actor actorLog actorT h e ne per he hne
  have hl0 : ∀ e ne, LogOK actorLog h.cfg e → (∀ x, ne = some x → LogOK actorLog h.cfg x) →
      lossTerm e ne = some (rowLoss h (S e) (ne.map S)) := by
    intro e ne he hne
    simp only [lossTerm, gen_delta_z0_eq, gen_support0_eq]
    exact gen_learn_ret0_eq actor actorLog actorT h e ne he hne
  refine ⟨?_, ?_, ?_, ?_, ?_, gen_learn_ret1_eq, ?_⟩
  · rw [key, e1]
    simp only [Option.map_some, List.map_map]
    congr 1
    apply List.map_congr_left
    intro e he
    rw [hp e none true (h1 e he) (by intro x hx; cases hx)]
    rfl
  · rw [key, e2]
    simp only [Option.map_some, List.map_zipWith, List.zipWith_map_left, List.zipWith_map_right]
    congr 1
    apply zipWith_congr_mem
    intro e he ne hne
    rw [hp e (some ne) true (h1 e he) (by intro x hx; cases hx; exact hn ne hne)]
    rfl
  · intro e ne
    simp only [prio]
    unfold C51Gen.learn_ret2
    cases ne <;> rfl
  · rw [f1]
    simp only [List.map_map]
    apply List.map_congr_left
    intro e he
    rw [hl0 e none (h1 e he) (by intro x hx; cases hx)]
    rfl
  · rw [f2]
    simp only [List.map_zipWith, List.zipWith_map_left, List.zipWith_map_right]
    apply zipWith_congr_mem
    intro e he ne hne
    rw [hl0 e (some ne) (h1 e he) (by intro x hx; cases hx; exact hn ne hne)]
    rfl
  · intro per nst
    simp only [learn, List.map_map]
    rfl

end nets

/-! non-vacuity of the restated theorems: the generated row function on the examples above, and a row with
    two actions whose shape hypothesis holds -/
example : genProject ex5 (1/2) (1/4) 0 exP = [0, 7/16, 7/16, 11/64, 1/64] := by decide +kernel
example : genProject ex5 (1/2) 1 1 exP = [0, 0, 0, 17/16, 0] ∧ genProject ex5 (1/2) (-7) 1 exP = [17/16, 0, 0, 0, 0] := by
  decide +kernel
def exRow : C51Gen.Row Nat := { obs := 0, action := 1, reward := 1/4, next_obs := 1, done := 0, weights := 1, idxs := 7 }
def exLog : Nat → List (List Rat) := fun _ => [[0, 0, 0, 0, 0], [-1, -2, -3, -4, -5]]
example : LogOK exLog ex5 exRow := by unfold LogOK; decide
/-- online q-values prefer action 1, whose TARGET distribution `exP` is projected; the loss is the dot product
    with the online log-probabilities of the action taken -/
example : C51Gen.dqn_loss (actor := fun _ => [0, 1]) (actor_q_False_log_True := exLog)
    (actor_target_q_False := fun _ => [[1, 0, 0, 0, 0], exP])
    (C51Gen.delta_z0 5 2 (-2)) 5 (C51Gen.support0 5 2 (-2)) 2 (-2) exRow.obs exRow.action exRow.reward
    exRow.next_obs exRow.done (1/2) = 189/64 := by decide +kernel

end source_translation

end C51

/-! ## the source of the distributions: the dueling distributional head

`_dqn_loss` projects `actor_target(next, q=False)[greedy]` and picks `greedy = actor(next).argmax(1)`; both come
from `RainbowQNetwork.forward` → `DuelingDistributionalMLP.forward` (agilerl/networks/q_networks.py,
custom_modules.py), modelled per batch row in `namespace Duel` of `Model/C51.lean` and translated from the source
text by `harness/py2lean_dueling.py` into `Gen/DuelingGen.lean` (`Proofs/DuelingGenEq.lean`: generated = model).
Carrier: any linearly ordered field `K` with an abstract positive `exp` (instances: ℝ with `Real.exp`; ℚ with a
positive table — what the driver runs and what composes with the projection theorems above), ℝ where `log` matters.
All statements hold for every number of actions `A ≥ 1`, atoms `N ≥ 1` and all logits. -/
namespace Duel

section field
variable {K : Type} [Field K] [LinearOrder K] [IsStrictOrderedRing K]

/-- (i) **dueling identity**: the mean over the actions of the logits handed to the soft-max is the value net's
    output, atom by atom (`value + advantage − advantage.mean(1)`) -/
theorem C18_dueling_identity (F : Fn K) (hlit : ∀ n : Nat, F.lit (n : Rat) = (n : K)) (A N : Nat) (hA : 0 < A)
    (value adv : List K) (hv : value.length = N) (ha : adv.length = A * N) :
    colMean F A N (combine F A N value adv) = value :=
  colMean_combine F hlit A N hA value adv hv ha

/-- (ii) before the clamp every action's distribution is a probability vector: `N` positive entries that sum to
    one — for any positive `exp` -/
theorem C18_dueling_softmax_is_probability (F : Fn K) (hexp : ∀ x, 0 < F.exp x) (A N : Nat) (hN : 0 < N)
    (value adv : List K) (hv : value.length = N) (ha : adv.length = A * N) :
    ((combine F A N value adv).map (softmax F)).length = A ∧
    ∀ p ∈ (combine F A N value adv).map (softmax F), p.length = N ∧ (∀ x ∈ p, 0 < x) ∧ p.sum = 1 := by
  refine ⟨by simp [combine_length], ?_⟩
  intro p hp
  obtain ⟨row, hrow, rfl⟩ := List.mem_map.mp hp
  have hl := combine_row_length F A N value adv hv ha row hrow
  have hne : row ≠ [] := by intro e; rw [e] at hl; simp at hl; omega
  exact ⟨by rw [softmax_length, hl], softmax_pos F hexp row, softmax_sum F hexp row hne⟩

/-- (ii) over ℝ with Mathlib's `Real.exp` -/
theorem C18_dueling_softmax_is_probability_real (A N : Nat) (hN : 0 < N) (value adv : List ℝ)
    (hv : value.length = N) (ha : adv.length = A * N) :
    ∀ p ∈ (combine realFn A N value adv).map (softmax realFn),
      p.length = N ∧ (∀ x ∈ p, 0 < x) ∧ p.sum = 1 :=
  (C18_dueling_softmax_is_probability realFn realFn_exp_pos A N hN value adv hv ha).2

/-- (iii) what `forward(q=False)` returns — the soft-max after `.clamp(min=1e-3)`: `A` rows of `N` entries, every
    entry at least `1e-3`, mass in `[1, 1 + N·1e-3]` (NOT a probability vector: mass 1 only if no entry is lifted) -/
theorem C18_dueling_clamped_mass (F : Fn K) (hexp : ∀ x, 0 < F.exp x) (hfl : F.lit floorLit = (1 : K) / 1000)
    (A N : Nat) (hN : 0 < N) (sup value adv : List K) (hv : value.length = N) (ha : adv.length = A * N) :
    forward F A N sup value adv false false = Out.mat (dist F A N value adv) ∧
    (dist F A N value adv).length = A ∧
    ∀ p ∈ dist F A N value adv,
      p.length = N ∧ (∀ x ∈ p, (1 : K) / 1000 ≤ x) ∧ 1 ≤ p.sum ∧ p.sum ≤ 1 + (N : K) * (1 / 1000) :=
  ⟨rfl, dist_rows F hexp hfl A N hN value adv hv ha⟩

end field

/-- (iii) composed with mass conservation: the row `_dqn_loss` projects is a row of `forward(q=False)` of the
    target network, so the projected target has exactly that row's mass, which lies in `[1, 1 + N·1e-3]` -/
theorem C18_dueling_projected_mass (F : Fn Rat) (hexp : ∀ x, 0 < F.exp x) (hfl : F.lit floorLit = 1 / 1000)
    (c : C51.Cfg) (hc : c.Valid) (g r d : Rat) (A : Nat) (value adv : List Rat)
    (hv : value.length = c.N) (ha : adv.length = A * c.N) (a : Nat) (haA : a < A) :
    let p := (dist F A c.N value adv).getD a []
    (C51.projOne c g ⟨r, d, p⟩).sum = p.sum ∧ 1 ≤ p.sum ∧ p.sum ≤ 1 + (c.N : Rat) * (1 / 1000) := by
  intro p
  have hN : 0 < c.N := by have := hc.1; omega
  obtain ⟨hlen, hrows⟩ := dist_rows F hexp hfl A c.N hN value adv hv ha
  have hmem : p ∈ dist F A c.N value adv := by
    have : a < (dist F A c.N value adv).length := by omega
    simp only [p, List.getD_eq_getElem _ _ this]
    exact List.getElem_mem this
  obtain ⟨hpl, _, h1, h2⟩ := hrows p hmem
  exact ⟨C51.mass_projOne c hc.1 g ⟨r, d, p⟩ hpl, h1, h2⟩

section anycarrier
variable {α : Type} [Add α] [Sub α] [Mul α] [Div α] [Zero α] [Max α]

/-- (iv) `forward(q=True)` is, action by action, the expectation `Σ_j dist_j · support_j` of exactly the
    distributions `forward(q=False)` returns for the same input; so its arg-max is the arg-max of those means -/
theorem C18_dueling_q_is_expectation (F : Fn α) (A N : Nat) (sup value adv : List α) :
    ∃ m, forward F A N sup value adv false false = Out.mat m ∧
      forward F A N sup value adv true false = Out.vec (m.map (expect sup)) :=
  ⟨dist F A N value adv, rfl, rfl⟩

/-- (v) with `log=True` the flag `q` is ignored and the result is `log_softmax` of the SAME logits — no clamp -/
theorem C18_dueling_log_is_unclamped (F : Fn α) (A N : Nat) (sup value adv : List α) (q : Bool) :
    forward F A N sup value adv q true = Out.mat ((combine F A N value adv).map (logSoftmax F)) := rfl

end anycarrier

/-- (v) over ℝ: `forward(log=True)` is the entry-wise logarithm of the UNclamped soft-max … -/
theorem C18_dueling_log_real (A N : Nat) (sup value adv : List ℝ) (q : Bool) :
    forward realFn A N sup value adv q true =
      Out.mat ((combine realFn A N value adv).map fun row => (softmax realFn row).map Real.log) := by
  rw [C18_dueling_log_is_unclamped]
  congr 1
  apply List.map_congr_left
  intro row _
  exact logSoftmax_eq_log_softmax row

/-- … so it is NOT the logarithm of `forward(q=False)` wherever the clamp is active: for every row of logits and
    every atom whose soft-max probability is below `1e-3`, `forward(log=True)` is strictly below
    `log(forward(q=False))` -/
theorem C18_dueling_log_below_log_of_clamped (row : List ℝ) (j : Nat) (hj : j < row.length)
    (hlow : (softmax realFn row).getD j 0 < 1 / 1000) :
    (logSoftmax realFn row).getD j 0 <
      Real.log (((softmax realFn row).map fun p => max p (realFn.lit floorLit)).getD j 0) :=
  log_clamped_gt row j hj hlow

/-- witness: one action, two atoms, value logits `[0, 1000]`, advantage `[0, 0]` — the logits are `[0, 1000]`,
    atom 0 has probability `1/(1 + e^1000) < 1e-3`; `log(q=False)` and `log=True` differ there -/
theorem C18_dueling_log_differs_witness :
    ¬ (∀ (A N : Nat) (value adv : List ℝ) (a j : Nat),
        (((combine realFn A N value adv).map (logSoftmax realFn)).getD a []).getD j 0 =
          Real.log (((dist realFn A N value adv).getD a []).getD j 0)) := by
  intro h
  have e := h 1 2 [0, 1000] [0, 0] 0 0
  have hc : combine realFn 1 2 [0, 1000] [0, 0] = [[0, 1000]] := by
    simp [combine, rows, colMean, realFn, List.range_succ]
  have hd : dist realFn 1 2 [0, 1000] [0, 0] =
      [(softmax realFn [0, 1000]).map fun p => max p (realFn.lit floorLit)] := by
    simp only [dist, hc, List.map_cons, List.map_nil]
  rw [hc, hd] at e
  have := C18_dueling_log_below_log_of_clamped [0, 1000] 0 (by simp) witness_low
  simp only [List.map_cons, List.map_nil, List.getD_cons_zero] at e this
  linarith

/-! ### non-vacuity: two actions, two atoms, `exp` tabulated by powers of two -/

def exFn : Fn Rat := { lit := fun q => q, exp := fun x => if x = 0 then 1 else if x = 1 then 2 else 4, log := fun _ => 0 }
example : combine exFn 2 2 [0, 1] [1, 0, -1, 0] = [[1, 1], [-1, 1]] := by decide +kernel
example : colMean exFn 2 2 (combine exFn 2 2 [0, 1] [1, 0, -1, 0]) = [0, 1] := by decide +kernel
example : dist exFn 2 2 [0, 1] [1, 0, -1, 0] = [[1/2, 1/2], [2/3, 1/3]] := by decide +kernel
example : (dist exFn 2 2 [0, 1] [1, 0, -1, 0]).map (expect [-1, 1]) = [0, -1/3] := by decide +kernel
example : ∀ x, 0 < exFn.exp x := by intro x; unfold exFn; simp only; split_ifs <;> norm_num
noncomputable example : ∃ F : Fn ℝ, (∀ x, 0 < F.exp x) ∧ F.lit floorLit = 1 / 1000 ∧ ∀ n : Nat, F.lit (n : Rat) = (n : ℝ) :=
  ⟨realFn, realFn_exp_pos, realFn_floor, realFn_lit_nat⟩

/-! ### the same over the definitions generated from the source text (`Gen/DuelingGen.lean`)

Inputs of the generated definitions: the head's attributes `self_num_actions / self_num_atoms / self_support`, the
outputs of its two sub-networks — pinned BY NAME (`model_out`: the value net, `advantage_net_out`) — and the flags
`q`, `log`; for the network: `extract_features` and the two sub-networks as opaque functions. -/
section source_translation_dueling

/-- every generated definition equals its counterpart in the hand-written model -/
theorem C18_source_translation_dueling_equalities {α : Type} [Add α] [Sub α] [Mul α] [Div α] [Zero α] [Max α]
    {Obs Latent S : Type} (P : DuelingGen.Prims α) (A N : Nat) (sup adv value : List α) (q log : Bool)
    (ef : Obs → Latent) (advNet valNet : Latent → List α) (obs : Obs) (s : S) :
    DuelingGen.softmax_arg P A N sup (advantage_net_out := adv) (model_out := value) = combine (ofPrims P) A N value adv ∧
    DuelingGen.log_softmax_arg P A N sup (advantage_net_out := adv) (model_out := value) = combine (ofPrims P) A N value adv ∧
    ofOut (DuelingGen.forward P A N sup (advantage_net_out := adv) (model_out := value) (q := q) (log := log)) =
      forward (ofPrims P) A N sup value adv q log ∧
    ofOut (DuelingGen.net_forward P A N sup (extract_features := ef) (head_advantage_net := advNet)
        (head_model := valNet) obs (q := q) (log := log)) =
      forward (ofPrims P) A N sup (valNet (ef obs)) (advNet (ef obs)) q log ∧
    (DuelingGen.value_width N A = N ∧ DuelingGen.advantage_width N A = A * N ∧
      DuelingGen.recreate_advantage_width A N = A * N) ∧
    DuelingGen.net_init_attrs N s = (N, s) :=
  ⟨gen_softmax_arg_eq P A N sup adv value, gen_log_softmax_arg_eq P A N sup adv value,
   gen_forward_eq P A N sup adv value q log, gen_net_forward_eq P A N sup ef advNet valNet obs q log,
   gen_widths_eq A N, rfl⟩

/-- **support and num_atoms survive every rebuild, over the generated code**: the head `build_network_head`
    constructs and the head `recreate_network` constructs both get the network's `(num_actions, num_atoms,
    support)`; the advantage net the head's own `recreate_network` rebuilds has the width `__init__` gave it -/
theorem C18_source_translation_dueling_rebuild {S : Type} (A N : Nat) (sup : S) :
    (let c := DuelingGen.net_head_args_build A N sup; DuelingGen.init_attrs c.1 c.2.1 c.2.2) = (A, N, sup) ∧
    (let c := DuelingGen.net_head_args_recreate A N sup; DuelingGen.init_attrs c.1 c.2.1 c.2.2) = (A, N, sup) ∧
    DuelingGen.recreate_advantage_width A N = DuelingGen.advantage_width N A :=
  ⟨(gen_head_attrs_eq A N sup).1, (gen_head_attrs_eq A N sup).2, rfl⟩

section field
variable {K : Type} [Field K] [LinearOrder K] [IsStrictOrderedRing K]

/-- **(i) over the generated code**: the logits handed to `softmax` and to `log_softmax` are the same, and their
    mean over the actions (`meanRows`, the generated `t.mean(1, keepdim=True)`) is the value net's output -/
theorem C18_source_translation_dueling_identity (P : DuelingGen.Prims K) (hlit : ∀ n : Nat, P.lit (n : Rat) = (n : K))
    (A N : Nat) (hA : 0 < A) (sup value adv : List K) (hv : value.length = N) (ha : adv.length = A * N) :
    DuelingGen.log_softmax_arg P A N sup (advantage_net_out := adv) (model_out := value) =
      DuelingGen.softmax_arg P A N sup (advantage_net_out := adv) (model_out := value) ∧
    DuelingGen.meanRows P A N (DuelingGen.softmax_arg P A N sup (advantage_net_out := adv) (model_out := value)) =
      [value] := by
  rw [gen_log_softmax_arg_eq, gen_softmax_arg_eq, gen_meanRows_eq]
  exact ⟨rfl, by rw [colMean_combine (ofPrims P) hlit A N hA value adv hv ha]⟩

/-- **(ii) + (iii) over the generated code**: `forward(q=False, log=False)` returns a matrix `m` of `A` rows; row
    `a` is the soft-max of row `a` of the generated logits — `N` positive entries summing to one — clamped from
    below entry by entry: every entry `≥ 1e-3`, mass in `[1, 1 + N·1e-3]` -/
theorem C18_source_translation_dueling_clamped_mass (P : DuelingGen.Prims K) (hexp : ∀ x, 0 < P.exp x)
    (hfl : P.lit (1 / 1000) = (1 : K) / 1000) (A N : Nat) (hN : 0 < N) (sup value adv : List K)
    (hv : value.length = N) (ha : adv.length = A * N) :
    ∃ m, DuelingGen.forward P A N sup (advantage_net_out := adv) (model_out := value) (q := false) (log := false)
          = DuelingGen.Out.mat m ∧
      m.length = A ∧
      m = (DuelingGen.softmax_arg P A N sup (advantage_net_out := adv) (model_out := value)).map
            (fun row => (DuelingGen.softmaxRow P row).map fun p => max p (1 / 1000)) ∧
      (∀ row ∈ DuelingGen.softmax_arg P A N sup (advantage_net_out := adv) (model_out := value),
        (DuelingGen.softmaxRow P row).length = N ∧ (∀ x ∈ DuelingGen.softmaxRow P row, 0 < x) ∧
        (DuelingGen.softmaxRow P row).sum = 1) ∧
      ∀ p ∈ m, p.length = N ∧ (∀ x ∈ p, (1 : K) / 1000 ≤ x) ∧ 1 ≤ p.sum ∧ p.sum ≤ 1 + (N : K) * (1 / 1000) := by
  have hfl' : (ofPrims P).lit floorLit = (1 : K) / 1000 := by simpa [ofPrims, floorLit] using hfl
  have e := gen_forward_eq P A N sup adv value false false
  obtain ⟨hlen, hrows⟩ := dist_rows (ofPrims P) hexp hfl' A N hN value adv hv ha
  have hprob := C18_dueling_softmax_is_probability (ofPrims P) hexp A N hN value adv hv ha
  refine ⟨dist (ofPrims P) A N value adv, ?_, hlen, ?_, ?_, hrows⟩
  · cases hf : DuelingGen.forward P A N sup (advantage_net_out := adv) (model_out := value) (q := false) (log := false) with
    | vec v => rw [hf] at e; simp [ofOut, forward] at e
    | mat m => rw [hf] at e; simp only [ofOut, forward] at e; simp at e; rw [e]
  · rw [gen_softmax_arg_eq]
    unfold dist
    apply List.map_congr_left
    intro row _
    rw [gen_softmaxRow_eq, hfl']
  · intro row hrow
    rw [gen_softmax_arg_eq] at hrow
    rw [gen_softmaxRow_eq]
    exact hprob.2 _ (List.mem_map.mpr ⟨row, hrow, rfl⟩)

end field

/-- the rows / the vector inside what the generated `forward` returns -/
def matOf {α : Type} : DuelingGen.Out α → List (List α)
  | .mat m => m
  | .vec _ => []
def vecOf {α : Type} : DuelingGen.Out α → List α
  | .vec v => v
  | .mat _ => []

/-- **(iii) composed with the projection, over both generated files**: the row that the generated `_dqn_loss`
    projects when the target network is a `RainbowQNetwork` (`actor_target(next, q=False)[a]`, computed by the
    generated `net_forward`) has mass in `[1, 1 + N·1e-3]`, and the generated projection has exactly that mass -/
theorem C18_source_translation_dueling_projected_mass {Obs Latent : Type} (P : DuelingGen.Prims Rat)
    (hexp : ∀ x, 0 < P.exp x) (hfl : P.lit (1 / 1000) = 1 / 1000) (c : C51.Cfg) (hc : c.Valid) (g r d : Rat) (A : Nat)
    (ef : Obs → Latent) (advNet valNet : Latent → List Rat) (next_obs : Obs)
    (hv : (valNet (ef next_obs)).length = DuelingGen.value_width c.N A)
    (ha : (advNet (ef next_obs)).length = DuelingGen.advantage_width c.N A) (a : Nat) (haA : a < A) :
    let p := (matOf (DuelingGen.net_forward P A c.N (C51Gen.support0 c.N c.vmax c.vmin) (extract_features := ef)
        (head_advantage_net := advNet) (head_model := valNet) next_obs (q := false) (log := false))).getD a []
    (C51.genProject c g r d p).sum = p.sum ∧ 1 ≤ p.sum ∧ p.sum ≤ 1 + (c.N : Rat) * (1 / 1000) := by
  intro p
  have hfl' : (ofPrims P).lit floorLit = (1 : Rat) / 1000 := by simpa [ofPrims, floorLit] using hfl
  have e := gen_net_forward_eq P A c.N (C51Gen.support0 c.N c.vmax c.vmin) ef advNet valNet next_obs false false
  have hp : p = (dist (ofPrims P) A c.N (valNet (ef next_obs)) (advNet (ef next_obs))).getD a [] := by
    simp only [p]
    cases hf : DuelingGen.net_forward P A c.N (C51Gen.support0 c.N c.vmax c.vmin) (extract_features := ef)
        (head_advantage_net := advNet) (head_model := valNet) next_obs (q := false) (log := false) with
    | vec v => rw [hf] at e; simp [ofOut, forward] at e
    | mat m => rw [hf] at e; simp only [ofOut, forward] at e; simp at e; simp [matOf, e]
  rw [hp, C51.genProject_eq]
  exact C18_dueling_projected_mass (ofPrims P) hexp hfl' c hc g r d A _ _ hv ha a haA

section anycarrier
variable {α : Type} [Add α] [Sub α] [Mul α] [Div α] [Zero α] [Max α]

/-- **(iv) over the generated code**: `forward(q=True)` is `Σ_j dist_j · support_j` of the rows `forward(q=False)`
    returns for the same sub-network outputs (whatever `exp` is) -/
theorem C18_source_translation_dueling_q_is_expectation (P : DuelingGen.Prims α) (A N : Nat) (sup value adv : List α) :
    vecOf (DuelingGen.forward P A N sup (advantage_net_out := adv) (model_out := value) (q := true) (log := false)) =
      (matOf (DuelingGen.forward P A N sup (advantage_net_out := adv) (model_out := value) (q := false) (log := false))).map
        fun p => (List.zipWith (· * ·) p sup).sum := by
  have e1 := gen_forward_eq P A N sup adv value true false
  have e2 := gen_forward_eq P A N sup adv value false false
  cases h1 : DuelingGen.forward P A N sup (advantage_net_out := adv) (model_out := value) (q := true) (log := false) with
  | mat m => rw [h1] at e1; simp [ofOut, forward] at e1
  | vec v =>
    cases h2 : DuelingGen.forward P A N sup (advantage_net_out := adv) (model_out := value) (q := false) (log := false) with
    | vec v' => rw [h2] at e2; simp [ofOut, forward] at e2
    | mat m =>
      rw [h1] at e1; rw [h2] at e2
      simp only [ofOut, forward] at e1 e2
      simp at e1 e2
      simp only [vecOf, matOf, e1, e2]
      rfl

/-- **(v) over the generated code**: with `log=True` the flag `q` is ignored and the result is `log_softmax`, row by
    row, of the same logits the soft-max gets — no clamp -/
theorem C18_source_translation_dueling_log (P : DuelingGen.Prims α) (A N : Nat) (sup value adv : List α) (q : Bool) :
    DuelingGen.forward P A N sup (advantage_net_out := adv) (model_out := value) (q := q) (log := true) =
      DuelingGen.Out.mat ((DuelingGen.softmax_arg P A N sup (advantage_net_out := adv) (model_out := value)).map
        (DuelingGen.logSoftmaxRow P)) := by
  cases q <;> rfl

end anycarrier

/-- **the greedy target, over both generated files**: when online and target network are `RainbowQNetwork`s, the
    distribution the generated `_dqn_loss` projects is row `a*` of the TARGET network's `forward(q=False)` where
    `a*` is the first arg-max of the expectations `Σ_j dist_j · support_j` of the ONLINE network's own
    `forward(q=False)` rows for the next observation -/
theorem C18_source_translation_dueling_greedy_target {Obs Latent : Type} (P : DuelingGen.Prims Rat) (A N : Nat)
    (sup : List Rat) (ef efT : Obs → Latent) (advNet valNet advNetT valNetT : Latent → List Rat) (next_obs : Obs) :
    let online := fun (q : Bool) (o : Obs) => DuelingGen.net_forward P A N sup (extract_features := ef)
        (head_advantage_net := advNet) (head_model := valNet) o (q := q) (log := false)
    let target := fun (o : Obs) => DuelingGen.net_forward P A N sup (extract_features := efT)
        (head_advantage_net := advNetT) (head_model := valNetT) o (q := false) (log := false)
    C51Gen.target_dist (actor := fun o => vecOf (online true o)) (actor_target_q_False := fun o => matOf (target o))
        next_obs =
      (matOf (target next_obs)).getD
        (C51.argmaxFirst ((matOf (online false next_obs)).map fun p => (List.zipWith (· * ·) p sup).sum)) [] := by
  intro online target
  unfold C51Gen.target_dist
  rw [C51.gen_argmaxFirst_eq]
  have := C18_source_translation_dueling_q_is_expectation P A N sup (valNet (ef next_obs)) (advNet (ef next_obs))
  simp only [online]
  exact congrArg (fun v => (matOf (target next_obs)).getD (C51.argmaxFirst v) []) this

/-- **(v) over ℝ, over the generated code**: with Mathlib's `exp` / `log` the rows `forward(log=True)` returns are the
    logarithms of the UNclamped soft-max rows; they are strictly below the logarithm of what `forward(q=False)`
    returns wherever the soft-max is below `1e-3` -/
theorem C18_source_translation_dueling_log_real (P : DuelingGen.Prims ℝ) (hexp : P.exp = Real.exp)
    (hlog : P.log = Real.log) (row : List ℝ) :
    DuelingGen.logSoftmaxRow P row = (DuelingGen.softmaxRow P row).map Real.log ∧
    ∀ j, j < row.length → (DuelingGen.softmaxRow P row).getD j 0 < 1 / 1000 →
      (DuelingGen.logSoftmaxRow P row).getD j 0 <
        Real.log (((DuelingGen.softmaxRow P row).map fun p => max p (1 / 1000)).getD j 0) := by
  have hF : ∀ r, softmax (ofPrims P) r = softmax realFn r := by
    intro r; simp [softmax, ofPrims, realFn, hexp]
  have hL : ∀ r, logSoftmax (ofPrims P) r = logSoftmax realFn r := by
    intro r; simp [logSoftmax, ofPrims, realFn, hexp, hlog]
  rw [gen_softmaxRow_eq, gen_logSoftmaxRow_eq, hF, hL]
  refine ⟨logSoftmax_eq_log_softmax row, ?_⟩
  intro j hj hlow
  have := log_clamped_gt row j hj hlow
  rw [realFn_floor] at this
  exact this

end source_translation_dueling

end Duel

/-! ## Batch level of `RainbowDQN.learn` (importance weights, mean, priorities, shapes)

Model: `elemLoss / scalarLoss / newPriorities / retIdxs / columnLoss` at the end of `Model/C51.lean`.  Source translation:
`harness/py2lean_c51batch.py` executes `learn` abstractly over tensors with SHAPES (symbolic `B`, torch broadcasting)
and values, on all eight paths of (`per`, `n_experiences is not None`, `combined_reward`) →
`Gen/C51BatchGen.lean`; `Proofs/C51BatchGenEq.lean` proves generated = model for every batch, every per-row loss
function and every weight column, and the shapes `(B,)` for every `B`. -/
namespace C51
open Finset

section batch

/-- **(i) the scalar loss is the batch mean of the importance-weighted per-row losses**: with `B` element-wise
    losses and `B` weights (both `(B,)`), under PER `loss = (1/B) Σ_i w_i · ℓ_i` — row `i`'s loss meets row `i`'s
    weight and no other —, without PER `loss = (1/B) Σ_i ℓ_i`; for every `B` and every loss / weight vector -/
theorem C18_batch_loss_is_weighted_mean (el w : List Rat) (B : Nat) (hel : el.length = B) (hw : w.length = B) :
    scalarLoss true el w = (∑ i ∈ range B, w.getD i 0 * el.getD i 0) / (B : Rat) ∧
    scalarLoss false el w = (∑ i ∈ range B, el.getD i 0) / (B : Rat) := by
  constructor
  · have h := dot_eq_sum el w B hel hw
    unfold dot at h
    simp only [scalarLoss, mean, if_true]
    rw [h]
    have : (List.zipWith (· * ·) el w).length = B := by simp [hel, hw]
    rw [this]
    congr 1
    apply Finset.sum_congr rfl
    intro i _
    ring
  · have h := sum_getD el
    rw [hel] at h
    simp only [scalarLoss, mean, Bool.false_eq_true, if_false, hel]
    rw [h]

/-- what a `(B, 1)` weight column would do instead (`columnLoss`: the `(B, B)` outer product, mean over `B²`
    entries = `(1/B²)(Σ ℓ)(Σ w)`): on a two-row batch it differs from the weighted mean — the sample with weight 0
    is not ignored, the sample with loss 0 is not either -/
theorem C18_batch_column_weights_witness :
    columnLoss [1, 0] [1, 0] = 1 / 4 ∧ scalarLoss true [1, 0] [1, 0] = 1 / 2 ∧
    columnLoss [1, 0] [0, 1] = 1 / 4 ∧ scalarLoss true [1, 0] [0, 1] = 0 := by decide +kernel

/-- **(ii) the priorities are `ℓ_i + prior_eps`, in the order of the batch**, one per row, hence in the order of
    the returned indices; strictly positive whenever `prior_eps > 0` and every `ℓ_i ≥ 0` -/
theorem C18_batch_priorities (eps : Rat) (el : List Rat) (idx : List Nat) (ns : Bool) (hlen : idx.length = el.length) :
    ∃ pr, newPriorities true eps el = some pr ∧ retIdxs true ns idx = some idx ∧ pr.length = idx.length ∧
      (∀ i, i < el.length → pr.getD i 0 = el.getD i 0 + eps) ∧
      (0 < eps → (∀ x ∈ el, 0 ≤ x) → ∀ p ∈ pr, 0 < p) ∧
      newPriorities false eps el = none := by
  refine ⟨el.map (· + eps), by simp [newPriorities], by simp [retIdxs], by simp [hlen], ?_, ?_, by simp [newPriorities]⟩
  · intro i hi
    rw [List.getD_eq_getElem _ _ (by simpa using hi), List.getD_eq_getElem _ _ hi]
    simp
  · intro he hx p hp
    obtain ⟨x, hxm, rfl⟩ := List.mem_map.mp hp
    have := hx x hxm
    linarith

theorem dot_nonpos : ∀ (a b : List Rat), (∀ x ∈ a, 0 ≤ x) → (∀ y ∈ b, y ≤ 0) → dot a b ≤ 0
  | [], _, _, _ => by simp [dot]
  | _ :: _, [], _, _ => by simp [dot]
  | x :: xs, y :: ys, ha, hb => by
    have ih := dot_nonpos xs ys (fun z hz => ha z (List.mem_cons_of_mem _ hz)) (fun z hz => hb z (List.mem_cons_of_mem _ hz))
    unfold dot at ih ⊢
    simp only [List.zipWith_cons_cons, List.sum_cons]
    have h1 := ha x (List.mem_cons_self)
    have h2 := hb y (List.mem_cons_self)
    nlinarith [mul_nonneg h1 (neg_nonneg.mpr h2)]

theorem tri_nonneg (t : Rat) : 0 ≤ tri t := by unfold tri; exact le_max_left _ _

/-- every atom of a projected row is non-negative when the source distribution is -/
theorem projOne_nonneg (c : Cfg) (hc : c.Valid) (g : Rat) (row : Row) (hp : ∀ x ∈ row.p, 0 ≤ x) :
    ∀ x ∈ projOne c g row, 0 ≤ x := by
  intro x hx
  obtain ⟨k, hk, rfl⟩ := List.getElem_of_mem hx
  have hk' : k < c.N := by simpa [length_projOne] using hk
  have := getD_projOne_tri c hc.1 g row k hk'
  rw [List.getD_eq_getElem _ _ hk] at this
  rw [this]
  apply Finset.sum_nonneg
  intro j _
  apply mul_nonneg _ (tri_nonneg _)
  by_cases hj : j < row.p.length
  · rw [List.getD_eq_getElem _ _ hj]; exact hp _ (List.getElem_mem hj)
  · rw [List.getD_eq_default _ _ (by omega)]

/-- **the per-row loss is non-negative**: the cross-entropy of a projection of a non-negative target distribution
    against log-probabilities `≤ 0` (i.e. online probabilities `≤ 1`, which the soft-max of the dueling head gives:
    `C18_dueling_softmax_is_probability`) is `≥ 0` — for every reward, done flag, discount and support -/
theorem C18_cross_entropy_nonneg (c : Cfg) (hc : c.Valid) (g : Rat) (s : Sample)
    (hp : ∀ x ∈ s.row.p, 0 ≤ x) (hlog : ∀ y ∈ s.logpA, y ≤ 0) : 0 ≤ crossEntropy c g s := by
  unfold crossEntropy
  have := dot_nonpos _ _ (projOne_nonneg c hc g s.row hp) hlog
  linarith

/-- **(iii) how the two batches combine**: 1-step alone → `ℓ(one_i, γ)`; n-step without `combined_reward` →
    `ℓ(nb_i, γⁿ)`; with `combined_reward` → the SUM of the two losses of the SAME row `i` -/
theorem C18_batch_elementwise {R : Type} (ℓ : R → Rat → Rat) (comb : Bool) (g : Rat) (n : Nat) (one nb : List R) :
    elemLoss ℓ comb g n one none = one.map (ℓ · g) ∧
    elemLoss ℓ false g n one (some nb) = nb.map (ℓ · (g ^ n)) ∧
    elemLoss ℓ true g n one (some nb) = List.zipWith (fun e ne => ℓ e g + ℓ ne (g ^ n)) one nb := by
  refine ⟨rfl, by simp [elemLoss], ?_⟩
  simp only [elemLoss, if_true]
  rw [List.zipWith_map_left, List.zipWith_map_right]

theorem zipWith_add_nonneg : ∀ (a b : List Rat), (∀ x ∈ a, 0 ≤ x) → (∀ y ∈ b, 0 ≤ y) →
    ∀ z ∈ List.zipWith (· + ·) a b, 0 ≤ z
  | [], _, _, _ => by simp
  | _ :: _, [], _, _ => by simp
  | x :: xs, y :: ys, ha, hb => by
    intro z hz
    simp only [List.zipWith_cons_cons, List.mem_cons] at hz
    rcases hz with rfl | hz
    · exact add_nonneg (ha x List.mem_cons_self) (hb y List.mem_cons_self)
    · exact zipWith_add_nonneg xs ys (fun z hz => ha z (List.mem_cons_of_mem _ hz))
        (fun z hz => hb z (List.mem_cons_of_mem _ hz)) z hz

/-- the element-wise loss of the batch is non-negative when every per-row loss is -/
theorem elemLoss_nonneg {R : Type} (ℓ : R → Rat → Rat) (comb : Bool) (g : Rat) (n : Nat) (one : List R)
    (nst : Option (List R)) (h1 : ∀ r ∈ one, 0 ≤ ℓ r g) (hn : ∀ nb, nst = some nb → ∀ r ∈ nb, 0 ≤ ℓ r (g ^ n)) :
    ∀ x ∈ elemLoss ℓ comb g n one nst, 0 ≤ x := by
  have m1 : ∀ x ∈ one.map (ℓ · g), 0 ≤ x := by
    intro x hx; obtain ⟨r, hr, rfl⟩ := List.mem_map.mp hx; exact h1 r hr
  cases nst with
  | none => exact m1
  | some nb =>
    have m2 : ∀ x ∈ nb.map (ℓ · (g ^ n)), 0 ≤ x := by
      intro x hx; obtain ⟨r, hr, rfl⟩ := List.mem_map.mp hx; exact hn nb rfl r hr
    cases comb
    · simpa [elemLoss] using m2
    · simp only [elemLoss, if_true]; exact zipWith_add_nonneg _ _ m1 m2

theorem elemLoss_length {R : Type} (ℓ : R → Rat → Rat) (comb : Bool) (g : Rat) (n : Nat) (one : List R)
    (nst : Option (List R)) (hlen : ∀ nb, nst = some nb → nb.length = one.length) :
    (elemLoss ℓ comb g n one nst).length = one.length := by
  cases nst with
  | none => simp [elemLoss]
  | some nb => cases comb <;> simp [elemLoss, hlen nb rfl]

end batch

/-! ### the batch level over the generated code (`Gen/C51BatchGen.lean`, `harness/py2lean_c51batch.py`) composed with
    the generated per-row loss (`C51Gen.dqn_loss`, `harness/py2lean_c51.py`) -/
section batch_nets
variable {Obs : Type} (actor : Obs → List Rat) (actorLog actorT : Obs → List (List Rat))

/-- the generated `_dqn_loss` of one row, as the `loss` parameter of the generated batch code -/
def genRowLoss (c : Cfg) : Obs → Nat → Rat → Obs → Rat → Rat → Rat := fun o a r no d g =>
  C51Gen.dqn_loss (actor := actor) (actor_q_False_log_True := actorLog) (actor_target_q_False := actorT)
    (C51Gen.delta_z0 c.N c.vmax c.vmin) c.N (C51Gen.support0 c.N c.vmax c.vmin) c.vmax c.vmin o a r no d g

/-- a row of the batch-level translation as a row of the per-row translation (same fields) -/
def toGenRow (r : BRow Obs) : C51Gen.Row Obs :=
  { obs := r.obs, action := r.action, reward := r.reward, next_obs := r.next_obs, done := r.done,
    weights := r.weights, idxs := r.idxs }

/-- the model's cross-entropy of row `r` alone -/
def ceRow (c : Cfg) (r : BRow Obs) (g : Rat) : Rat :=
  crossEntropy c g (sampleOf actor actorLog actorT (toGenRow r))

theorem rowFn_gen_eq (c : Cfg) (r : BRow Obs) (g : Rat) (hlog : LogOK actorLog c (toGenRow r)) :
    rowFn (genRowLoss actor actorLog actorT c) r g = ceRow actor actorLog actorT c r g :=
  (C18_source_translation_loss_is_cross_entropy actor actorLog actorT c g (toGenRow r) hlog).1

theorem elemLoss_gen_eq (c : Cfg) (comb : Bool) (g : Rat) (n : Nat) (one : List (BRow Obs))
    (nst : Option (List (BRow Obs))) (h1 : ∀ e ∈ one, LogOK actorLog c (toGenRow e))
    (hn : ∀ nb, nst = some nb → ∀ e ∈ nb, LogOK actorLog c (toGenRow e)) :
    elemLoss (rowFn (genRowLoss actor actorLog actorT c)) comb g n one nst
      = elemLoss (ceRow actor actorLog actorT c) comb g n one nst := by
  have m1 : one.map (rowFn (genRowLoss actor actorLog actorT c) · g) = one.map (ceRow actor actorLog actorT c · g) :=
    List.map_congr_left fun e he => rowFn_gen_eq actor actorLog actorT c e g (h1 e he)
  cases nst with
  | none => simp only [elemLoss]; exact m1
  | some nb =>
    have m2 : nb.map (rowFn (genRowLoss actor actorLog actorT c) · (g ^ n))
        = nb.map (ceRow actor actorLog actorT c · (g ^ n)) :=
      List.map_congr_left fun e he => rowFn_gen_eq actor actorLog actorT c e (g ^ n) (hn nb rfl e he)
    simp only [elemLoss, m1, m2]

/-- **(i) over the generated code: the scalar loss `learn` returns.**  For every batch size `B`, every batch and
    every weight column: with `ℓ_i` the element-wise loss of row `i` — the cross-entropy of row `i` ALONE
    (`C18_source_translation_loss_is_cross_entropy`), with `γ`, with `γ ^ n_step` on the n-step row `i`, or their sum
    (`C18_batch_elementwise`) — the generated `learn` returns `(1/B) Σ_i w_i · ℓ_i` under PER (`w_i` the importance
    weight of the SAME row) and `(1/B) Σ_i ℓ_i` without -/
theorem C18_source_translation_batch_loss (h : Hyper) (B : Nat) (one : List (BRow Obs))
    (nst : Option (List (BRow Obs))) (per : Bool) (hB : one.length = B)
    (hlen : ∀ nb, nst = some nb → nb.length = one.length)
    (h1 : ∀ e ∈ one, LogOK actorLog h.cfg (toGenRow e))
    (hn : ∀ nb, nst = some nb → ∀ e ∈ nb, LogOK actorLog h.cfg (toGenRow e)) :
    let el := elemLoss (ceRow actor actorLog actorT h.cfg) h.combined h.gamma h.nStep one nst
    C51BatchGen.learn_ret0 (genRowLoss actor actorLog actorT h.cfg) h.combined h.gamma h.nStep h.priorEps one nst per
      = (if per then (∑ i ∈ range B, (one.map (·.weights)).getD i 0 * el.getD i 0) / (B : Rat)
         else (∑ i ∈ range B, el.getD i 0) / (B : Rat)) ∧ el.length = B := by
  intro el
  have hel : el.length = B := by rw [← hB]; exact elemLoss_length _ _ _ _ _ _ hlen
  refine ⟨?_, hel⟩
  rw [gen_learn_ret0_batch_eq, elemLoss_gen_eq actor actorLog actorT h.cfg _ _ _ one nst h1 hn]
  obtain ⟨a, b⟩ := C18_batch_loss_is_weighted_mean el (one.map (·.weights)) B hel (by simpa using hB)
  cases per
  · simpa using b
  · simpa using a

/-- **(ii) over the generated code: what goes back to the prioritised buffer.**  Under PER the generated `learn`
    returns the 1-step batch's indices and, in the same row order and with the same length, `ℓ_i + prior_eps`;
    they are strictly positive when `prior_eps > 0`, the target distributions are non-negative and the online
    log-probabilities are `≤ 0` — the precondition `priority > 0` of `update_priorities` (C11); without PER no
    priorities are returned -/
theorem C18_source_translation_batch_priorities (h : Hyper) (hc : h.cfg.Valid) (one : List (BRow Obs))
    (nst : Option (List (BRow Obs))) (hlen : ∀ nb, nst = some nb → nb.length = one.length)
    (h1 : ∀ e ∈ one, LogOK actorLog h.cfg (toGenRow e))
    (hn : ∀ nb, nst = some nb → ∀ e ∈ nb, LogOK actorLog h.cfg (toGenRow e)) :
    let el := elemLoss (ceRow actor actorLog actorT h.cfg) h.combined h.gamma h.nStep one nst
    let gen2 := C51BatchGen.learn_ret2 (genRowLoss actor actorLog actorT h.cfg) h.combined h.gamma h.nStep h.priorEps
    let gen1 := C51BatchGen.learn_ret1 (genRowLoss actor actorLog actorT h.cfg) h.combined h.gamma h.nStep h.priorEps
    gen2 one nst true = some (el.map (· + h.priorEps)) ∧
    gen1 one nst true = some (one.map (·.idxs)) ∧
    (el.map (· + h.priorEps)).length = (one.map (·.idxs)).length ∧
    gen2 one nst false = none ∧
    gen1 one nst false = (if nst.isSome then some (one.map (·.idxs)) else none) ∧
    (0 < h.priorEps →
      (∀ e, (e ∈ one ∨ ∃ nb, nst = some nb ∧ e ∈ nb) →
        (∀ x ∈ (sampleOf actor actorLog actorT (toGenRow e)).row.p, 0 ≤ x) ∧
        (∀ y ∈ (sampleOf actor actorLog actorT (toGenRow e)).logpA, y ≤ 0)) →
      ∀ p ∈ el.map (· + h.priorEps), 0 < p) := by
  intro el gen2 gen1
  have e2 : ∀ per, gen2 one nst per = newPriorities per h.priorEps el := by
    intro per
    simp only [gen2, el]
    rw [gen_learn_ret2_batch_eq, elemLoss_gen_eq actor actorLog actorT h.cfg _ _ _ one nst h1 hn]
  have e1 : ∀ per, gen1 one nst per = retIdxs per nst.isSome (one.map (·.idxs)) := by
    intro per; simp only [gen1]; rw [gen_learn_ret1_batch_eq]
  refine ⟨by rw [e2]; rfl, by rw [e1]; rfl, ?_, by rw [e2]; rfl, by rw [e1]; simp [retIdxs], ?_⟩
  · simp only [List.length_map, el]
    exact elemLoss_length _ _ _ _ _ _ hlen
  · intro he hrows p hp
    obtain ⟨x, hx, rfl⟩ := List.mem_map.mp hp
    have := elemLoss_nonneg (ceRow actor actorLog actorT h.cfg) h.combined h.gamma h.nStep one nst
      (fun r hr => C18_cross_entropy_nonneg h.cfg hc _ _ (hrows r (Or.inl hr)).1 (hrows r (Or.inl hr)).2)
      (fun nb hnb r hr => C18_cross_entropy_nonneg h.cfg hc _ _ (hrows r (Or.inr ⟨nb, hnb, hr⟩)).1
        (hrows r (Or.inr ⟨nb, hnb, hr⟩)).2) x hx
    show 0 < x + h.priorEps
    linarith

/-- **shapes, over the generated code, for every batch size `B`**: on every path the tensor whose mean is the
    returned loss has shape `(B,)` — `(B,)` losses times the `(B, 1)` weights flattened to `(B,)`; no `(B, B)`
    broadcast —, the priorities are `(B,)` like the indices; and what the un-flattened `(B, 1)` column would give:
    shape `(B, B)`, and on a two-row batch a different value (the generated broadcast `bzip`, decided) -/
theorem C18_source_translation_batch_shapes (B : Nat) (per ns comb : Bool) :
    C51BatchGen.mean_arg_shape B per ns comb = some [B] ∧
    C51BatchGen.ret2_shape B per ns comb = (if per then some [B] else none) ∧
    C51BatchGen.ret1_shape B per ns comb = (if per || ns then some [B] else none) ∧
    C51BatchGen.bcast (some [B]) (some [B, 1]) = some [B, B] ∧
    C51BatchGen.mean (C51BatchGen.bzip (fun x y => x * y) (some [2]) [1, 0] (some [2, 1]) [1, 0]) = 1 / 4 ∧
    C51BatchGen.mean (List.zipWith (fun x y => x * y) [1, 0] [1, 0]) = 1 / 2 :=
  ⟨gen_mean_arg_shape_eq B per ns comb, gen_ret2_shape_eq B per ns comb, gen_ret1_shape_eq B per ns comb,
   bcast_vec_col B, by decide +kernel, by decide +kernel⟩

/-- non-vacuity: a two-row PER batch with a constant per-row loss function -/
example : C51BatchGen.learn_ret0 (Obs := Unit) (fun _ _ r _ _ g => r * g) true (1/2) 2 (1/8)
    [⟨(), 0, 4, (), 0, 1, 7⟩, ⟨(), 0, 8, (), 0, 1/2, 3⟩] (some [⟨(), 0, 4, (), 0, 1, 7⟩, ⟨(), 0, 8, (), 0, 1/2, 3⟩]) true
      = (1 * (2 + 1) + 1/2 * (4 + 2)) / 2 := by decide +kernel
example : C51BatchGen.learn_ret2 (Obs := Unit) (fun _ _ r _ _ g => r * g) false (1/2) 2 (1/8)
    [⟨(), 0, 4, (), 0, 1, 7⟩, ⟨(), 0, 8, (), 0, 1/2, 3⟩] none true = some [2 + 1/8, 4 + 1/8] := by decide +kernel

end batch_nets
end C51

namespace Duel

/-- **the hypothesis `log p ≤ 0` of `C18_cross_entropy_nonneg` / `C18_source_translation_batch_priorities` is what
    the dueling head delivers**: over ℝ every entry of `forward(log=True)` (`log_softmax` of a row of logits, =
    the logarithm of a soft-max probability, `C18_dueling_log_real`) is `≤ 0`, because every soft-max entry is
    positive and at most the row sum `1` (`C18_dueling_softmax_is_probability`) -/
theorem C18_dueling_log_nonpos (row : List ℝ) : ∀ y ∈ logSoftmax realFn row, y ≤ 0 := by
  intro y hy
  rw [logSoftmax_eq_log_softmax] at hy
  obtain ⟨p, hp, rfl⟩ := List.mem_map.mp hy
  have hne : row ≠ [] := by
    intro e; rw [e] at hp; simp [softmax] at hp
  have hpos := softmax_pos realFn realFn_exp_pos row
  have hle : p ≤ (softmax realFn row).sum := List.single_le_sum (fun x hx => (hpos x hx).le) p hp
  rw [softmax_sum realFn realFn_exp_pos row hne] at hle
  exact Real.log_nonpos (hpos p hp).le hle

end Duel
