import Proofs.C51Sums

/-!
# C18 — Rainbow's distributional target conserves probability mass and expected value

Model: `Model/C51.lean` — `_dqn_loss` of `agilerl/algorithms/dqn_rainbow.py` over exact rationals:
support `z_j = v_min + jΔ`, `t_z = clamp(r + (1-d)·γ·z_j)`, `b = clamp((t_z - v_min)/Δ, 0, N-1)`,
`l = ⌊b⌋`, `u = ⌈b⌉`, the two sequential fix-ups, the two `index_add_` calls on the flattened
`B·N` buffer with offsets `bi·N`, the element-wise loss `-(proj · log p).sum(1)` with opaque
log-probabilities, and the way `learn` combines the 1-step / n-step losses into priorities.

Every theorem holds for **all** `N ≥ 2`, all `v_min < v_max`, all rational rewards, done flags
(not only 0/1), discounts, batches and source vectors `p` — in particular `p` is *not* assumed to
sum to one (the real target distribution is a soft-max clamped from below, so it does not).
-/
namespace C51

/-- the floor/ceil neighbours after the two sequential fix-ups: adjacent, inside the support,
    and bracketing `b` (so both interpolation weights `u - b`, `b - l` are non-negative) —
    for every position `b ∈ [0, N-1]`, integral (`b` exactly on an atom, including `0` and `N-1`)
    or not -/
theorem C18_ul_adjacent (N : Nat) (hN : 2 ≤ N) (b : Rat) (h0 : 0 ≤ b) (h1 : b ≤ (N : Rat) - 1) :
    (lowUp N b).2 - (lowUp N b).1 = 1 ∧ 0 ≤ (lowUp N b).1 ∧ (lowUp N b).2 ≤ (N : Int) - 1 ∧
    ((lowUp N b).1 : Rat) ≤ b ∧ b ≤ ((lowUp N b).2 : Rat) := by
  obtain ⟨a, b', c⟩ := lowUp_adjacent N hN b h0 h1
  obtain ⟨d, e⟩ := lowUp_brackets N hN b h0
  exact ⟨a, b', c, d, e⟩

/-- … and the `b` that `_dqn_loss` computes is such a position for every reward, done flag,
    discount and atom; the clamp on `b` (repair of the float32 overflow) is the identity over ℚ -/
theorem C18_ul_adjacent_in_loss (c : Cfg) (hc : c.Valid) (r d g : Rat) (j : Nat) :
    bpos c r d g j = (tz c r d g j - c.vmin) / c.delta ∧
    0 ≤ bpos c r d g j ∧ bpos c r d g j ≤ (c.N : Rat) - 1 ∧
    (lowUp c.N (bpos c r d g j)).2 - (lowUp c.N (bpos c r d g j)).1 = 1 ∧
    0 ≤ (lowUp c.N (bpos c r d g j)).1 ∧ (lowUp c.N (bpos c r d g j)).2 ≤ (c.N : Int) - 1 := by
  obtain ⟨b0, b1⟩ := bpos_range c (by have := hc.1; omega) r d g j
  obtain ⟨a1, a2, a3⟩ := lowUp_adjacent c.N hc.1 _ b0 b1
  exact ⟨bpos_eq c hc r d g j, b0, b1, a1, a2, a3⟩

/-- no flat index of either `index_add_` leaves the `B·N` buffer (the real call would raise) -/
theorem C18_scatter_in_range (c : Cfg) (hc : c.Valid) (g : Rat) (rows : List Row) :
    projOK c g rows = true :=
  projOK_of_valid c hc.1 g rows

/-- row `bi` of the batched, offset-based scatter is the projection of transition `bi` alone … -/
theorem C18_row_is_single_projection (c : Cfg) (hc : c.Valid) (g : Rat) (rows : List Row)
    (bi : Nat) (hbi : bi < rows.length) :
    projRow c g rows bi = projOne c g rows[bi] :=
  projRow_eq_projOne c hc.1 g rows bi hbi

/-- … hence the flattened offsets never mix batch rows: row `bi` of the result depends only on
    row `bi` of the inputs, whatever the other rows (and however many) are -/
theorem C18_rows_independent (c : Cfg) (hc : c.Valid) (g : Rat) (rows rows' : List Row) (bi bi' : Nat)
    (hbi : bi < rows.length) (hbi' : bi' < rows'.length) (hsame : rows[bi] = rows'[bi']) :
    projRow c g rows bi = projRow c g rows' bi' := by
  rw [projRow_eq_projOne c hc.1 g rows bi hbi, projRow_eq_projOne c hc.1 g rows' bi' hbi', hsame]

/-- total mass of every row of the projection = total mass of that row's source distribution -/
theorem C18_mass_conserved (c : Cfg) (hc : c.Valid) (g : Rat) (rows : List Row)
    (bi : Nat) (hbi : bi < rows.length) (hshape : rows[bi].p.length = c.N) :
    (projRow c g rows bi).sum = rows[bi].p.sum := by
  rw [projRow_eq_projOne c hc.1 g rows bi hbi]
  exact mass_projOne c hc.1 g _ hshape

/-- `Σ_k proj_k · z_k = Σ_j p_j · t_z_j` with `t_z_j = clamp(r + (1-d)·γ·z_j, v_min, v_max)` -/
theorem C18_mean_conserved (c : Cfg) (hc : c.Valid) (g : Rat) (rows : List Row)
    (bi : Nat) (hbi : bi < rows.length) (hshape : rows[bi].p.length = c.N) :
    dot (projRow c g rows bi) (supportList c) = dot rows[bi].p (tzList c g rows[bi]) := by
  rw [projRow_eq_projOne c hc.1 g rows bi hbi]
  exact mean_projOne c hc g _ hshape

/-- cross-entropy between the projected target of one transition (target distribution of the
    greedy next action under the online q-values) and the online log-distribution of the action
    taken -/
def crossEntropy (c : Cfg) (g : Rat) (s : Sample) : Rat := - dot (projOne c g s.row) s.logpA

/-- `_dqn_loss` returns, sample by sample, that cross-entropy -/
theorem C18_loss_is_cross_entropy (c : Cfg) (hc : c.Valid) (g : Rat) (batch : List Sample) :
    dqnLoss c g batch = batch.map (crossEntropy c g) := by
  unfold dqnLoss
  apply List.ext_getElem
  · simp
  · intro i h1 h2
    have hi : i < batch.length := by simpa using h2
    simp only [List.getElem_map, List.getElem_zipIdx, Nat.zero_add, crossEntropy]
    rw [projRow_eq_projOne c hc.1 g _ i (by simpa using hi)]
    simp

/-- the element-wise loss `learn` computes (with or without PER): 1-step alone with `γ`; n-step
    alone with `γ ^ n_step`; combined = the sum of the two -/
theorem C18_learn_elementwise (h : Hyper) (hc : h.cfg.Valid) (per : Bool) (one nb : List Sample) :
    (learn h per one none).elementwise = one.map (crossEntropy h.cfg h.gamma) ∧
    (h.combined = false → (learn h per one (some nb)).elementwise =
        nb.map (crossEntropy h.cfg (h.gamma ^ h.nStep))) ∧
    (h.combined = true → (learn h per one (some nb)).elementwise =
        List.zipWith (fun s t => crossEntropy h.cfg h.gamma s + crossEntropy h.cfg (h.gamma ^ h.nStep) t)
          one nb) := by
  refine ⟨?_, ?_, ?_⟩
  · simp [learn, C18_loss_is_cross_entropy _ hc]
  · intro hcomb
    simp [learn, hcomb, C18_loss_is_cross_entropy _ hc]
  · intro hcomb
    simp only [learn, hcomb, C18_loss_is_cross_entropy _ hc, if_true]
    rw [List.zipWith_map_left, List.zipWith_map_right]

/-- what `learn(per=True)` hands back as new priorities is that cross-entropy plus `prior_eps`,
    sample by sample, together with the batch's own indices in the same order; without PER no
    priorities are returned -/
theorem C18_priority_is_cross_entropy (h : Hyper) (hc : h.cfg.Valid) (one nb : List Sample) :
    (learn h true one none).priorities =
        some (one.map fun s => crossEntropy h.cfg h.gamma s + h.priorEps) ∧
    (h.combined = false → (learn h true one (some nb)).priorities =
        some (nb.map fun s => crossEntropy h.cfg (h.gamma ^ h.nStep) s + h.priorEps)) ∧
    (h.combined = true → (learn h true one (some nb)).priorities =
        some (List.zipWith (fun s t => crossEntropy h.cfg h.gamma s
                + crossEntropy h.cfg (h.gamma ^ h.nStep) t + h.priorEps) one nb)) ∧
    (learn h true one none).idxs = some (one.map (·.idx)) ∧
    (learn h true one (some nb)).idxs = some (one.map (·.idx)) ∧
    (learn h false one none).priorities = none ∧ (learn h false one (some nb)).priorities = none := by
  have key : ∀ nst, (learn h true one nst).priorities =
      some ((learn h true one nst).elementwise.map (· + h.priorEps)) := by intro nst; simp [learn]
  obtain ⟨e1, e2, e3⟩ := C18_learn_elementwise h hc true one nb
  refine ⟨?_, ?_, ?_, ?_, ?_, ?_, ?_⟩
  · rw [key, e1, List.map_map]; rfl
  · intro hcomb; rw [key, e2 hcomb, List.map_map]; rfl
  · intro hcomb; rw [key, e3 hcomb, List.map_zipWith]
  · simp [learn]
  · simp [learn]
  · simp [learn]
  · simp [learn]

/-! ### non-vacuity: 5 atoms on [-2, 2] (Δ = 1), γ = 1/2 -/

def ex5 : Cfg := { N := 5, vmin := -2, vmax := 2 }
def exP : List Rat := [1/2, 1/4, 1/8, 1/8, 1/16]      -- mass 17/16: not normalised on purpose

example : ex5.Valid := by decide +kernel
/-- reward exactly on an atom, terminal: `t_z = 1` for every atom, `b = 3 = ⌊b⌋ = ⌈b⌉`; the
    first fix-up moves `l` to 2 and all mass lands on atom 3 -/
example : projOne ex5 (1/2) { r := 1, d := 1, p := exP } = [0, 0, 0, 17/16, 0] := by decide +kernel
/-- reward beyond the support: clipped to `v_max`, `b = N-1`, all mass on the last atom -/
example : projOne ex5 (1/2) { r := 5, d := 0, p := exP } = [0, 0, 0, 0, 17/16] := by decide +kernel
/-- terminal with a reward below the support: `b = 0`, only the *second* fix-up fires -/
example : projOne ex5 (1/2) { r := -7, d := 1, p := exP } = [17/16, 0, 0, 0, 0] := by decide +kernel
example : lowUp 5 0 = (0, 1) ∧ lowUp 5 3 = (2, 3) ∧ lowUp 5 4 = (3, 4) ∧ lowUp 5 (5/2) = (2, 3) := by decide +kernel
/-- a non-terminal transition between atoms, in a batch of three: rows keep their own mass and
    mean, and the middle row equals its stand-alone projection -/
def exRows : List Row :=
  [{ r := 1, d := 1, p := exP }, { r := 1/4, d := 0, p := exP }, { r := 5, d := 0, p := exP }]
example : projRow ex5 (1/2) exRows 1 = [0, 7/16, 7/16, 11/64, 1/64] := by decide +kernel
example : (projRow ex5 (1/2) exRows 1).sum = 17/16 ∧
    dot (projRow ex5 (1/2) exRows 1) (supportList ex5) = dot exP (tzList ex5 (1/2) exRows[1]) := by decide +kernel
example : ∀ row ∈ exRows, row.p.length = ex5.N := by decide +kernel

end C51
