import Proofs.BanditAgent
import Proofs.BanditGenEq
import Proofs.BanditWireGenEq

/-!
# C19 — neural bandits keep an exact inverse of their regularised Gram matrix

Model: `Model/Bandit.lean`.  `smUpdate` is the Sherman–Morrison step of
`NeuralUCB.get_action` / `NeuralTS.get_action` on `List (List Rat)` matrices, written with the
code's own association; `Agent` is the bookkeeping state (`outNumel` = parameter count of the
current output layer, `numel`, `sigma_inv`, ghost history `hist` of the chosen gradient features
since the last `init_params`) with the operations `update` (`get_action`), `learn`, `mutate`
(`Mutations.mutation`: architecture change + hook), `clone`, `reload` (`save_checkpoint`/`load`; `loadFrom` = `load_checkpoint` into any agent).
The gradient feature is an input: the network and autograd are not modelled (the harness computes
it on the real network and checks the model's matrix against the real `sigma_inv`).

Operations also include `init` (explicit `init_params`), `setLamb q` (`lamb` changed by an RL-hyper-parameter
mutation or assignment; the matrix is the inverse for the `lamb` of its last initialisation, ghost `lamb0`)
and `evaluate` (`agent.test(env)` / `set_training_mode`: no exemption — every later decision still counts).
All theorems quantify over every `lamb > 0` (the constructor asserts it), every initial size and
every finite sequence of operations; matrices have no size bound.  `Sem` selects the meaning of
`lamb` at initialisation: `paper` (`sigma_inv₀ = I/lamb`, `Z₀ = lamb·I`: the property text) or
`code` (`sigma_inv₀ = lamb·I` as `init_params` writes it today, hence `Z₀ = I/lamb`);
both are covered, they coincide for the default `lamb = 1` (`C19_default_lambda_agrees`), and
`C19_code_lambda_witness` shows that the `code` variant is *not* the inverse of `lamb·I` for `lamb = 2`.

Source translation: `harness/py2lean_bandit.py` translates the tensor expressions of `init_params` and
`get_action` of both classes from the source text into `Gen/BanditGen.lean` (a generic tensor prelude with
shapes inferred from the AST); `Proofs/BanditGenEq.lean` proves the generated definitions equal to `sigma0 .paper`,
`bonus`, `smUpdate`, … under the shape invariant; the `C19_source_translation_*` theorems below restate the
property over the generated definitions, so they are re-checked against what the code says now.

Wiring: `harness/py2lean_banditwire.py` translates, per function and in source order, the statements of the two classes,
of `EvolvableAlgorithm.{mutation_hook, clone, load_checkpoint, load}` and of `Mutations.mutation` + the five mutation
methods that touch `actor` / `exp_layer` / `numel` / `sigma_inv` / the hook registry into `Gen/BanditWireGen.lean`;
`Proofs/BanditWireGenEq.lean` runs these lists on `Wire` and proves them equal to the model's ops; the
`C19_source_translation_wiring_*` theorems state the size clause, the re-initialisation table and the inverse
invariant over histories of the GENERATED transitions.
-/
open Matrix

namespace Bandit

/-- Sherman–Morrison on the executable matrices: if `B` is the inverse of `A` and the denominator
    `1 + vᵀBv` is non-zero, the updated matrix is the two-sided inverse of `A + v vᵀ`. -/
theorem C19_sherman_morrison (n : Nat) (A B : Mat) (v : Vec) (hA : WellShaped n A)
    (hB : WellShaped n B) (hv : v.length = n) (hAB : matMul n A B = identity n)
    (hd : smDenom B v ≠ 0) :
    matMul n (addOuter A v) (smUpdate B v) = identity n ∧
    matMul n (smUpdate B v) (addOuter A v) = identity n ∧
    WellShaped n (smUpdate B v) := by
  have hAB' : toMatrix n A * toMatrix n B = 1 := by
    rw [← toMatrix_matMul hA hB, hAB, toMatrix_identity]
  have hd' : 1 + toVec n v ᵥ* toMatrix n B ⬝ᵥ toVec n v ≠ 0 := by
    rw [← bonus_eq hB hv]; exact hd
  have hA' := addOuter_wellShaped hA hv
  have hB' := smUpdate_wellShaped v hB
  refine ⟨?_, ?_, hB'⟩
  · apply toMatrix_injective (matMul_wellShaped _ hA'.1) (identity_wellShaped n)
    rw [toMatrix_matMul hA' hB', toMatrix_identity, toMatrix_addOuter hA hv, toMatrix_smUpdate hB hv]
    exact BanditM.sm_right _ _ _ hAB' hd'
  · apply toMatrix_injective (matMul_wellShaped _ hB'.1) (identity_wellShaped n)
    rw [toMatrix_matMul hB' hA', toMatrix_identity, toMatrix_addOuter hA hv, toMatrix_smUpdate hB hv]
    exact BanditM.sm_left _ _ _ hAB' hd'

/-- After any sequence of operations, `sigma_inv` is exactly the (two-sided) inverse of
    `Z₀ + Σ g gᵀ` over the gradient features chosen since the matrix was last initialised
    (`a.gram = hist.foldl addOuter (z0 sem lamb numel)`), on the executable lists and, equivalently,
    as Mathlib's matrix inverse. -/
theorem C19_inverse_invariant (sem : Sem) (lamb : Rat) (hl : 0 < lamb) (n0 : Nat) (ops : List Op) :
    let a := (Agent.mk0 sem lamb n0).run ops
    matMul a.numel a.gram a.sigmaInv = identity a.numel ∧
    matMul a.numel a.sigmaInv a.gram = identity a.numel ∧
    toMatrix a.numel a.sigmaInv = (toMatrix a.numel a.gram)⁻¹ := by
  intro a
  have h : a.Good := Agent.good_run (Agent.good_mk0 sem hl n0) ops
  exact ⟨h.inverse_lists.1, h.inverse_lists.2, h.inv.eq_inv⟩

/-- the ghost history is what the statement says: empty right after `init_params` (constructor,
    every `Mutations.mutation`), extended by exactly the accepted features, kept by learn / clone /
    reload -/
theorem C19_history_tracks_choices (a : Agent) (g : Vec) (n' : Nat) :
    (a.mutate n').hist = [] ∧ a.learn.hist = a.hist ∧ a.clone.hist = a.hist ∧
    a.reload.hist = a.hist ∧
    (a.update g).hist = if a.accepts g then a.hist ++ [g] else a.hist := by
  refine ⟨rfl, rfl, by rw [Agent.clone_eq], by rw [Agent.reload_eq], ?_⟩
  unfold Agent.update; split <;> rfl

/-- `lamb` is an ordinary attribute that may change during the agent's life (RL-hyper-parameter
    mutation, assignment).  The λ of the property is the value at the *last initialisation* (ghost
    `lamb0`, which `gram` uses): changing `lamb` alone touches neither the matrix nor `lamb0`; the next
    `init_params` (explicit, mutation hook) starts from the *current* value, never from a cached one. -/
theorem C19_lambda_read_at_initialisation (a : Agent) (q : Rat) (hq : 0 < q) (n' : Nat) :
    (a.setLamb q).sigmaInv = a.sigmaInv ∧ (a.setLamb q).lamb0 = a.lamb0 ∧ (a.setLamb q).lamb = q ∧
    ((a.setLamb q).initParams).sigmaInv = sigma0 a.sem q a.outNumel ∧
    ((a.setLamb q).initParams).lamb0 = q ∧
    ((a.setLamb q).mutate n').sigmaInv = sigma0 a.sem q n' ∧
    a.evaluate = a := by
  simp [Agent.setLamb, hq, Agent.initParams, Agent.mutate, Agent.setArch, Agent.evaluate]

/-- with the `paper` semantics `Z₀` is literally `lamb × identity`, the matrix of the property text;
    `gram` is `Z₀` plus the outer products of the history, oldest first -/
theorem C19_paper_z0_is_lambda_identity (lamb : Rat) (n : Nat) (hist : List Vec) (g : Vec) :
    z0 .paper lamb n = scaledIdentity n lamb ∧ gram (z0 .paper lamb n) [] = scaledIdentity n lamb ∧
    gram (z0 .paper lamb n) (hist ++ [g]) = addOuter (gram (z0 .paper lamb n) hist) g :=
  ⟨rfl, rfl, gram_append _ _ _⟩

/-- for the default `lamb = 1` the two readings of `lamb` coincide -/
theorem C19_default_lambda_agrees (n : Nat) :
    sigma0 .code 1 n = sigma0 .paper 1 n ∧ z0 .code 1 n = z0 .paper 1 n := by
  simp [sigma0, z0]

/-- D16: as written today (`sigma_inv₀ = lamb · I`) the initial matrix is not the inverse of
    `lamb × identity` when `lamb = 2` -/
theorem C19_code_lambda_witness :
    ¬ (matMul 1 (scaledIdentity 1 2) (Agent.mk0 .code 2 1).sigmaInv = identity 1) := by decide +kernel

/-- `sigma_inv` stays symmetric -/
theorem C19_symmetric (sem : Sem) (lamb : Rat) (hl : 0 < lamb) (n0 : Nat) (ops : List Op) :
    let a := (Agent.mk0 sem lamb n0).run ops
    (∀ i j, i < a.numel → j < a.numel → a.sigmaInv.get i j = a.sigmaInv.get j i) ∧
    (toMatrix a.numel a.sigmaInv)ᵀ = toMatrix a.numel a.sigmaInv := by
  intro a
  have h : a.Good := Agent.good_run (Agent.good_mk0 sem hl n0) ops
  exact ⟨fun i j hi hj => h.symm_entries hi hj, h.inv.posDef.1⟩

/-- `sigma_inv` stays positive definite: `xᵀ sigma_inv x > 0` for every non-zero `x`, hence the
    denominator `1 + vᵀ sigma_inv v` of the next update is at least 1 (never singular) -/
theorem C19_posdef (sem : Sem) (lamb : Rat) (hl : 0 < lamb) (n0 : Nat) (ops : List Op) :
    let a := (Agent.mk0 sem lamb n0).run ops
    (∀ x : Vec, x.length = a.numel → (∃ c ∈ x, c ≠ 0) → 0 < bonus a.sigmaInv x) ∧
    (∀ v : Vec, v.length = a.numel → 1 ≤ smDenom a.sigmaInv v) ∧
    BanditM.PosDefQ (toMatrix a.numel a.sigmaInv) := by
  intro a
  have h : a.Good := Agent.good_run (Agent.good_mk0 sem hl n0) ops
  refine ⟨fun x hx hne => h.bonus_pos hx hne, fun v hv => ?_, h.inv.posDef⟩
  have := h.bonus_nonneg hv
  unfold smDenom; linarith

/-- the quantity under the square root of the exploration bonus, `gᵀ sigma_inv g`, is non-negative
    for every arm's feature `g` — the bonus `gamma · sqrt(…)` is defined and ≥ 0 -/
theorem C19_bonus_nonneg (sem : Sem) (lamb : Rat) (hl : 0 < lamb) (n0 : Nat) (ops : List Op)
    (g : Vec) :
    let a := (Agent.mk0 sem lamb n0).run ops
    g.length = a.numel → 0 ≤ bonus a.sigmaInv g := by
  intro a hg
  exact (Agent.good_run (Agent.good_mk0 sem hl n0) ops).bonus_nonneg hg

/-- after every operation `agent.numel` is the parameter count of the current output layer and
    `sigma_inv` is `numel × numel` — for every `lamb`, also after the layer was resized by a
    mutation, cloned or reloaded -/
theorem C19_size_matches_output_layer (sem : Sem) (lamb : Rat) (n0 : Nat) (ops : List Op) :
    let a := (Agent.mk0 sem lamb n0).run ops
    a.numel = a.outNumel ∧ a.sigmaInv.length = a.outNumel ∧ ∀ r ∈ a.sigmaInv, r.length = a.outNumel := by
  intro a
  have h : a.Sized := Agent.sized_run (Agent.sized_initParams _) ops
  refine ⟨h.1, ?_, ?_⟩
  · rw [← h.1]; exact h.2.1
  · rw [← h.1]; exact h.2.2

/-- loading a checkpoint into *any* agent of the same class — whatever the size of its own output
    layer and matrix — yields exactly the saved bookkeeping state (network rebuilt at the saved size,
    hook, attributes restored), so the size clause and the inverse invariant survive a reload -/
theorem C19_load_into_any_agent (target saved : Agent) (hs : target.sem = saved.sem) :
    target.loadFrom saved = saved ∧ (saved.Sized → (target.loadFrom saved).Sized) := by
  rw [Agent.loadFrom_eq target saved hs]; exact ⟨rfl, id⟩

/-- the size clause rests on the mutation hook: an architecture change *without* `init_params`
    leaves a 2×2 matrix beside a 3-parameter layer, and `get_action` is then rejected -/
theorem C19_hook_needed_witness :
    ¬ ((Agent.mk0 .code 1 2).setArch 3).Sized ∧
    ((Agent.mk0 .code 1 2).setArch 3).accepts [1, 2, 3] = false ∧
    ((Agent.mk0 .code 1 2).mutate 3).Sized := by decide +kernel

/-! ### the property over the definitions generated from the source text

`BanditGen.UCB.*` / `BanditGen.TS.*` are produced by `harness/py2lean_bandit.py` from
`agilerl/algorithms/neural_{ucb,ts}_bandit.py` (regenerated before every check).  A history is what the code
sees: `init` once (the layer's parameter list and `lamb` are inputs), then per `get_action` call the feature
matrix `feat` (one gradient row per arm — the network is not translated) and either the chosen arm
(`genRun`: every possible choice) or the network outputs and the mask (`actRun`: the arm the translated argmax
picks).  The shape hypothesis is the one the code maintains: every chosen feature row has `numel` entries. -/
section source_translation
open BanditGen

/-- every generated definition equals its counterpart in the hand-written model, for both classes -/
theorem C19_source_translation_equalities (lamb γ : Rat) (sqrt : Rat → Rat) (normal : Mat → Mat → Mat)
    (ps : List LayerParam) (n : Nat) (S mu feat q : Mat) (mask : Option (List Rat)) (a : Nat)
    (hS : S.length = n) (hv : (feat.getD a []).length = n) :
    (UCB.numel0 ps = layerNumel ps ∧ TS.numel0 ps = layerNumel ps) ∧
    (UCB.sigma0 lamb n = sigma0 .paper lamb n ∧ TS.sigma0 lamb n = sigma0 .paper lamb n) ∧
    (UCB.sqrt_arg n S feat = bonusRows S feat ∧ TS.sqrt_arg n S feat = bonusRows S feat) ∧
    (UCB.scores sqrt γ mu q = ucbScores sqrt γ mu q ∧ TS.scores normal sqrt γ mu q = tsScores normal sqrt γ mu q) ∧
    (UCB.arm mask q = pickArm q.flatten mask ∧ TS.arm mask q = pickArm q.flatten mask) ∧
    (UCB.update n S feat a = smUpdate S (feat.getD a []) ∧ TS.update n S feat a = smUpdate S (feat.getD a [])) :=
  ⟨⟨gen_ucb_numel0_eq ps, gen_ts_numel0_eq ps⟩, ⟨gen_ucb_sigma0_eq lamb n, gen_ts_sigma0_eq lamb n⟩,
   ⟨gen_ucb_sqrt_arg_eq feat hS, gen_ts_sqrt_arg_eq feat hS⟩,
   ⟨gen_ucb_scores_eq sqrt γ mu q, gen_ts_scores_eq normal sqrt γ mu q⟩,
   ⟨gen_ucb_arm_eq mask q, gen_ts_arm_eq mask q⟩,
   ⟨gen_ucb_update_eq feat a hS hv, gen_ts_update_eq feat a hS hv⟩⟩

/-- **initialisation, over the generated code**: `init_params` sets `numel` to the number of trainable scalars
    of the output layer and `sigma_inv` to a `numel × numel` matrix that is the two-sided inverse of
    `lamb × identity` -/
theorem C19_source_translation_init (lamb : Rat) (hl : 0 < lamb) (ps : List LayerParam) :
    let n := layerNumel ps
    (UCB.init lamb ps).1 = n ∧ (TS.init lamb ps).1 = n ∧ (TS.init lamb ps).2 = (UCB.init lamb ps).2 ∧
    WellShaped n (UCB.init lamb ps).2 ∧
    matMul n (scaledIdentity n lamb) (UCB.init lamb ps).2 = identity n ∧
    matMul n (UCB.init lamb ps).2 (scaledIdentity n lamb) = identity n := by
  intro n
  have hu : UCB.init lamb ps = (n, sigma0 .paper lamb n) := by
    simp only [UCB.init, gen_ucb_numel0_eq, gen_ucb_sigma0_eq, n]
  have ht : TS.init lamb ps = (n, sigma0 .paper lamb n) := by
    simp only [TS.init, gen_ts_numel0_eq, gen_ts_sigma0_eq, n]
  have h := C19_inverse_invariant .paper lamb hl n []
  rw [hu, ht]
  exact ⟨rfl, rfl, rfl, sigma0_wellShaped .paper lamb n, h.1, h.2.1⟩

/-- what the generated code leaves in `sigma_inv` after `init` and the updates of a history, for both classes -/
theorem C19_source_translation_run_is_model (lamb : Rat) (ps : List LayerParam) (hist : List (Mat × Nat))
    (hrow : ∀ d ∈ hist, (d.1.getD d.2 []).length = layerNumel ps) :
    genRun UCB.update (UCB.init lamb ps) hist = (chosen hist).foldl smUpdate (sigma0 .paper lamb (layerNumel ps)) ∧
    genRun TS.update (TS.init lamb ps) hist = (chosen hist).foldl smUpdate (sigma0 .paper lamb (layerNumel ps)) := by
  have hlen : (sigma0 .paper lamb (layerNumel ps)).length = layerNumel ps := (sigma0_wellShaped _ _ _).1
  constructor
  · have hu : UCB.init lamb ps = (layerNumel ps, sigma0 .paper lamb (layerNumel ps)) := by
      simp only [UCB.init, gen_ucb_numel0_eq, gen_ucb_sigma0_eq]
    rw [genRun, hu]
    exact foldl_update_eq UCB.update _ (fun S feat a h1 h2 => gen_ucb_update_eq feat a h1 h2) hist _ hlen hrow
  · have ht : TS.init lamb ps = (layerNumel ps, sigma0 .paper lamb (layerNumel ps)) := by
      simp only [TS.init, gen_ts_numel0_eq, gen_ts_sigma0_eq]
    rw [genRun, ht]
    exact foldl_update_eq TS.update _ (fun S feat a h1 h2 => gen_ts_update_eq feat a h1 h2) hist _ hlen hrow

/-- the facts of C19 about a fold of `smUpdate` from the repaired initialisation (from the theorems above) -/
theorem C19_fold_facts (lamb : Rat) (hl : 0 < lamb) (n : Nat) (vs : List Vec) (hv : ∀ v ∈ vs, v.length = n) :
    let S := vs.foldl smUpdate (sigma0 .paper lamb n)
    let Z := gram (scaledIdentity n lamb) vs
    WellShaped n S ∧ matMul n Z S = identity n ∧ matMul n S Z = identity n ∧
    (∀ i j, i < n → j < n → S.get i j = S.get j i) ∧
    (∀ g : Vec, g.length = n → 0 ≤ bonus S g) ∧ (∀ g : Vec, g.length = n → 1 ≤ smDenom S g) := by
  intro S Z
  obtain ⟨h1, h2, h3⟩ := foldl_smUpdate_model lamb n vs hv
  have hinv := C19_inverse_invariant .paper lamb hl n (vs.map Op.update)
  have hsym := C19_symmetric .paper lamb hl n (vs.map Op.update)
  have hpd := C19_posdef .paper lamb hl n (vs.map Op.update)
  have hsz := C19_size_matches_output_layer .paper lamb n (vs.map Op.update)
  have hbn := fun g => C19_bonus_nonneg .paper lamb hl n (vs.map Op.update) g
  simp only [h2, h3, ← h1] at hinv hsym hpd hsz hbn
  refine ⟨⟨?_, ?_⟩, hinv.1, hinv.2.1, hsym.1, hbn, hpd.2.1⟩
  · rw [hsz.2.1, ← hsz.1]
  · intro r hr; rw [hsz.2.2 r hr, ← hsz.1]

/-- **the property over the generated code**: after `init_params` and any number of decisions — whatever the
    feature matrices and whichever arms are chosen — the matrix the translated Sherman–Morrison statement
    leaves in `sigma_inv` is `numel × numel`, the two-sided inverse of `lamb × identity + Σ g gᵀ` over the
    chosen feature rows, symmetric; the quantity under the square root of every arm's exploration bonus is
    non-negative and the denominator of the next update is at least 1.  NeuralUCB and NeuralTS alike. -/
theorem C19_source_translation_inverse_invariant (lamb : Rat) (hl : 0 < lamb) (ps : List LayerParam)
    (hist : List (Mat × Nat)) (hrow : ∀ d ∈ hist, (d.1.getD d.2 []).length = layerNumel ps) :
    let n := layerNumel ps
    let Z := gram (scaledIdentity n lamb) (chosen hist)
    ∀ S, (S = genRun UCB.update (UCB.init lamb ps) hist ∨ S = genRun TS.update (TS.init lamb ps) hist) →
      WellShaped n S ∧ matMul n Z S = identity n ∧ matMul n S Z = identity n ∧
      (∀ i j, i < n → j < n → S.get i j = S.get j i) ∧
      (∀ g : Vec, g.length = n → 0 ≤ bonus S g) ∧ (∀ g : Vec, g.length = n → 1 ≤ smDenom S g) := by
  intro n Z S hS
  obtain ⟨hu, ht⟩ := C19_source_translation_run_is_model lamb ps hist hrow
  have hS' : S = (chosen hist).foldl smUpdate (sigma0 .paper lamb n) := by
    rcases hS with h | h
    · rw [h, hu]
    · rw [h, ht]
  subst hS'
  exact C19_fold_facts lamb hl n (chosen hist) (by
    intro v hv
    simp only [chosen, List.mem_map] at hv
    obtain ⟨d, hd, rfl⟩ := hv
    exact hrow d hd)

/-- **the exploration term over the generated code**: along every such history every entry of the tensor the
    code hands to `torch.sqrt` (one per arm: `g[k] sigma_inv g[k]ᵀ`) is non-negative, so the bonus
    `gamma * sqrt(·)` of NeuralUCB and the standard deviation NeuralTS hands to `torch.normal` are defined -/
theorem C19_source_translation_bonus_nonneg (lamb : Rat) (hl : 0 < lamb) (ps : List LayerParam)
    (hist : List (Mat × Nat)) (hrow : ∀ d ∈ hist, (d.1.getD d.2 []).length = layerNumel ps)
    (feat : Mat) (hfeat : ∀ r ∈ feat, r.length = layerNumel ps) :
    let n := layerNumel ps
    (∀ row ∈ UCB.sqrt_arg n (genRun UCB.update (UCB.init lamb ps) hist) feat, ∀ x ∈ row, 0 ≤ x) ∧
    (∀ row ∈ TS.sqrt_arg n (genRun TS.update (TS.init lamb ps) hist) feat, ∀ x ∈ row, 0 ≤ x) := by
  intro n
  have hu := C19_source_translation_inverse_invariant lamb hl ps hist hrow _ (Or.inl rfl)
  have ht := C19_source_translation_inverse_invariant lamb hl ps hist hrow _ (Or.inr rfl)
  constructor
  · rw [gen_ucb_sqrt_arg_eq feat hu.1.1]
    intro row hr x hx
    simp only [bonusRows, List.mem_map] at hr
    obtain ⟨r, hrf, rfl⟩ := hr
    rw [List.mem_singleton] at hx
    subst hx
    exact hu.2.2.2.2.1 r (hfeat r hrf)
  · rw [gen_ts_sqrt_arg_eq feat ht.1.1]
    intro row hr x hx
    simp only [bonusRows, List.mem_map] at hr
    obtain ⟨r, hrf, rfl⟩ := hr
    rw [List.mem_singleton] at hx
    subst hx
    exact ht.2.2.2.2.1 r (hfeat r hrf)

/-- **`get_action` over the generated code**: the translated method returns the arm `pickArm` of its own scores
    and leaves in `sigma_inv` the Sherman–Morrison update with exactly that arm's feature row -/
theorem C19_source_translation_act (sqrt : Rat → Rat) (normal : Mat → Mat → Mat) (γ : Rat) (n : Nat)
    (S mu feat : Mat) (mask : Option (List Rat)) (hS : S.length = n) (hrows : ∀ a, (feat.getD a []).length = n) :
    (UCB.act sqrt γ n S mu feat mask =
      (let a := pickArm (ucbScores sqrt γ mu (bonusRows S feat)).flatten mask; (a, smUpdate S (feat.getD a [])))) ∧
    (TS.act normal sqrt γ n S mu feat mask =
      (let a := pickArm (tsScores normal sqrt γ mu (bonusRows S feat)).flatten mask; (a, smUpdate S (feat.getD a [])))) :=
  ⟨gen_ucb_act_eq sqrt γ mu feat mask hS hrows, gen_ts_act_eq normal sqrt γ mu feat mask hS hrows⟩

/-- **the chosen arm over the generated code**: the translated `np.argmax` picks, without a mask, the first
    maximum of the flattened scores; with a mask that allows at least one arm (`mask = 1`), an allowed arm that
    is the first maximum among the allowed ones — so the feature row of the update is a row of `feat` -/
theorem C19_source_translation_arm (sc : Mat) (m : List Rat) (hne : sc.flatten ≠ []) :
    let q := sc.flatten
    (UCB.arm none sc = TS.arm none sc ∧ UCB.arm none sc < q.length ∧
      (∀ j, j < q.length → q.getD j 0 ≤ q.getD (UCB.arm none sc) 0) ∧
      (∀ j, j < UCB.arm none sc → q.getD j 0 < q.getD (UCB.arm none sc) 0)) ∧
    (m.length = q.length → (∃ i, i < q.length ∧ m.getD i 0 = 1) →
      UCB.arm (some m) sc = TS.arm (some m) sc ∧ UCB.arm (some m) sc < q.length ∧
      m.getD (UCB.arm (some m) sc) 0 = 1 ∧
      (∀ j, j < q.length → m.getD j 0 = 1 → q.getD j 0 ≤ q.getD (UCB.arm (some m) sc) 0) ∧
      (∀ j, j < UCB.arm (some m) sc → m.getD j 0 = 1 → q.getD j 0 < q.getD (UCB.arm (some m) sc) 0)) := by
  intro q
  rw [gen_ucb_arm_eq, gen_ts_arm_eq, gen_ucb_arm_eq, gen_ts_arm_eq]
  exact ⟨⟨rfl, pickArm_none_spec q hne⟩, fun hlen ⟨i, hi, hall⟩ => ⟨rfl, pickArm_some_spec q m hlen i hi hall⟩⟩

/-- **histories of `get_action` calls over the generated code**: run the translated method itself on any
    sequence of inputs (network outputs, feature matrix, optional mask); if the rows it picks have `numel`
    entries, the final `sigma_inv` is the inverse of `lamb × identity + Σ g gᵀ` over exactly the rows the
    translated argmax picked, symmetric, with non-negative bonuses -/
theorem C19_source_translation_act_history (sqrt : Rat → Rat) (normal : Mat → Mat → Mat) (γ lamb : Rat)
    (hl : 0 < lamb) (ps : List LayerParam) (inputs : List (Mat × Mat × Option (List Rat))) :
    let n := layerNumel ps
    ∀ out, (out = actRun (UCB.act sqrt γ n) (UCB.init lamb ps).2 inputs ∨
            out = actRun (TS.act normal sqrt γ n) (TS.init lamb ps).2 inputs) →
      (∀ v ∈ out.1, v.length = n) →
      WellShaped n out.2 ∧ matMul n (gram (scaledIdentity n lamb) out.1) out.2 = identity n ∧
      matMul n out.2 (gram (scaledIdentity n lamb) out.1) = identity n ∧
      (∀ i j, i < n → j < n → out.2.get i j = out.2.get j i) ∧ (∀ g : Vec, g.length = n → 0 ≤ bonus out.2 g) := by
  intro n out hout hlen
  have hlen0 : (sigma0 .paper lamb n).length = n := (sigma0_wellShaped _ _ _).1
  have hu : (UCB.init lamb ps).2 = sigma0 .paper lamb n := by
    simp only [UCB.init, gen_ucb_numel0_eq, gen_ucb_sigma0_eq, n]
  have ht : (TS.init lamb ps).2 = sigma0 .paper lamb n := by
    simp only [TS.init, gen_ts_numel0_eq, gen_ts_sigma0_eq, n]
  have key : out.2 = out.1.foldl smUpdate (sigma0 .paper lamb n) := by
    rcases hout with h | h
    · subst h
      rw [hu] at hlen ⊢
      exact actRun_eq (UCB.act sqrt γ n) n (fun S mu feat mask hS hv => gen_ucb_update_eq feat _ hS hv) inputs _ hlen0 hlen
    · subst h
      rw [ht] at hlen ⊢
      exact actRun_eq (TS.act normal sqrt γ n) n (fun S mu feat mask hS hv => gen_ts_update_eq feat _ hS hv) inputs _ hlen0 hlen
  have hf := C19_fold_facts lamb hl n out.1 hlen
  rw [key]
  exact ⟨hf.1, hf.2.1, hf.2.2.1, hf.2.2.2.1, hf.2.2.2.2.1⟩

/-- a changed initialisation is not absorbed: with `* lamb` in place of `/ lamb` (the defect D16) the initial
    matrix is not the inverse of `lamb × identity` — the equality `gen_*_sigma0_eq` has content -/
theorem C19_source_translation_init_witness :
    (UCB.init 2 [⟨1, true⟩]).2 = [[1/2]] ∧ ¬ (matMul 1 (scaledIdentity 1 2) (emap2 (fun x => x * 2) (eye 1)) = identity 1) := by
  decide +kernel

end source_translation

/-! ### non-vacuity: concrete histories satisfy the hypotheses, conclusions are the expected values -/

/-- λ = 2 (paper reading), two decisions in dimension 2 -/
example : ((Agent.mk0 .paper 2 2).run [.update [1, 1/2], .learn, .update [0, 3]]).sigmaInv
    = [[45/134, -1/67], [-1/67, 6/67]] := by decide +kernel
example : ((Agent.mk0 .paper 2 2).run [.update [1, 1/2], .learn, .update [0, 3]]).gram
    = [[3, 1/2], [1/2, 45/4]] := by decide +kernel
/-- `C19_sherman_morrison`'s hypotheses hold on a non-trivial instance -/
example : WellShaped 2 [[3, 1/2], [1/2, 9/4]] ∧
    matMul 2 [[3, 1/2], [1/2, 9/4]] [[9/26, -1/13], [-1/13, 6/13]] = identity 2 ∧
    smDenom [[9/26, -1/13], [-1/13, 6/13]] [0, 3] ≠ 0 := by decide +kernel
/-- mutate (resize 2 → 3 with the hook), decide, clone, reload, decide again -/
def demo : Agent := (Agent.mk0 .code (1/2) 2).run
  [.update [1, 0], .mutate 3, .update [1, 1, 0], .clone, .reload, .update [0, 0, 2]]
example : demo.numel = 3 ∧ demo.hist = [[1, 1, 0], [0, 0, 2]] ∧ demo.checkInverse = true ∧
    isSymm demo.sigmaInv = true ∧ demo.sigmaInv = [[3/8, -1/8, 0], [-1/8, 3/8, 0], [0, 0, 1/6]] := by
  decide +kernel
/-- a 2-parameter agent loads the checkpoint of a 3-parameter one -/
example : ((Agent.mk0 .code (1/2) 2).update [1, 1]).loadFrom demo = demo := by decide +kernel
/-- λ changes from 2 to 1/2 after one decision; the hook then re-initialises with the new value, a fitness
    evaluation changes nothing, and the next decision is absorbed: inverse of `(1/2)·I + g gᵀ` -/
def demoLamb : Agent := (Agent.mk0 .paper 2 2).run
  [.update [1, 1], .setLamb (1/2), .update [1, 0], .mutate 2, .evaluate, .update [0, 2]]
example : demoLamb.lamb0 = 1/2 ∧ demoLamb.hist = [[0, 2]] ∧ demoLamb.gram = [[1/2, 0], [0, 9/2]] ∧
    demoLamb.sigmaInv = [[2, 0], [0, 2/9]] ∧ demoLamb.checkInverse = true := by decide +kernel
/-- between the change of λ and the next initialisation the matrix still belongs to the old λ -/
example : ((Agent.mk0 .paper 2 1).run [.setLamb (1/2), .update [1]]).sigmaInv = [[1/3]] ∧
    ((Agent.mk0 .paper 2 1).run [.setLamb (1/2), .init, .update [1]]).sigmaInv = [[2/3]] := by decide +kernel
/-- a feature of the wrong length is rejected and changes nothing -/
example : (Agent.mk0 .paper 1 2).update [1, 2, 3] = Agent.mk0 .paper 1 2 := by decide +kernel

/-- the generated code on the history of the first example (λ = 2, dimension 2: a layer with one trainable
    2-parameter tensor and a frozen one): hypotheses of `C19_source_translation_inverse_invariant` hold, the
    result is the model's matrix -/
def genHist : List (Mat × Nat) := [([[0, 0], [1, 1/2]], 1), ([[0, 3], [7, 7]], 0)]
example : ∀ d ∈ genHist, (d.1.getD d.2 []).length = layerNumel [⟨2, true⟩, ⟨5, false⟩] := by decide +kernel
example : chosen genHist = [[1, 1/2], [0, 3]] := by decide +kernel
example : genRun BanditGen.UCB.update (BanditGen.UCB.init 2 [⟨2, true⟩, ⟨5, false⟩]) genHist
    = [[45/134, -1/67], [-1/67, 6/67]] ∧
    genRun BanditGen.TS.update (BanditGen.TS.init 2 [⟨2, true⟩, ⟨5, false⟩]) genHist
    = [[45/134, -1/67], [-1/67, 6/67]] := by decide +kernel
/-- `get_action` itself (sqrt := id, γ = 1) on two calls: it picks arm 2, then under the mask arm 1 -/
example : actRun (BanditGen.UCB.act id 1 2) (BanditGen.UCB.init 2 [⟨2, true⟩]).2
    [([[1], [0], [0]], [[0, 0], [1, 1/2], [0, 3]], none), ([[0], [0], [0]], [[0, 0], [1, 1/2], [0, 3]], some [1, 1, 0])]
    = ([[0, 3], [1, 1/2]], [[45/134, -1/67], [-1/67, 6/67]]) := by decide +kernel


/-! ### the wiring around the matrix, over the event lists generated from the source text

`BanditWireGen.*` (from `harness/py2lean_banditwire.py`) lists, per function and in source order, the statements of
`NeuralUCB/NeuralTS.{__init__, init_params, get_action, learn}`, `EvolvableAlgorithm.{mutation_hook, clone,
load_checkpoint, load}` and `Mutations.{mutation, the five mutation methods}` that touch `actor`, `exp_layer`,
`numel`, `sigma_inv`, the hook registry.  `Proofs/BanditWireGenEq.lean` runs them on `Wire` (the bookkeeping agent
plus the identity of the current output layer and of what `exp_layer` is bound to).  A history starts with the
translated constructor and continues with any ops (`WOp`): decide, learn, `Mutations.mutation` of any kind with any
resulting output-layer size, clone, save + `load`, save + `load_checkpoint` into another agent of the class. -/
section source_translation_wiring
set_option linter.unnecessarySeqFocus false
open BanditWireGen

/-- every generated list runs to the op of the hand-written wiring model (no event without meaning: flag `false`) -/
theorem C19_source_translation_wiring_equalities (c : Cls) (w t : Wire) (g : Vec) (k : Kind) (n' n0 : Nat)
    (q : Option Rat) (sem : Sem) (lamb : Rat) (id n next : Nat) (hw : w.hooked = true) (ht : t.hooked = true) :
    runCtor c sem lamb id n next = ({ Wire.mk0 sem lamb n id with next := next }, false) ∧
    runInit c (w, false) = (w.initParams, false) ∧ runHook c (w, false) = (w.hook, false) ∧
    genUpdate c w g = (w.update g, false) ∧ genLearn c w = (w.learn, false) ∧
    genMutate c w k n' q = (w.mutate k n' q, false) ∧ genClone c w n0 = (w.clone, false) ∧
    genLoad c w n0 = (w.reload, false) ∧ genLoadCheckpoint c t w = (t.loadFrom w, false) :=
  ⟨gen_ctor_eq .., gen_initParams_eq .., gen_hook_eq .., gen_update_eq .., gen_learn_eq .., gen_mutate_eq c w k n' q hw,
   gen_clone_eq .., gen_load_eq c w n0 hw, gen_loadCheckpoint_eq c t w ht⟩

/-- the translated constructor leaves the agent bound to its own output layer with the hook registered -/
theorem C19_source_translation_wiring_ctor (c : Cls) (sem : Sem) (lamb : Rat) (n : Nat) :
    (runCtor c sem lamb 1 n 2).1 = Wire.mk0 sem lamb n 1 ∧ (Wire.mk0 sem lamb n 1).Inv sem ∧
    (Wire.mk0 sem lamb n 1).Bound := by
  refine ⟨by rw [gen_ctor_eq]; rfl, Wire.inv_mk0 .., rfl, rfl, rfl⟩

/-- **(i) invariant, over the generated transitions**: after the translated constructor and ANY sequence of ops
    run from the generated lists, no statement was left without meaning, `exp_layer` is the output layer of the
    CURRENT actor, `numel` is its parameter count and `sigma_inv` is `numel × numel` -/
theorem C19_source_translation_wiring_invariant (c : Cls) (sem : Sem) (lamb : Rat) (n n0 : Nat) (ops : List WOp)
    (hv : ∀ op ∈ ops, op.valid sem) :
    let r := wireRun c n0 (runCtor c sem lamb 1 n 2).1 ops
    r.2 = false ∧ r.1.hooked = true ∧ r.1.exp = r.1.layer ∧ r.1.expN = r.1.a.outNumel ∧
    r.1.a.numel = r.1.a.outNumel ∧ WellShaped r.1.a.numel r.1.a.sigmaInv := by
  intro r
  obtain ⟨h0, hi, hb⟩ := C19_source_translation_wiring_ctor c sem lamb n
  obtain ⟨he, hinv⟩ := wire_run_eq c n0 ops hv hi
  have hr : r = ((Wire.mk0 sem lamb n 1).run ops, false) := by simp only [r, h0, he]
  have hbound := Wire.bound_run ops hv hi hb
  have ha := Wire.run_a ops hv hi
  have hs : ((Wire.mk0 sem lamb n 1).run ops).a.Sized := by
    rw [ha]; exact Agent.sized_run (Agent.sized_initParams _) _
  rw [hr]
  exact ⟨rfl, hinv.1, hbound.1, hbound.2.1, hbound.2.2, hs.2⟩

/-- **(ii) which ops re-initialise, as coded**: `Mutations.mutation` re-initialises the matrix whatever kind it
    drew — also `no_mutation` and an RL-hyper-parameter mutation, because `mutation` calls `mutation_hook()`
    unconditionally — to `sigma0` of the CURRENT `lamb` at the NEW size with an empty history; a decision applies
    one Sherman–Morrison step; `learn` changes nothing; `clone`, `load` and `load_checkpoint` hand the child / the
    loaded agent exactly the parent's / the saved bookkeeping state (matrix and history carried) -/
theorem C19_source_translation_wiring_reinit (c : Cls) (sem : Sem) (w t : Wire) (hw : w.Inv sem) (g : Vec) (k : Kind)
    (n' n0 : Nat) (q : Option Rat) (ht : (WOp.loadInto t).valid sem) :
    (let m := (genMutate c w k n' q).1
     m.a.hist = [] ∧ m.a.sigmaInv = sigma0 sem m.a.lamb m.a.outNumel ∧ m.a.lamb0 = m.a.lamb ∧
     m.a.outNumel = (if k.setsNet then n' else w.a.outNumel)) ∧
    (genUpdate c w g).1.a = w.a.update g ∧ (genLearn c w).1 = w ∧
    (genClone c w n0).1.a = w.a ∧ (genLoad c w n0).1.a = w.a ∧ (genLoadCheckpoint c t w).1.a = w.a := by
  obtain ⟨h1, h2⟩ := hw
  refine ⟨?_, ?_, ?_, ?_, ?_, ?_⟩
  · rw [gen_mutate_eq c w k n' q h1]
    cases k <;> cases q <;>
    simp [Wire.mutate, Kind.setsNet, Wire.hook, Wire.setNet, Wire.initParams, h1, Agent.initParams, Agent.setArch,
      Agent.setLamb, h2] <;> (try split) <;> simp [h2]
  · rw [gen_update_eq]; rfl
  · rw [gen_learn_eq]; rfl
  · rw [gen_clone_eq]; exact Agent.clone_eq _
  · rw [gen_load_eq c w n0 h1]; exact Agent.reload_eq _
  · rw [gen_loadCheckpoint_eq c t w ht.1]; exact Agent.loadFrom_eq _ _ (ht.2.trans h2.symm)

/-- **(iii) composed with the inverse invariant**: after the translated constructor and any sequence of ops run
    from the generated lists, `sigma_inv` is the two-sided inverse of `Z₀ + Σ g gᵀ` over the decisions since the last
    re-initialisation (`gram`: `Z₀` from the `lamb` read at that re-initialisation, at the size of the current
    output layer), on the executable lists and as Mathlib's matrix inverse -/
theorem C19_source_translation_wiring_inverse (c : Cls) (sem : Sem) (lamb : Rat) (hl : 0 < lamb) (n n0 : Nat)
    (ops : List WOp) (hv : ∀ op ∈ ops, op.valid sem) :
    let a := (wireRun c n0 (runCtor c sem lamb 1 n 2).1 ops).1.a
    a.numel = a.outNumel ∧
    matMul a.numel a.gram a.sigmaInv = identity a.numel ∧ matMul a.numel a.sigmaInv a.gram = identity a.numel ∧
    toMatrix a.numel a.sigmaInv = (toMatrix a.numel a.gram)⁻¹ := by
  intro a
  obtain ⟨h0, hi, _⟩ := C19_source_translation_wiring_ctor c sem lamb n
  obtain ⟨he, _⟩ := wire_run_eq c n0 ops hv hi
  have ha : a = (Agent.mk0 sem lamb n).run (ops.flatMap WOp.erase) := by
    simp only [a, h0, he]; exact Wire.run_a ops hv hi
  rw [ha]
  exact ⟨(C19_size_matches_output_layer sem lamb n _).1, C19_inverse_invariant sem lamb hl n _⟩

/-- the source order matters — three repaired / possible orders, decided on the generated lists with one statement
    changed: `load` without its hook call, `load` without the `is_network_submodule` guard (the state before the fix
    of `C19-exp-layer-stale-after-load`: `exp_layer` becomes the pickled copy), `clone` running the hook on the
    parent instead of the new agent (the child stays bound to the constructor's network, the parent loses its
    matrix) — each leaves `exp_layer` off the current output layer; the lists as generated do not -/
theorem C19_source_translation_wiring_order_witness :
    let w := (Wire.mk0 .paper 1 2 1).update [1, 1]
    let noHook := Base.load.filter (· != .call "self" "mutation_hook")
    let noGuard := Base.load.filter (· != .skipWhen "is_network_submodule")
    let wrongObj := Base.clone.map (fun e => if e = .call "clone" "mutation_hook" then .call "self" "mutation_hook" else e)
    (loadWith Base.load .ucb w 3).1.Bound ∧ (cloneWith Base.clone .ucb w 3).1.Bound ∧
    noHook.length + 1 = Base.load.length ∧ ¬ (loadWith noHook .ucb w 3).1.Bound ∧
    noGuard.length + 1 = Base.load.length ∧ ¬ (loadWith noGuard .ucb w 3).1.Bound ∧
    wrongObj ≠ Base.clone ∧ ¬ (cloneWith wrongObj .ucb w 3).1.Bound := by
  decide +kernel

end source_translation_wiring

/-- the generated lists on the history of `demo` (decide, architecture mutation 2 → 3, decide, clone, reload,
    decide): every statement had a meaning, the bookkeeping state is `demo`, `exp_layer` is the current layer -/
def wireDemo : WB := wireRun .ucb 5 (runCtor .ucb .code (1/2) 1 2 2).1
  [.update [1, 0], .mutate .arch 3 none, .update [1, 1, 0], .clone, .reload, .update [0, 0, 2]]
example : wireDemo.2 = false ∧ wireDemo.1.a = demo ∧ wireDemo.1.Bound ∧ wireDemo.1.layer = 6 := by decide +kernel
/-- `no_mutation` and an rl_hp mutation of `lamb` re-initialise as well (the hook call in `mutation` is unconditional) -/
example : (genMutate .ts ((Wire.mk0 .paper 2 1 1).update [1]) .none 9 none).1.a.sigmaInv = [[1/2]] ∧
    (genMutate .ts ((Wire.mk0 .paper 2 1 1).update [1]) .rlhp 9 (some 4)).1.a.sigmaInv = [[1/4]] ∧
    ((Wire.mk0 .paper 2 1 1).update [1]).a.sigmaInv = [[1/3]] := by decide +kernel
/-- the hypotheses of the history theorems are satisfiable: a `load_checkpoint` into a constructed agent is valid -/
example : (WOp.loadInto (Wire.mk0 .paper 3 4 1)).valid .paper := ⟨rfl, rfl⟩

end Bandit
