import Proofs.BanditAgent

/-!
# C19 — neural bandits keep an exact inverse of their regularised Gram matrix

Model: `Model/Bandit.lean`.  `smUpdate` is the Sherman–Morrison step of
`NeuralUCB.get_action` / `NeuralTS.get_action` on `List (List Rat)` matrices, written with the
code's own association; `Agent` is the bookkeeping state (`outNumel` = parameter count of the
current output layer, `numel`, `sigma_inv`, ghost history `hist` of the chosen gradient features
since the last `init_params`) with the operations `update` (`get_action`), `learn`, `mutate`
(`Mutations.mutation`: architecture change + hook), `clone`, `reload` (`save_checkpoint`/`load`; `loadFrom` = `load_checkpoint` into any agent).
The gradient feature is an input: the network and autograd are not modelled (the harness computes
it on the real network and checks the model's matrix against the real `sigma_inv`).

All theorems quantify over every `lamb > 0` (the constructor asserts it), every initial size and
every finite sequence of operations; matrices have no size bound.  `Sem` selects the meaning of
`lamb` at initialisation: `paper` (`sigma_inv₀ = I/lamb`, `Z₀ = lamb·I`: the property text) or
`code` (`sigma_inv₀ = lamb·I` as `init_params` writes it today, hence `Z₀ = I/lamb`);
both are covered, they coincide for the default `lamb = 1` (`C19_default_lambda_agrees`), and
`C19_code_lambda_witness` shows that the `code` variant is *not* the inverse of `lamb·I` for `lamb = 2`.
-/
open Matrix

namespace Bandit

/-- Sherman–Morrison on the executable matrices: if `B` is the inverse of `A` and the denominator
    `1 + vᵀBv` is non-zero, the updated matrix is the two-sided inverse of `A + v vᵀ`. -/
theorem C19_sherman_morrison (n : Nat) (A B : Mat) (v : Vec) (hA : WellShaped n A)
    (hB : WellShaped n B) (hv : v.length = n) (hAB : matMul n A B = identity n)
    (hd : smDenom B v ≠ 0) :
    matMul n (addOuter A v) (smUpdate B v) = identity n ∧
    matMul n (smUpdate B v) (addOuter A v) = identity n ∧
    WellShaped n (smUpdate B v) := by
  have hAB' : toMatrix n A * toMatrix n B = 1 := by
    rw [← toMatrix_matMul hA hB, hAB, toMatrix_identity]
  have hd' : 1 + toVec n v ᵥ* toMatrix n B ⬝ᵥ toVec n v ≠ 0 := by
    rw [← bonus_eq hB hv]; exact hd
  have hA' := addOuter_wellShaped hA hv
  have hB' := smUpdate_wellShaped v hB
  refine ⟨?_, ?_, hB'⟩
  · apply toMatrix_injective (matMul_wellShaped _ hA'.1) (identity_wellShaped n)
    rw [toMatrix_matMul hA' hB', toMatrix_identity, toMatrix_addOuter hA hv, toMatrix_smUpdate hB hv]
    exact BanditM.sm_right _ _ _ hAB' hd'
  · apply toMatrix_injective (matMul_wellShaped _ hB'.1) (identity_wellShaped n)
    rw [toMatrix_matMul hB' hA', toMatrix_identity, toMatrix_addOuter hA hv, toMatrix_smUpdate hB hv]
    exact BanditM.sm_left _ _ _ hAB' hd'

/-- After any sequence of operations, `sigma_inv` is exactly the (two-sided) inverse of
    `Z₀ + Σ g gᵀ` over the gradient features chosen since the matrix was last initialised
    (`a.gram = hist.foldl addOuter (z0 sem lamb numel)`), on the executable lists and, equivalently,
    as Mathlib's matrix inverse. -/
theorem C19_inverse_invariant (sem : Sem) (lamb : Rat) (hl : 0 < lamb) (n0 : Nat) (ops : List Op) :
    let a := (Agent.mk0 sem lamb n0).run ops
    matMul a.numel a.gram a.sigmaInv = identity a.numel ∧
    matMul a.numel a.sigmaInv a.gram = identity a.numel ∧
    toMatrix a.numel a.sigmaInv = (toMatrix a.numel a.gram)⁻¹ := by
  intro a
  have h : a.Good := Agent.good_run (Agent.good_mk0 sem hl n0) ops
  exact ⟨h.inverse_lists.1, h.inverse_lists.2, h.inv.eq_inv⟩

/-- the ghost history is what the statement says: empty right after `init_params` (constructor,
    every `Mutations.mutation`), extended by exactly the accepted features, kept by learn / clone /
    reload -/
theorem C19_history_tracks_choices (a : Agent) (g : Vec) (n' : Nat) :
    (a.mutate n').hist = [] ∧ a.learn.hist = a.hist ∧ a.clone.hist = a.hist ∧
    a.reload.hist = a.hist ∧
    (a.update g).hist = if a.accepts g then a.hist ++ [g] else a.hist := by
  refine ⟨rfl, rfl, by rw [Agent.clone_eq], by rw [Agent.reload_eq], ?_⟩
  unfold Agent.update; split <;> rfl

/-- with the `paper` semantics `Z₀` is literally `lamb × identity`, the matrix of the property text;
    `gram` is `Z₀` plus the outer products of the history, oldest first -/
theorem C19_paper_z0_is_lambda_identity (lamb : Rat) (n : Nat) (hist : List Vec) (g : Vec) :
    z0 .paper lamb n = scaledIdentity n lamb ∧ gram (z0 .paper lamb n) [] = scaledIdentity n lamb ∧
    gram (z0 .paper lamb n) (hist ++ [g]) = addOuter (gram (z0 .paper lamb n) hist) g :=
  ⟨rfl, rfl, gram_append _ _ _⟩

/-- for the default `lamb = 1` the two readings of `lamb` coincide -/
theorem C19_default_lambda_agrees (n : Nat) :
    sigma0 .code 1 n = sigma0 .paper 1 n ∧ z0 .code 1 n = z0 .paper 1 n := by
  simp [sigma0, z0]

/-- D16: as written today (`sigma_inv₀ = lamb · I`) the initial matrix is not the inverse of
    `lamb × identity` when `lamb = 2` -/
theorem C19_code_lambda_witness :
    ¬ (matMul 1 (scaledIdentity 1 2) (Agent.mk0 .code 2 1).sigmaInv = identity 1) := by decide +kernel

/-- `sigma_inv` stays symmetric -/
theorem C19_symmetric (sem : Sem) (lamb : Rat) (hl : 0 < lamb) (n0 : Nat) (ops : List Op) :
    let a := (Agent.mk0 sem lamb n0).run ops
    (∀ i j, i < a.numel → j < a.numel → a.sigmaInv.get i j = a.sigmaInv.get j i) ∧
    (toMatrix a.numel a.sigmaInv)ᵀ = toMatrix a.numel a.sigmaInv := by
  intro a
  have h : a.Good := Agent.good_run (Agent.good_mk0 sem hl n0) ops
  exact ⟨fun i j hi hj => h.symm_entries hi hj, h.inv.posDef.1⟩

/-- `sigma_inv` stays positive definite: `xᵀ sigma_inv x > 0` for every non-zero `x`, hence the
    denominator `1 + vᵀ sigma_inv v` of the next update is at least 1 (never singular) -/
theorem C19_posdef (sem : Sem) (lamb : Rat) (hl : 0 < lamb) (n0 : Nat) (ops : List Op) :
    let a := (Agent.mk0 sem lamb n0).run ops
    (∀ x : Vec, x.length = a.numel → (∃ c ∈ x, c ≠ 0) → 0 < bonus a.sigmaInv x) ∧
    (∀ v : Vec, v.length = a.numel → 1 ≤ smDenom a.sigmaInv v) ∧
    BanditM.PosDefQ (toMatrix a.numel a.sigmaInv) := by
  intro a
  have h : a.Good := Agent.good_run (Agent.good_mk0 sem hl n0) ops
  refine ⟨fun x hx hne => h.bonus_pos hx hne, fun v hv => ?_, h.inv.posDef⟩
  have := h.bonus_nonneg hv
  unfold smDenom; linarith

/-- the quantity under the square root of the exploration bonus, `gᵀ sigma_inv g`, is non-negative
    for every arm's feature `g` — the bonus `gamma · sqrt(…)` is defined and ≥ 0 -/
theorem C19_bonus_nonneg (sem : Sem) (lamb : Rat) (hl : 0 < lamb) (n0 : Nat) (ops : List Op)
    (g : Vec) :
    let a := (Agent.mk0 sem lamb n0).run ops
    g.length = a.numel → 0 ≤ bonus a.sigmaInv g := by
  intro a hg
  exact (Agent.good_run (Agent.good_mk0 sem hl n0) ops).bonus_nonneg hg

/-- after every operation `agent.numel` is the parameter count of the current output layer and
    `sigma_inv` is `numel × numel` — for every `lamb`, also after the layer was resized by a
    mutation, cloned or reloaded -/
theorem C19_size_matches_output_layer (sem : Sem) (lamb : Rat) (n0 : Nat) (ops : List Op) :
    let a := (Agent.mk0 sem lamb n0).run ops
    a.numel = a.outNumel ∧ a.sigmaInv.length = a.outNumel ∧ ∀ r ∈ a.sigmaInv, r.length = a.outNumel := by
  intro a
  have h : a.Sized := Agent.sized_run (Agent.sized_initParams _) ops
  refine ⟨h.1, ?_, ?_⟩
  · rw [← h.1]; exact h.2.1
  · rw [← h.1]; exact h.2.2

/-- loading a checkpoint into *any* agent of the same class — whatever the size of its own output
    layer and matrix — yields exactly the saved bookkeeping state (network rebuilt at the saved size,
    hook, attributes restored), so the size clause and the inverse invariant survive a reload -/
theorem C19_load_into_any_agent (target saved : Agent) (hs : target.sem = saved.sem) :
    target.loadFrom saved = saved ∧ (saved.Sized → (target.loadFrom saved).Sized) := by
  rw [Agent.loadFrom_eq target saved hs]; exact ⟨rfl, id⟩

/-- the size clause rests on the mutation hook: an architecture change *without* `init_params`
    leaves a 2×2 matrix beside a 3-parameter layer, and `get_action` is then rejected -/
theorem C19_hook_needed_witness :
    ¬ ((Agent.mk0 .code 1 2).setArch 3).Sized ∧
    ((Agent.mk0 .code 1 2).setArch 3).accepts [1, 2, 3] = false ∧
    ((Agent.mk0 .code 1 2).mutate 3).Sized := by decide +kernel

/-! ### non-vacuity: concrete histories satisfy the hypotheses, conclusions are the expected values -/

/-- λ = 2 (paper reading), two decisions in dimension 2 -/
example : ((Agent.mk0 .paper 2 2).run [.update [1, 1/2], .learn, .update [0, 3]]).sigmaInv
    = [[45/134, -1/67], [-1/67, 6/67]] := by decide +kernel
example : ((Agent.mk0 .paper 2 2).run [.update [1, 1/2], .learn, .update [0, 3]]).gram
    = [[3, 1/2], [1/2, 45/4]] := by decide +kernel
/-- `C19_sherman_morrison`'s hypotheses hold on a non-trivial instance -/
example : WellShaped 2 [[3, 1/2], [1/2, 9/4]] ∧
    matMul 2 [[3, 1/2], [1/2, 9/4]] [[9/26, -1/13], [-1/13, 6/13]] = identity 2 ∧
    smDenom [[9/26, -1/13], [-1/13, 6/13]] [0, 3] ≠ 0 := by decide +kernel
/-- mutate (resize 2 → 3 with the hook), decide, clone, reload, decide again -/
def demo : Agent := (Agent.mk0 .code (1/2) 2).run
  [.update [1, 0], .mutate 3, .update [1, 1, 0], .clone, .reload, .update [0, 0, 2]]
example : demo.numel = 3 ∧ demo.hist = [[1, 1, 0], [0, 0, 2]] ∧ demo.checkInverse = true ∧
    isSymm demo.sigmaInv = true ∧ demo.sigmaInv = [[3/8, -1/8, 0], [-1/8, 3/8, 0], [0, 0, 1/6]] := by
  decide +kernel
/-- a 2-parameter agent loads the checkpoint of a 3-parameter one -/
example : ((Agent.mk0 .code (1/2) 2).update [1, 1]).loadFrom demo = demo := by decide +kernel
/-- a feature of the wrong length is rejected and changes nothing -/
example : (Agent.mk0 .paper 1 2).update [1, 2, 3] = Agent.mk0 .paper 1 2 := by decide +kernel

end Bandit
