import Proofs.LoopGen
import Proofs.LoopLearn
import Proofs.LoopGenEq
import Proofs.EvoStepGenEq

/-!
# C20 — training loops keep step and population accounting right

Model: `Model/Loop.lean` — the generation loop of the six training functions exactly as coded
(`whileStep` = one trip round the `while`, `run` = any number of trips, driven by an arbitrary list
of per-generation inputs: hyper-parameter values in force, tournament outcome, mutation flags,
early-stop bit).  Every theorem quantifies over all configurations (`evo_steps`, `num_envs`,
`max_steps`, `learn_step`, … arbitrary naturals), all populations and all input histories.

What is *not* here: that `learn`, `test`, `clone`, `save_checkpoint` of the real algorithms accept
what the loops hand them.  That part of C20 is integration behaviour; it is exercised by the
correspondence harness, whose extracted compatibility table is checked by `C20_compat_table`.
-/
namespace Loop

/-! ### 1. step counters = environment steps -/

/-- every agent's `steps[-1]` equals the environment steps its lineage took, and those are
    `stride` (= `num_envs`; 1 for bandits / offline) per rollout iteration executed -/
def Accounted (c : Cfg) (s : St) : Prop :=
  ∀ a ∈ s.pop, a.cur = a.env ∧ a.env = stride c * a.its

/-- after any number of generations — whatever `evo_steps`, `num_envs`, `max_steps`, whether or not
    `num_envs` divides `evo_steps`, with or without selection/mutation — each agent's step counter
    is the number of environment steps actually taken = `num_envs` × iterations executed -/
theorem C20_steps_equal_env_steps (c : Cfg) (s : St) (ins : List GenIn) (h : Accounted c s) :
    Accounted c (run c s ins) := by
  refine run_invariant c (Accounted c) ?_ ins s h
  intro s i hs _ _ x hx
  obtain ⟨a, ha, t⟩ := genBody_mem c s i x hx
  obtain ⟨h1, h2⟩ := hs a ha
  refine ⟨by rw [t.cur, t.env, h1], ?_⟩
  rw [t.env, t.its, h2, Nat.mul_add]

/-- what one generation adds to a counter, off-policy loops: `(evo_steps // num_envs) · num_envs`
    — at most `evo_steps`, short of it by less than `num_envs`, exactly `evo_steps` when `num_envs`
    divides it, and **zero** when `num_envs > evo_steps` -/
theorem C20_generation_increment_off (c : Cfg) (a : Agent) (hk : c.kind = .off ∨ c.kind = .maoff)
    (hne : 0 < c.numEnvs) :
    stride c * agentIters c a ≤ c.evoSteps ∧ c.evoSteps < stride c * agentIters c a + c.numEnvs ∧
    (c.numEnvs ∣ c.evoSteps → stride c * agentIters c a = c.evoSteps) ∧
    (c.evoSteps < c.numEnvs → stride c * agentIters c a = 0) := by
  have e : stride c * agentIters c a = c.numEnvs * (c.evoSteps / c.numEnvs) := by
    rcases hk with hk | hk <;> simp [stride, agentIters, hk]
  rw [e]
  have h1 := Nat.div_add_mod c.evoSteps c.numEnvs
  have h2 := Nat.mod_lt c.evoSteps hne
  refine ⟨by omega, by omega, ?_, ?_⟩
  · intro hd; exact Nat.mul_div_cancel' hd
  · intro hlt; rw [Nat.div_eq_of_lt hlt]; rfl

theorem le_ceilDiv_mul (a b : Nat) (hb : 0 < b) : a ≤ ceilDiv a b * b :=
  (ceilDiv_le_iff a b (ceilDiv a b) hb).mp (Nat.le_refl _)

/-- on-policy loops overshoot instead: a generation adds
    `ceil(evo_steps / learn_step) · ceil(learn_step / num_envs) · num_envs ≥ evo_steps` -/
theorem C20_generation_increment_on (c : Cfg) (a : Agent) (hk : c.kind = .on ∨ c.kind = .maon)
    (hne : 0 < c.numEnvs) (hls : 0 < a.ls) : c.evoSteps ≤ stride c * agentIters c a := by
  have e : stride c * agentIters c a =
      ceilDiv c.evoSteps a.ls * (ceilDiv a.ls c.numEnvs * c.numEnvs) := by
    rcases hk with hk | hk <;> simp only [stride, agentIters, hk] <;> ring
  rw [e]
  exact le_trans (le_ceilDiv_mul c.evoSteps a.ls hls)
    (Nat.mul_le_mul_left _ (le_ceilDiv_mul a.ls c.numEnvs hne))

/-! ### 2. the loop stops in the first generation in which the budget is met -/

theorem le_sumCur : ∀ (pop : List Agent) (a : Agent), a ∈ pop → a.cur ≤ sumCur pop
  | [], _, h => by cases h
  | b :: r, a, h => by
    simp only [sumCur, List.map_cons, List.sum_cons]
    rcases List.mem_cons.mp h with rfl | h
    · omega
    · have := le_sumCur r a h
      simp only [sumCur] at this
      omega

/-- the `while` condition is the negation of the documented budget: per agent ("some agent has
    done `max_steps`") for five loops, summed over the population for `train_multi_agent_on_policy` -/
theorem cond_iff_not_budgetMet (c : Cfg) (pop : List Agent) :
    cond c pop = true ↔ ¬ budgetMet c pop := by
  unfold cond budgetMet
  cases c.kind <;> simp [List.all_eq_true]

/-- a further generation is executed iff the function has not returned and the budget is not yet
    met; once it is met nothing runs any more, whatever inputs follow: the loop stops in the first
    generation in which the budget is met -/
theorem C20_stops_first_generation_over_budget (c : Cfg) (s : St) (i : GenIn) :
    ((whileStep c s i).gens = s.gens + 1 ↔ (s.halted = false ∧ ¬ budgetMet c s.pop)) ∧
    (budgetMet c s.pop → ∀ ins, run c s ins = s) := by
  constructor
  · rcases whileStep_cases c s i with ⟨e, hstop⟩ | ⟨e, hh, hc⟩
    · rw [e]
      constructor
      · intro h; omega
      · rintro ⟨hh, hb⟩
        rcases hstop with h | h
        · rw [hh] at h; cases h
        · have := (cond_iff_not_budgetMet c s.pop).mpr hb
          rw [h] at this; cases this
    · rw [e, genBody_gens]
      exact ⟨fun _ => ⟨hh, (cond_iff_not_budgetMet c s.pop).mp hc⟩, fun _ => rfl⟩
  · intro hb ins
    have hc : cond c s.pop = false := by
      cases h : cond c s.pop
      · rfl
      · exact absurd hb ((cond_iff_not_budgetMet c s.pop).mp h)
    induction ins with
    | nil => rfl
    | cons i ins ih =>
      rw [run_cons]
      have : whileStep c s i = s := by simp [whileStep, hc]
      rw [this]; exact ih

/-! ### 3. termination -/

/-- every generation moves every counter: the side condition under which the loops terminate -/
def Progress (c : Cfg) : Prop :=
  match c.kind with
  | .off | .maoff => 0 < c.numEnvs ∧ c.numEnvs ≤ c.evoSteps
  | .on | .maon => 0 < c.numEnvs ∧ 0 < c.evoSteps
  | .offline => 0 < c.evoSteps
  | .bandit => 0 < c.episodeSteps

theorem ceilDiv_pos (a b : Nat) (ha : 0 < a) (hb : 0 < b) : 0 < ceilDiv a b := by
  unfold ceilDiv; exact Nat.div_pos (by omega) hb

theorem progress_pos (c : Cfg) (x : Agent) (hp : Progress c) (hls : 1 ≤ x.ls) :
    1 ≤ stride c * agentIters c x := by
  unfold Progress at hp
  unfold stride agentIters
  cases hk : c.kind <;> simp only [hk] at hp ⊢
  · exact Nat.mul_pos hp.1 (Nat.div_pos hp.2 hp.1)
  · exact Nat.mul_pos hp.1 (Nat.mul_pos (ceilDiv_pos _ _ hp.2 hls) (ceilDiv_pos _ _ hls hp.1))
  · omega
  · omega
  · exact Nat.mul_pos hp.1 (Nat.div_pos hp.2 hp.1)
  · exact Nat.mul_pos hp.1 (Nat.mul_pos (ceilDiv_pos _ _ hp.2 hls) (ceilDiv_pos _ _ hls hp.1))

/-- inputs a run can really see: learn steps ≥ 1, tournaments configured for the population size -/
def InsOk (c : Cfg) (n : Nat) (ins : List GenIn) : Prop :=
  ∀ i ∈ ins, (∀ h ∈ i.hp, 1 ≤ h.1) ∧ ∀ sel, i.sel = some sel → sel.valid c.elitism n

theorem genSelect_length (c : Cfg) (s : St) (i : GenIn)
    (hv : ∀ sel, i.sel = some sel → sel.valid c.elitism s.pop.length) :
    (genSelect c s i).pop.length = s.pop.length := by
  unfold genSelect
  cases hs : i.sel with
  | none => rfl
  | some sel =>
    simp only
    split
    · simp only [mutate_length]; exact select_length c s.pop sel (hv sel hs)
    · rfl

theorem genBody_length (c : Cfg) (s : St) (i : GenIn)
    (hv : ∀ sel, i.sel = some sel → sel.valid c.elitism s.pop.length) :
    (genBody c s i).pop.length = s.pop.length := by
  unfold genBody
  simp only
  split
  · exact genTrain_length c s i.hp
  · rw [genCheckpoint_pop, genSelect_length c _ i (by rw [genTrain_length]; exact hv), genTrain_length]

theorem run_stopped (c : Cfg) (s : St) (h : s.halted = true ∨ cond c s.pop = false) :
    ∀ ins, run c s ins = s
  | [] => rfl
  | i :: ins => by
    rw [run_cons]
    have : whileStep c s i = s := by
      rcases h with h | h <;> simp [whileStep, h]
    rw [this]; exact run_stopped c s h ins

/-- the loop has returned: early stop, or the `while` condition is false -/
def Stopped (c : Cfg) (s : St) : Prop := s.halted = true ∨ budgetMet c s.pop

theorem terminates_aux (c : Cfg) (n : Nat) (hp : Progress c) :
    ∀ (ins : List GenIn) (s : St) (k : Nat), s.pop.length = n →
      (∀ a ∈ s.pop, 1 ≤ a.ls ∧ k ≤ a.cur) → InsOk c n ins →
      Stopped c (run c s ins) ∨
      ((run c s ins).pop.length = n ∧ ∀ a ∈ (run c s ins).pop, 1 ≤ a.ls ∧ k + ins.length ≤ a.cur)
  | [], s, k, hn, hq, _ => by
    right; simp only [run_nil, List.length_nil, Nat.add_zero]; exact ⟨hn, hq⟩
  | i :: ins, s, k, hn, hq, hok => by
    rw [run_cons]
    rcases whileStep_cases c s i with ⟨e, hstop⟩ | ⟨e, hh, hc⟩
    · left
      rw [e, run_stopped c s hstop ins]
      rcases hstop with h | h
      · exact Or.inl h
      · right
        by_contra hb
        have := (cond_iff_not_budgetMet c s.pop).mpr hb
        rw [h] at this; cases this
    · rw [e]
      obtain ⟨hhp, hsel⟩ := hok i (by simp)
      have hlen : (genBody c s i).pop.length = n := by
        rw [genBody_length c s i (by rw [hn]; exact hsel), hn]
      have hq' : ∀ a ∈ (genBody c s i).pop, 1 ≤ a.ls ∧ k + 1 ≤ a.cur := by
        intro x hx
        obtain ⟨a, ha, t⟩ := genBody_mem c s i x hx
        obtain ⟨hl, hk⟩ := hq a ha
        have hxl : 1 ≤ x.ls := by
          rcases t.hp with ⟨h1, _⟩ | h2
          · omega
          · exact hhp _ h2
        have := progress_pos c x hp hxl
        exact ⟨hxl, by rw [t.cur]; omega⟩
      have := terminates_aux c n hp ins (genBody c s i) (k + 1) hlen hq'
        (fun j hj => hok j (by simp [hj]))
      rcases this with h | ⟨h1, h2⟩
      · exact Or.inl h
      · refine Or.inr ⟨h1, fun a ha => ?_⟩
        have := h2 a ha
        simp only [List.length_cons]
        omega

/-- **termination** under the side condition that every generation adds at least one step to every
    counter (`num_envs ≤ evo_steps` for the off-policy loops): whatever the tournaments and
    mutations do, the loop has returned after at most `max_steps` generations.
    Partial: without the side condition the statement is false, see `C20_terminates_witness`. -/
theorem C20_terminates_partial (c : Cfg) (s : St) (ins : List GenIn) (hp : Progress c)
    (hn : 0 < s.pop.length) (hls : ∀ a ∈ s.pop, 1 ≤ a.ls) (hok : InsOk c s.pop.length ins)
    (hlen : c.maxSteps ≤ ins.length) : Stopped c (run c s ins) := by
  rcases terminates_aux c s.pop.length hp ins s 0 rfl (fun a ha => ⟨hls a ha, Nat.zero_le _⟩) hok with h | ⟨h1, h2⟩
  · exact h
  · right
    obtain ⟨a, ha⟩ := List.exists_mem_of_length_pos (by rw [h1]; exact hn)
    have hcur : c.maxSteps ≤ a.cur := by have := (h2 a ha).2; omega
    unfold budgetMet
    cases hk : c.kind <;> simp only
    case maon => exact le_trans hcur (le_sumCur _ a ha)
    all_goals exact ⟨a, ha, hcur⟩

/-- the complement: when `num_envs > evo_steps` the off-policy loops perform `evo_steps // num_envs = 0`
    iterations per generation, no counter ever moves, and the `while` condition stays true for ever
    (with or without tournaments; only the early-stop branch could leave the loop) -/
theorem C20_zero_iteration_never_stops (c : Cfg) (hk : c.kind = .off ∨ c.kind = .maoff)
    (hlt : c.evoSteps < c.numEnvs) (s : St) (ins : List GenIn)
    (hrun : s.halted = false ∧ ∀ a ∈ s.pop, a.cur < c.maxSteps) (hne : ∀ i ∈ ins, i.above = false) :
    (run c s ins).halted = false ∧ (∀ a ∈ (run c s ins).pop, a.cur < c.maxSteps) ∧
    cond c (run c s ins).pop = true := by
  have key : ∀ (ins : List GenIn) (s : St), (∀ i ∈ ins, i.above = false) →
      (s.halted = false ∧ ∀ a ∈ s.pop, a.cur < c.maxSteps) →
      ((run c s ins).halted = false ∧ ∀ a ∈ (run c s ins).pop, a.cur < c.maxSteps) := by
    intro ins
    induction ins with
    | nil => intro s _ h; exact h
    | cons i ins ih =>
      intro s hab h
      rw [run_cons]
      apply ih _ (fun j hj => hab j (by simp [hj]))
      rcases whileStep_cases c s i with ⟨e, _⟩ | ⟨e, _, _⟩
      · rw [e]; exact h
      · rw [e]
        constructor
        · have hi := hab i (by simp)
          unfold genBody
          simp only [earlyStop, hi, Bool.false_and]
          simp [genCheckpoint_halted, genSelect_halted, genTrain_halted, h.1]
        · intro x hx
          obtain ⟨a, ha, t⟩ := genBody_mem c s i x hx
          have := (C20_generation_increment_off c x hk (by omega)).2.2.2 hlt
          rw [t.cur, this]
          exact h.2 a ha
  obtain ⟨h1, h2⟩ := key ins s hne hrun
  refine ⟨h1, h2, ?_⟩
  unfold cond
  rcases hk with hk | hk <;> simp only [hk, List.all_eq_true, decide_eq_true_eq] <;> exact h2

/-- the configuration replayed on the real `train_off_policy` (with a wall-clock guard) -/
def witnessCfg : Cfg := { kind := .off, maxSteps := 10, evoSteps := 3, numEnvs := 4, cap := 64 }
def witnessSt : St := { pop := [{ index := 0 }, { index := 1 }] }

/-- non-termination witness: `train_off_policy(max_steps=10, evo_steps=3)` on a 4-env vector
    environment never returns — no number of generations stops it -/
theorem C20_terminates_witness :
    ¬ ∃ G : Nat, Stopped witnessCfg (run witnessCfg witnessSt (List.replicate G {})) := by
  rintro ⟨G, hstop⟩
  obtain ⟨h1, _, h3⟩ := C20_zero_iteration_never_stops witnessCfg (Or.inl rfl) (by decide) witnessSt
    (List.replicate G {}) ⟨rfl, by decide⟩ (fun i hi => by rw [List.eq_of_mem_replicate hi])
  rcases hstop with h | h
  · rw [h1] at h; cases h
  · exact (cond_iff_not_budgetMet _ _).mp h3 h

/-! ### 4. one fitness entry per agent and generation -/

/-- every agent carries `f0 + gens` fitness entries and a `steps` list of `h0 + gens` (+1) entries,
    `gens` = number of entries of the returned `pop_fitnesses` -/
def FitInv (f0 h0 : Nat) (s : St) : Prop :=
  ∀ a ∈ s.pop, a.fit = f0 + s.gens ∧ a.past.length = h0 + s.gens

theorem C20_one_fitness_per_generation (c : Cfg) (f0 h0 : Nat) (s : St) (ins : List GenIn)
    (h : FitInv f0 h0 s) : FitInv f0 h0 (run c s ins) ∧ (run c s ins).gens ≤ s.gens + ins.length := by
  constructor
  · refine run_invariant c (FitInv f0 h0) ?_ ins s h
    intro s i hs _ _ x hx
    obtain ⟨a, ha, t⟩ := genBody_mem c s i x hx
    obtain ⟨h1, h2⟩ := hs a ha
    rw [genBody_gens, t.fit, t.past, List.length_cons, h1, h2]
    exact ⟨by omega, by omega⟩
  · induction ins generalizing s with
    | nil => simp [run]
    | cons i ins ih =>
      rw [run_cons]
      have hstep : (whileStep c s i).gens ≤ s.gens + 1 := by
        rcases whileStep_cases c s i with ⟨e, _⟩ | ⟨e, _, _⟩
        · rw [e]; omega
        · rw [e, genBody_gens]
      have hinv : FitInv f0 h0 (whileStep c s i) := by
        have := run_invariant c (FitInv f0 h0) (by
          intro s i hs _ _ x hx
          obtain ⟨a, ha, t⟩ := genBody_mem c s i x hx
          obtain ⟨h1, h2⟩ := hs a ha
          rw [genBody_gens, t.fit, t.past, List.length_cons, h1, h2]
          exact ⟨by omega, by omega⟩) [i] s h
        simpa [run] using this
      have := ih (whileStep c s i) hinv
      simp only [List.length_cons]
      omega

/-! ### 5. population size and indices -/

theorem genBody_indices (c : Cfg) (s : St) (i : GenIn) (h : (s.pop.map (·.index)).Nodup) :
    ((genBody c s i).pop.map (·.index)).Nodup := by
  unfold genBody
  simp only
  split
  · simp only [genTrain_index]; exact h
  · rw [genCheckpoint_pop]
    unfold genSelect
    cases hs : i.sel with
    | none => simp only [genTrain_index]; exact h
    | some sel =>
      simp only
      split
      · simp only [mutate_index]; exact select_indices_nodup c _ sel
      · simp only [genTrain_index]; exact h

/-- the population keeps its size and pairwise distinct indices through any number of generations
    (tournaments configured with `population_size = len(pop)`) -/
theorem C20_population_size_indices (c : Cfg) (n : Nat) :
    ∀ (ins : List GenIn) (s : St), s.pop.length = n → (s.pop.map (·.index)).Nodup →
      (∀ i ∈ ins, ∀ sel, i.sel = some sel → sel.valid c.elitism n) →
      (run c s ins).pop.length = n ∧ ((run c s ins).pop.map (·.index)).Nodup
  | [], s, hn, hd, _ => ⟨hn, hd⟩
  | i :: ins, s, hn, hd, hv => by
    rw [run_cons]
    have hv' : ∀ j ∈ ins, ∀ sel, j.sel = some sel → sel.valid c.elitism n :=
      fun j hj => hv j (by simp [hj])
    rcases whileStep_cases c s i with ⟨e, _⟩ | ⟨e, _, _⟩
    · rw [e]; exact C20_population_size_indices c n ins s hn hd hv'
    · rw [e]
      refine C20_population_size_indices c n ins _ ?_ (genBody_indices c s i hd) hv'
      rw [genBody_length c s i (by rw [hn]; exact hv i (by simp)), hn]

/-! ### 6. the elite is carried -/

/-- with elitism the best agent (slot `sel.elite` of the evaluated population) is slot 0 of the
    selected population, unchanged — always; it is still unchanged after `Mutations.mutation` when
    `mutate_elite = False`; and the checkpoint step does not touch the population, so this is the
    agent the next generation starts from -/
theorem C20_elite_carried (c : Cfg) (s : St) (i : GenIn) (sel : Sel) (hsel : i.sel = some sel)
    (hel : c.elitism = true) (hgate : selGate c s s.pop = true) (he : sel.elite < s.pop.length) :
    (select c s.pop sel).head? = s.pop[sel.elite]? ∧
    (c.mutateElite = false →
      (genCheckpoint c (genSelect c s i)).pop.head? = s.pop[sel.elite]?) := by
  refine ⟨select_head c s.pop sel hel he, fun hm => ?_⟩
  rw [genCheckpoint_pop]
  unfold genSelect
  simp only [hsel, hgate, if_true]
  rw [mutate_head c _ _ _ hm, select_head c s.pop sel hel he]

/-! ### 7. learn calls per rollout -/

/-- closed formulas for the number of `learn` calls of one agent's rollout:
    * `train_off_policy` (uniform / prioritised memory holding `m.len` transitions at the start):
      `learnCallsOff` — a function of `evo_steps`, `num_envs`, `learn_step`, `batch_size`,
      `learning_delay`, the capacity and the fill level only;
    * on-policy loops: `ceil(evo_steps / learn_step)`;  * `train_offline`: `evo_steps` -/
theorem C20_learn_call_count (c : Cfg) (a : Agent) (m : Mem) :
    (c.kind = .off → c.nStep < 2 → 0 < c.numEnvs → m.len ≤ c.cap →
      (rollout c a m).learns = learnCallsOff c a m.len) ∧
    (c.kind = .on ∨ c.kind = .maon → (rollout c a m).learns = ceilDiv c.evoSteps a.ls) ∧
    (c.kind = .offline → (rollout c a m).learns = c.evoSteps) := by
  refine ⟨fun hk hn hne hcap => ?_, fun hk => ?_, fun hk => ?_⟩
  · rw [learnCallsOff_eq]
    simp only [rollout, hk]
    exact (iterate_offStep_learns c a m hk hn hne hcap _).2
  · rcases hk with hk | hk <;> simp only [rollout, hk] <;>
      simpa using (iterate_onOuter c a (ceilDiv c.evoSteps a.ls) { m := m }).2.2.2.1
  · simp only [rollout, hk]
    simpa using (iterate_offlineStep c.evoSteps { m := m }).2.2.1

/-- steady state (the memory already holds a batch and more than `learning_delay` transitions after
    the first add): `learn_step ≤ num_envs` ⇒ `num_envs // learn_step` learns per rollout iteration;
    `learn_step > num_envs` ⇒ one learn every `learn_step // num_envs` iterations -/
theorem C20_learn_call_count_steady (c : Cfg) (a : Agent) (m0 : Nat) (hne : 0 < c.numEnvs)
    (hopen : max a.bs (c.delay + 1) ≤ m0 + c.numEnvs) (hcap : max a.bs (c.delay + 1) ≤ c.cap) :
    learnCallsOff c a m0 =
      if c.numEnvs < a.ls then ceilDiv (c.evoSteps / c.numEnvs) (a.ls / c.numEnvs)
      else (c.evoSteps / c.numEnvs) * (c.numEnvs / a.ls) := by
  have h0 : firstOpen (max a.bs (c.delay + 1)) m0 c.numEnvs = 0 := by
    have := (open_iff (max a.bs (c.delay + 1)) m0 c.numEnvs 0 hne).mp (by simpa using hopen)
    omega
  unfold learnCallsOff
  simp only [h0, Nat.zero_min, Nat.sub_zero, multiplesIn, show ¬ c.cap < max a.bs (c.delay + 1) by omega,
    if_false]
  split
  · next hls =>
    have hk : 0 < a.ls / c.numEnvs := Nat.div_pos (by omega) hne
    have : ceilDiv 0 (a.ls / c.numEnvs) = 0 := by
      unfold ceilDiv; exact Nat.div_eq_of_lt (by omega)
    rw [this, Nat.sub_zero]
  · rfl

/-! ### 8. compatibility table -/

/-- lifting lemma: a table that passes the executable check has every claimed row accepted -/
theorem tableOk_spec (t : List Row) (h : tableOk t = true) :
    ∀ r ∈ t, claimed r = true → r.accepted = true := by
  intro r hr hc
  have := (List.all_eq_true.mp h) r hr
  simpa [rowOk, hc] using this

/-- every (loop, algorithm, memory) combination the training functions claim to support appears in
    the table extracted from the (repaired) tree and its batch form is accepted by `learn` -/
theorem C20_compat_table :
    tableComplete extractedTable = true ∧
    ∀ r ∈ extractedTable, claimed r = true → r.accepted = true :=
  ⟨by decide, tableOk_spec extractedTable (by decide)⟩

/-! ### non-vacuity -/

/-- a 2-agent off-policy run: 4 envs, `evo_steps = 10` (not a multiple of 4), `max_steps = 20`,
    elitist tournament after every generation -/
def exCfg : Cfg := { kind := .off, maxSteps := 20, evoSteps := 10, numEnvs := 4, cap := 32, checkpoint := 8,
                     mutateElite := false }
def exSt : St := { pop := [{ index := 0, ls := 2, bs := 8 }, { index := 1, ls := 8, bs := 8, tag := 1 }] }
def exIn : GenIn := { sel := some { elite := 1, parents := [0] }, mutated := [true, true] }

example : Accounted exCfg exSt := by unfold Accounted; decide
example : Progress exCfg := by simp [Progress, exCfg]
example : InsOk exCfg exSt.pop.length [exIn, exIn, exIn] := by
  intro i hi
  have : i = exIn := by simpa using hi
  subst this
  refine ⟨by simp [exIn], fun sel h => ?_⟩
  have : sel = { elite := 1, parents := [0] } := by simpa [exIn] using h.symm
  subst this; decide
example : FitInv 0 0 exSt := by unfold FitInv; decide
-- three generations of 8 steps each: 8, 16, 24 ≥ 20; a fourth trip does nothing
example : (run exCfg exSt [exIn, exIn, exIn, exIn]).pop.map (·.cur) = [24, 24] := by decide
example : (run exCfg exSt [exIn, exIn, exIn, exIn]).gens = 3 := by decide
example : (run exCfg exSt [exIn, exIn, exIn, exIn]).pop.map (·.index) = [3, 4] := by decide
example : (run exCfg exSt [exIn, exIn, exIn, exIn]).learns = [[4, 1], [1, 4], [2, 1]] := by decide
example : (run exCfg exSt [exIn]).saved = [[8, 8]] := by decide
-- the elite (slot 1, tag 1) arrives in slot 0 unchanged; with mutate_elite = True it does not
example : ((run exCfg exSt [exIn]).pop.map (·.tag)) = [1, 1001] := by decide
example : ((run { exCfg with mutateElite := true } exSt [exIn]).pop.map (·.tag)) = [1000, 1001] := by decide
-- per-agent budget: the loop stops although agent 1 has done 40 < 60 steps
example : cond { kind := .off, maxSteps := 60 } [{ cur := 60 }, { cur := 40 }] = false := by decide
-- summed budget of train_multi_agent_on_policy: 40 + 40 ≥ 60 stops, 20 + 20 does not
example : cond { kind := .maon, maxSteps := 60 } [{ cur := 40 }, { cur := 40 }] = false := by decide
example : cond { kind := .maon, maxSteps := 60 } [{ cur := 20 }, { cur := 20 }] = true := by decide
-- the unrepaired tree: TD3.learn rejects the sampler's TensorDict, the table check fails
example : tableOk [⟨"off", "TD3", "uniform", "tensordict", false⟩] = false := by decide
example : learnCallsOff exCfg { ls := 2, bs := 8 } 0 = 2 := by decide

/-! ### 9. source translation

`Gen/LoopGen.lean` is generated by `harness/py2lean_loop.py` from the source text of the six training functions
(loop structure, integer counters, budget test, learn scheduling, events in order; everything else sliced away after
checking that it cannot write a counter).  `Proofs/LoopGenEq.lean` proves every generated loop equal to the model
(`genRun_eq`); the main theorems are restated here over the generated loops.  `genRun k` / `genStep k` / `genCond k`
select the generated `run` / `whileStep` / `cond` of the training function of kind `k`. -/

open LoopGenEq in
/-- the six generated training functions, run on arbitrary per-generation inputs, are the model's `run`
    (tournament and mutation objects are arguments of the function: present in every generation or in none) -/
theorem C20_source_translation_run_eq (c : Cfg) (tm : Bool) (ins : List GenIn) (s : LoopGen.St Mem Nat)
    (h : ∀ i ∈ ins, i.sel.isSome = tm) :
    stM c.kind (genRun c.kind (params c tm true) (ops c) s (ins.map (genIn c))) = run c (stM c.kind s) ins :=
  genRun_eq c tm ins s h

/-- environment steps / `env.step` calls of a generated agent's lineage (`train_offline` performs no environment
    step: its counter counts learn steps) -/
def gEnv (k : Kind) (a : LoopGen.Agent) : Nat := if k = .offline then a.env + a.learns else a.env
def gIts (k : Kind) (a : LoopGen.Agent) : Nat := if k = .offline then a.its + a.learns else a.its

/-- over the generated code: after any number of generations of any of the six training functions, every agent's
    `steps[-1]` equals the environment steps its lineage took = `num_envs` × `env.step` calls -/
theorem C20_source_translation_steps_equal_env_steps (c : Cfg) (tm : Bool) (ins : List GenIn)
    (s : LoopGen.St Mem Nat) (hin : ∀ i ∈ ins, i.sel.isSome = tm)
    (h : ∀ a ∈ s.pop, a.cur = gEnv c.kind a ∧ gEnv c.kind a = stride c * gIts c.kind a) :
    ∀ a ∈ (LoopGenEq.genRun c.kind (LoopGenEq.params c tm true) (LoopGenEq.ops c) s (ins.map (LoopGenEq.genIn c))).pop,
      a.cur = gEnv c.kind a ∧ gEnv c.kind a = stride c * gIts c.kind a := by
  have hacc : Accounted c (LoopGenEq.stM c.kind s) := by
    intro x hx
    simp only [LoopGenEq.stM, List.mem_map] at hx
    obtain ⟨a, ha, rfl⟩ := hx
    exact h a ha
  have := C20_steps_equal_env_steps c _ ins hacc
  rw [← LoopGenEq.genRun_eq c tm ins s hin] at this
  intro a ha
  exact this (LoopGenEq.toM c.kind a) (by simp only [LoopGenEq.stM]; exact List.mem_map_of_mem ha)

/-- the documented budget over a generated population -/
def gBudgetMet (c : Cfg) (pop : List LoopGen.Agent) : Prop :=
  match c.kind with
  | .maon => c.maxSteps ≤ (pop.map (·.cur)).sum
  | _ => ∃ a ∈ pop, c.maxSteps ≤ a.cur

theorem gBudgetMet_iff (c : Cfg) (pop : List LoopGen.Agent) :
    gBudgetMet c pop ↔ budgetMet c (pop.map (LoopGenEq.toM c.kind)) := by
  unfold gBudgetMet budgetMet
  cases c.kind <;> simp [sumCur, List.map_map, Function.comp_def]

/-- over the generated code: a further generation runs iff the function has not returned and the budget (per
    agent; summed for `train_multi_agent_on_policy`) is unmet, and once it is met nothing runs any more — the
    generated loop stops in the first generation in which the budget is met -/
theorem C20_source_translation_stops_first_generation_over_budget (c : Cfg) (s : LoopGen.St Mem Nat) (i : GenIn) :
    ((LoopGenEq.genStep c.kind (LoopGenEq.params c i.sel.isSome true) (LoopGenEq.ops c) (LoopGenEq.genIn c i) s).gens
        = s.gens + 1 ↔ (s.halted = false ∧ ¬ gBudgetMet c s.pop)) ∧
    (gBudgetMet c s.pop → ∀ (tm : Bool) (ins : List (LoopGen.GenIn Nat)),
      LoopGenEq.genRun c.kind (LoopGenEq.params c tm true) (LoopGenEq.ops c) s ins = s) := by
  constructor
  · have h := (C20_stops_first_generation_over_budget c (LoopGenEq.stM c.kind s) i).1
    rw [← LoopGenEq.genStep_eq c i s] at h
    rw [gBudgetMet_iff]
    exact h
  · intro hb tm ins
    apply LoopGenEq.genRun_stop
    rw [LoopGenEq.genCond_eq]
    have : cond c (s.pop.map (LoopGenEq.toM c.kind)) = false := by
      cases hc : cond c (s.pop.map (LoopGenEq.toM c.kind))
      · rfl
      · exact absurd ((gBudgetMet_iff c s.pop).mp hb) ((cond_iff_not_budgetMet c _).mp hc)
    simp [this]

/-- over the generated code: one fitness entry and one `steps` entry per agent and executed generation -/
theorem C20_source_translation_one_fitness_per_generation (c : Cfg) (tm : Bool) (f0 h0 : Nat)
    (s : LoopGen.St Mem Nat) (ins : List GenIn) (hin : ∀ i ∈ ins, i.sel.isSome = tm)
    (h : ∀ a ∈ s.pop, a.fit = f0 + s.gens ∧ a.past.length = h0 + s.gens) :
    let r := LoopGenEq.genRun c.kind (LoopGenEq.params c tm true) (LoopGenEq.ops c) s (ins.map (LoopGenEq.genIn c))
    (∀ a ∈ r.pop, a.fit = f0 + r.gens ∧ a.past.length = h0 + r.gens) ∧ r.gens ≤ s.gens + ins.length := by
  have hinv : FitInv f0 h0 (LoopGenEq.stM c.kind s) := by
    intro x hx
    simp only [LoopGenEq.stM, List.mem_map] at hx
    obtain ⟨a, ha, rfl⟩ := hx
    exact h a ha
  obtain ⟨h1, h2⟩ := C20_one_fitness_per_generation c f0 h0 _ ins hinv
  rw [← LoopGenEq.genRun_eq c tm ins s hin] at h1 h2
  refine ⟨fun a ha => ?_, h2⟩
  exact h1 (LoopGenEq.toM c.kind a) (by simp only [LoopGenEq.stM]; exact List.mem_map_of_mem ha)

/-- over the generated code: the population keeps its size and pairwise distinct indices -/
theorem C20_source_translation_population_size_indices (c : Cfg) (tm : Bool) (n : Nat) (ins : List GenIn)
    (s : LoopGen.St Mem Nat) (hin : ∀ i ∈ ins, i.sel.isSome = tm) (hn : s.pop.length = n)
    (hd : (s.pop.map (·.index)).Nodup)
    (hv : ∀ i ∈ ins, ∀ sel, i.sel = some sel → sel.valid c.elitism n) :
    let r := LoopGenEq.genRun c.kind (LoopGenEq.params c tm true) (LoopGenEq.ops c) s (ins.map (LoopGenEq.genIn c))
    r.pop.length = n ∧ (r.pop.map (·.index)).Nodup := by
  have hidx : ∀ p : List LoopGen.Agent, (p.map (LoopGenEq.toM c.kind)).map (·.index) = p.map (·.index) := by
    intro p; simp [List.map_map, Function.comp_def, LoopGenEq.toM]
  obtain ⟨h1, h2⟩ := C20_population_size_indices c n ins (LoopGenEq.stM c.kind s)
    (by simp [LoopGenEq.stM, hn]) (by simp only [LoopGenEq.stM, hidx]; exact hd) hv
  rw [← LoopGenEq.genRun_eq c tm ins s hin] at h1 h2
  simp only [LoopGenEq.stM, List.length_map, hidx] at h1 h2
  exact ⟨h1, h2⟩

/-- over the generated code: the events of every executed trip round the loop of any of the six training functions,
    in order — every agent trains, every agent is tested (one fitness entry each), the fitness list is appended, every
    `steps` list is extended; then either the early return, or selection + mutation (if configured and due)
    followed by the checkpoint (if due) -/
theorem C20_source_translation_event_order (c : Cfg) (P : LoopGen.Params) (o : LoopGen.MemOps Mem)
    (i : LoopGen.GenIn Nat) (s : LoopGen.St Mem Nat) (hs : s.halted = false)
    (hc : LoopGenEq.genCond c.kind P s.pop = true) :
    ∃ ret sel sav : Bool,
      (LoopGenEq.genStep c.kind P o i s).events =
        [.train, .test, .fitnessAppend, .stepsAppend] ++
          (if ret then [.earlyReturn] else (if sel then [.select] else []) ++ (if sav then [.save] else [])) ∧
      (LoopGenEq.genStep c.kind P o i s).halted = ret :=
  LoopGenEq.genStep_events c.kind P o i s hs hc

/-- the generated `train_off_policy`, 2 agents on 4 envs, `evo_steps = 10`, `max_steps = 20`, elitist tournament:
    three generations of 8 steps, a fourth trip does nothing; checkpoint after the first -/
def exGen : LoopGen.St Mem Nat :=
  LoopGen.Off.start [{ index := 0, ls := 2, bs := 8 }, { index := 1, ls := 8, bs := 8, tag := 1 }] {} 1000
example : (LoopGen.Off.run (LoopGenEq.params exCfg true true) (LoopGenEq.ops exCfg) exGen
    ([exIn, exIn, exIn, exIn].map (LoopGenEq.genIn exCfg))).pop.map (·.cur) = [24, 24] := by decide
example : (LoopGen.Off.run (LoopGenEq.params exCfg true true) (LoopGenEq.ops exCfg) exGen
    ([exIn, exIn, exIn, exIn].map (LoopGenEq.genIn exCfg))).gens = 3 := by decide
example : (LoopGen.Off.run (LoopGenEq.params exCfg true true) (LoopGenEq.ops exCfg) exGen
    ([exIn].map (LoopGenEq.genIn exCfg))).events =
    [.train, .test, .fitnessAppend, .stepsAppend, .select, .save] := by decide
example : ∀ a ∈ exGen.pop, a.cur = gEnv exCfg.kind a ∧ gEnv exCfg.kind a = stride exCfg * gIts exCfg.kind a := by
  decide

open Evo

/-! ### 10. the evolution step (`tournament_selection_and_mutation` + `Mutations.mutation`)

Theorems over `Loop.Evo` (`Model/Loop.lean`), for every population, every agent type and every type of mutation
methods.  `TournamentSelection.select` and the per-individual mutation methods are parameters; what is assumed of them
is stated as hypotheses where it is used: `select` returns a population of the size it was given
(`Proofs/TournGenEq.lean: gen_select_eq` + `Proofs/TournamentSelect.lean: newPop_length`), a mutation method and the
per-individual tail keep `index`, `steps`, `fitness` (`obs`; property C02, `Proofs/MutWireGenEq.lean`), `no_mutation`
keeps everything the elite is compared by (`key`).  On the accelerator path `unwrap_models` / `wrap_models` /
`save_checkpoint` / `load_checkpoint` are assumed to be the identity on the observed fields (hypotheses `hu`, `hw`). -/

/-- the population `select` is given: on the accelerator path every member is unwrapped first -/
def Evo.entering {A M : Type} (ops : Ops A M) (accel : Option Bool) (pop : List A) : List A :=
  match accel with | none => pop | some _ => pop.map ops.unwrap
/-- what is returned: on the accelerator path every member is wrapped again -/
def Evo.leaving {A M : Type} (ops : Ops A M) (accel : Option Bool) (res : List A) : List A :=
  match accel with | none => res | some _ => res.map ops.wrap

theorem Evo.entering_length {A M : Type} (ops : Ops A M) (accel : Option Bool) (pop : List A) :
    (entering ops accel pop).length = pop.length := by cases accel <;> simp [entering]
theorem Evo.leaving_length {A M : Type} (ops : Ops A M) (accel : Option Bool) (res : List A) :
    (leaving ops accel res).length = res.length := by cases accel <;> simp [leaving]

theorem Evo.drawOk_length {M : Type} [BEq M] {opts : List M} {p : List Rat} {n : Nat} {d : List M}
    (h : drawOk opts p n d = true) : d.length = n := by
  simp only [drawOk, Bool.and_eq_true, decide_eq_true_eq] at h
  exact h.1.1

theorem Evo.applied_length {M : Type} {cfg : MutCfg M} {d ms : List M} (h : applied cfg d = some ms) :
    ms.length = d.length := by
  unfold applied at h
  split at h
  · cases h; rfl
  · cases d with
    | nil => cases h
    | cons _ r => cases h; rfl

theorem Evo.mutateWith_length {A M : Type} (ops : Ops A M) (ms : List M) (pop : List A) (h : ms.length = pop.length) :
    (mutateWith ops ms pop).length = pop.length := by
  simp [mutateWith, h]

/-- what a successful `Mutations.mutation` returns -/
theorem Evo.mutation_some {A M : Type} [BEq M] {ops : Ops A M} {cfg : MutCfg M} {pre : Bool} {d : List M}
    {pop res : List A} (h : mutation ops cfg pre d pop = some res) :
    ∃ ms, applied cfg d = some ms ∧ res = mutateWith ops ms pop ∧ ms.length = pop.length ∧
      drawOk (optionsOf cfg pre) (probaOf cfg pre) pop.length d = true := by
  unfold mutation at h
  split at h
  · rename_i hd
    cases ha : applied cfg d with
    | none => rw [ha] at h; cases h
    | some ms =>
      rw [ha] at h
      cases h
      exact ⟨ms, rfl, rfl, by rw [applied_length ha, drawOk_length hd], hd⟩
  · cases h

/-- the shape of every successful evolution step on a process that selects (no accelerator, or the main process):
    the result is the MUTATED SELECTED population — `select` is given the (unwrapped) population, the methods drawn
    for the selected population are applied to ITS members in order, and that list is returned (wrapped) -/
theorem Evo.evoStep_some {A M : Type} [BEq M] {ops : Ops A M} {cfg : MutCfg M} {d : List A → List M}
    {select : List A → Option (A × List A)} {pop : List A} {envName : String} {algo elitePath : Option String}
    {saveElite : Bool} {accel : Option Bool} {llm : Bool} {res : List A} {ev : List (Ev A)}
    (hacc : accel ≠ some false)
    (h : evoStep ops select (fun p => mutation ops cfg false (d p) p) pop envName algo elitePath saveElite accel llm
      = some (res, ev)) :
    ∃ elite sel ms, select (entering ops accel pop) = some (elite, sel) ∧ applied cfg (d sel) = some ms ∧
      ms.length = sel.length ∧ res = leaving ops accel (mutateWith ops ms sel) := by
  unfold evoStep at h
  split at h
  · cases h
  · rename_i al _
    cases accel with
    | none =>
      simp only at h
      cases hs : select pop with
      | none => rw [hs] at h; cases h
      | some es =>
        obtain ⟨elite, sel⟩ := es
        rw [hs] at h
        simp only at h
        cases hm : mutation ops cfg false (d sel) sel with
        | none => rw [hm] at h; cases h
        | some r =>
          rw [hm] at h
          cases h
          obtain ⟨ms, h1, h2, h3, _⟩ := mutation_some hm
          exact ⟨elite, sel, ms, by simpa [entering] using hs, h1, h3, by simp [leaving, h2]⟩
    | some b =>
      cases b with
      | false => exact absurd rfl hacc
      | true =>
        simp only at h
        cases hs : select (pop.map ops.unwrap) with
        | none => rw [hs] at h; cases h
        | some es =>
          obtain ⟨elite, sel⟩ := es
          rw [hs] at h
          simp only at h
          cases hm : mutation ops cfg false (d sel) sel with
          | none => rw [hm] at h; cases h
          | some r =>
            rw [hm] at h
            cases h
            obtain ⟨ms, h1, h2, h3, _⟩ := mutation_some hm
            exact ⟨elite, sel, ms, by simpa [entering] using hs, h1, h3, by simp [leaving, h2]⟩

/-- (i) the returned population has the size of the population handed in — on every path, including the processes
    that only reload -/
theorem C20_evostep_size {A M : Type} [BEq M] (ops : Ops A M) (cfg : MutCfg M) (d : List A → List M)
    (select : List A → Option (A × List A))
    (hsel : ∀ p e s, select p = some (e, s) → s.length = p.length)
    (pop : List A) (envName : String) (algo elitePath : Option String) (saveElite : Bool) (accel : Option Bool)
    (llm : Bool) (res : List A) (ev : List (Ev A))
    (h : evoStep ops select (fun p => mutation ops cfg false (d p) p) pop envName algo elitePath saveElite accel llm
      = some (res, ev)) : res.length = pop.length := by
  by_cases hacc : accel = some false
  · subst hacc
    unfold evoStep at h
    split at h
    · cases h
    · simp only at h
      cases h; simp
  · obtain ⟨elite, sel, ms, hs, _, hl, rfl⟩ := Evo.evoStep_some hacc h
    rw [Evo.leaving_length, Evo.mutateWith_length ops ms sel hl, hsel _ _ _ hs, Evo.entering_length]

/-- (ii) the result is the mutated SELECTED population, member by member: member `i` of what is returned is
    `wrap (post (method_i (selected_i)))` — never a member of the old population, never an unmutated copy -/
theorem C20_evostep_mutates_selected {A M : Type} [BEq M] (ops : Ops A M) (cfg : MutCfg M) (d : List A → List M)
    (select : List A → Option (A × List A)) (pop : List A) (envName : String) (algo elitePath : Option String)
    (saveElite : Bool) (accel : Option Bool) (llm : Bool) (res : List A) (ev : List (Ev A))
    (hacc : accel ≠ some false)
    (h : evoStep ops select (fun p => mutation ops cfg false (d p) p) pop envName algo elitePath saveElite accel llm
      = some (res, ev)) :
    ∃ (elite : A) (sel : List A) (ms : List M),
      select (Evo.entering ops accel pop) = some (elite, sel) ∧ applied cfg (d sel) = some ms ∧
      res.length = sel.length ∧
      ∀ i : Nat, res[i]? = (match ms[i]?, sel[i]? with
        | some m, some a => (Evo.leaving ops accel [ops.post (ops.call m a)]).head?
        | _, _ => none) := by
  obtain ⟨elite, sel, ms, hs, ha, hl, rfl⟩ := Evo.evoStep_some hacc h
  refine ⟨elite, sel, ms, hs, ha, by rw [Evo.leaving_length, Evo.mutateWith_length ops ms sel hl], fun i => ?_⟩
  cases accel with
  | none =>
    simp only [Evo.leaving, mutateWith, List.getElem?_zipWith]
    cases ms[i]? <;> cases sel[i]? <;> simp
  | some b =>
    simp only [Evo.leaving, mutateWith, List.getElem?_map, List.getElem?_zipWith]
    cases ms[i]? <;> cases sel[i]? <;> simp

/-- (iii) with `mutate_elite = False` member 0 of the result is the selected member 0 (with elitism: select's clone
    of the elite) put through `no_mutation` and the per-individual tail only; whatever these two keep (`key`: the
    index, the `fitness` and `steps` histories as `select` left them, the evaluation weights) is what member 0 of
    the selected population had -/
theorem C20_evostep_elite_unmutated {A M K : Type} [BEq M] (ops : Ops A M) (cfg : MutCfg M) (d : List A → List M)
    (select : List A → Option (A × List A)) (pop : List A) (envName : String) (algo elitePath : Option String)
    (saveElite : Bool) (llm : Bool) (res : List A) (ev : List (Ev A)) (hme : cfg.mutateElite = false)
    (key : A → K) (hno : ∀ a, key (ops.call cfg.noMut a) = key a) (hpost : ∀ a, key (ops.post a) = key a)
    (h : evoStep ops select (fun p => mutation ops cfg false (d p) p) pop envName algo elitePath saveElite none llm
      = some (res, ev)) :
    ∃ elite sel, select pop = some (elite, sel) ∧
      res.head? = sel.head?.map (fun a => ops.post (ops.call cfg.noMut a)) ∧
      res.head?.map key = sel.head?.map key := by
  obtain ⟨elite, sel, ms, hs, ha, hl, rfl⟩ := Evo.evoStep_some (by simp) h
  have hms : ∃ r, ms = cfg.noMut :: r := by
    unfold applied at ha
    rw [hme] at ha
    simp only [Bool.false_eq_true, if_false] at ha
    cases hd : d sel with
    | nil => rw [hd] at ha; cases ha
    | cons x r => rw [hd] at ha; cases ha; exact ⟨r, rfl⟩
  obtain ⟨r, rfl⟩ := hms
  have hhead : (Evo.leaving ops none (mutateWith ops (cfg.noMut :: r) sel)).head? =
      sel.head?.map (fun a => ops.post (ops.call cfg.noMut a)) := by
    cases sel with
    | nil => simp at hl
    | cons a t => simp [Evo.leaving, mutateWith]
  refine ⟨elite, sel, by simpa [Evo.entering] using hs, hhead, ?_⟩
  rw [hhead]
  cases sel.head? <;> simp [hno, hpost]

/-- (iv) the evolution step does not touch the bookkeeping: whatever every mutation method, the per-individual tail
    and (un)wrapping keep (`obs`: `index`, the `steps` list, the `fitness` list) is, member by member, what the
    selected population had — so the step counters and fitness histories the loop-level accounting theorems talk about
    are those `select` handed over -/
theorem C20_evostep_bookkeeping_untouched {A M O : Type} [BEq M] (ops : Ops A M) (cfg : MutCfg M)
    (d : List A → List M) (select : List A → Option (A × List A)) (pop : List A) (envName : String)
    (algo elitePath : Option String) (saveElite : Bool) (accel : Option Bool) (llm : Bool) (res : List A)
    (ev : List (Ev A)) (hacc : accel ≠ some false)
    (obs : A → O) (hcall : ∀ m a, obs (ops.call m a) = obs a) (hpost : ∀ a, obs (ops.post a) = obs a)
    (hw : ∀ a, obs (ops.wrap a) = obs a)
    (h : evoStep ops select (fun p => mutation ops cfg false (d p) p) pop envName algo elitePath saveElite accel llm
      = some (res, ev)) :
    ∃ elite sel, select (Evo.entering ops accel pop) = some (elite, sel) ∧ res.map obs = sel.map obs := by
  obtain ⟨elite, sel, ms, hs, _, hl, rfl⟩ := Evo.evoStep_some hacc h
  refine ⟨elite, sel, hs, ?_⟩
  have hz : ∀ (ms : List M) (sel : List A), ms.length = sel.length →
      (mutateWith ops ms sel).map obs = sel.map obs := by
    intro ms
    induction ms with
    | nil => intro sel h; cases sel <;> simp_all [mutateWith]
    | cons m ms ih =>
      intro sel h
      cases sel with
      | nil => simp at h
      | cons a t =>
        have := ih t (by simpa using h)
        simp only [mutateWith] at this
        simp [mutateWith, hcall, hpost, this]
  cases accel with
  | none => simpa [Evo.leaving] using hz ms sel hl
  | some b =>
    have hc : (obs ∘ ops.wrap) = obs := funext hw
    simp only [Evo.leaving, List.map_map, hc]
    exact hz ms sel hl

/-- (v) `pre_training_mut = True` draws from the pre-training option list with the pre-training probabilities (as
    coded: the list `get_mutations_options(pretraining=True)` built): every method applied is one of those options
    with a positive probability — except entry 0, which is `no_mutation` when `mutate_elite = False` — and the
    result is again in the order of the population -/
theorem C20_evostep_pretraining_options {A M : Type} [BEq M] [LawfulBEq M] (ops : Ops A M) (cfg : MutCfg M)
    (d : List M) (pop res : List A) (h : mutation ops cfg true d pop = some res) :
    ∃ ms, res = mutateWith ops ms pop ∧ ms.length = pop.length ∧ res.length = pop.length ∧
      ∀ i m, ms[i]? = some m →
        (i = 0 ∧ cfg.mutateElite = false ∧ m = cfg.noMut) ∨
        (∃ q, (m, q) ∈ List.zip cfg.preOptions cfg.preProba ∧ 0 < q) := by
  obtain ⟨ms, ha, rfl, hl, hd⟩ := Evo.mutation_some h
  refine ⟨ms, rfl, hl, Evo.mutateWith_length ops ms pop hl, fun i m hm => ?_⟩
  have hmem : ∀ m ∈ d, ∃ q, (m, q) ∈ List.zip cfg.preOptions cfg.preProba ∧ 0 < q := by
    intro m hm
    simp only [drawOk, optionsOf, probaOf, if_true, Bool.and_eq_true, decide_eq_true_eq, List.all_eq_true,
      List.any_eq_true, beq_iff_eq] at hd
    obtain ⟨⟨m', q⟩, hin, heq, hq⟩ := hd.2 m hm
    simp only at heq hq
    subst heq
    exact ⟨q, hin, hq⟩
  unfold applied at ha
  split at ha
  · cases ha
    exact Or.inr (hmem m (List.mem_of_getElem? hm))
  · rename_i hme
    cases d with
    | nil => cases ha
    | cons x r =>
      cases ha
      cases i with
      | zero =>
        simp only [List.getElem?_cons_zero, Option.some.injEq] at hm
        exact Or.inl ⟨rfl, by simpa using hme, hm.symm⟩
      | succ j =>
        simp only [List.getElem?_cons_succ] at hm
        exact Or.inr (hmem m (List.mem_cons_of_mem _ (List.mem_of_getElem? hm)))

/-- on a process that is not the main one nothing is selected and `elite` is never bound: the step does not touch
    it — whatever `save_elite` says it writes no file and returns its own old members, unwrapped, reloaded from the
    files the main process wrote for their positions, wrapped (it used to raise UnboundLocalError with
    `save_elite=True`; fixed in /repo 8b078ab) -/
theorem C20_evostep_other_process_reloads {A M : Type} (ops : Ops A M)
    (select : List A → Option (A × List A)) (mutate : List A → Option (List A)) (pop : List A) (envName : String)
    (algo : String) (elitePath : Option String) (saveElite llm : Bool) :
    evoStep ops select mutate pop envName (some algo) elitePath saveElite (some false) llm =
      some (((pop.map ops.unwrap).mapIdx (fun i a => ops.load a (tempPath envName algo i))).map ops.wrap, []) := rfl

/-- the temporary files of the accelerator path: the main process parks member `i` of the result in
    `models/<env_name>/<algo>_<i>.pt` -/
def Evo.tempEvents {A : Type} (accel : Option Bool) (envName algo : String) (r : List A) : List (Ev A) :=
  match accel with
  | none => []
  | some _ => r.mapIdx (fun i a => Ev.save a (tempPath envName algo i))

/-- every successful or failing run of the step on a process that selects, spelled out: if `select` and
    `mutation.mutation` return, the step RETURNS a population, and the files written are the main process's temporary
    files (accelerator only) followed by `eliteEvents`: exactly one save of the elite that `select` returned iff
    `save_elite`, none otherwise -/
theorem C20_evostep_returns_and_saves {A M : Type} (ops : Ops A M) (select : List A → Option (A × List A))
    (mutate : List A → Option (List A)) (pop : List A) (envName algo : String) (elitePath : Option String)
    (saveElite : Bool) (accel : Option Bool) (llm : Bool) (hacc : accel ≠ some false) (elite : A) (sel r : List A)
    (hs : select (Evo.entering ops accel pop) = some (elite, sel)) (hm : mutate sel = some r) :
    evoStep ops select mutate pop envName (some algo) elitePath saveElite accel llm =
      some (Evo.leaving ops accel r,
        Evo.tempEvents accel envName algo r ++ eliteEvents saveElite llm envName algo elitePath elite) ∧
    (eliteEvents saveElite llm envName algo elitePath elite).length = (if saveElite then 1 else 0) ∧
    (∀ e ∈ eliteEvents saveElite llm envName algo elitePath elite,
      e = Ev.saveLLM elite elitePath ∨ e = Ev.save elite (elitePathOf envName algo elitePath)) := by
  refine ⟨?_, ?_, ?_⟩
  · cases accel with
    | none =>
      simp only [Evo.entering] at hs
      simp [evoStep, hs, hm, Evo.leaving, Evo.tempEvents]
    | some b =>
      cases b with
      | false => exact absurd rfl hacc
      | true =>
        simp only [Evo.entering] at hs
        simp [evoStep, hs, hm, Evo.leaving, Evo.tempEvents]
  · cases saveElite <;> cases llm <;> simp [eliteEvents]
  · intro e he
    cases saveElite <;> cases llm <;> simp [eliteEvents] at he <;> simp [he]

/-- the step as found (before /repo 8b078ab): a process that is not the main one raised on `save_elite=True`
    (`elite` unbound) for EVERY population — it did not return a population; the repaired step does
    (`C20_evostep_other_process_reloads`) -/
theorem C20_evostep_as_found_save_elite_witness :
    ¬ ∀ (pop : List Nat), ∃ r, evoStepAsFound (M := Nat) ⟨fun _ => "A", id, id, fun a _ => a, fun _ a => a, id⟩
        (fun p => some (0, p)) (fun p => some p) pop "Env" (some "A") none true (some false) false = some r := by
  intro h
  obtain ⟨r, hr⟩ := h [1, 2]
  simp [evoStepAsFound] at hr

/-! ### 11. the evolution step, over the definitions generated from the source

`Gen/EvoStepGen.lean` is generated by `harness/py2lean_evostep.py` from the source text of
`tournament_selection_and_mutation` (agilerl/utils/utils.py) and of `Mutations.mutation` (agilerl/hpo/mutation.py);
`Proofs/EvoStepGenEq.lean` proves them equal to `Loop.Evo.evoStep` / `Loop.Evo.mutation`.  The theorems of section 10
restated over the generated step calling the generated `Mutations.mutation` (as the training loops do:
`pre_training_mut` at its default), `d p` = the `rng.choice` draw for the population `p`. -/

open EvoStepGen EvoStepGenEq

/-- a successful run of the generated step is a successful run of the model's step -/
theorem gen_evostep_some {A M : Type} [BEq M] {o : AgentOps A M} {s : Mutations M} {d : List A → List M}
    {pop : List A} {select : List A → Option (A × List A)} {envName : String} {algo elitePath : Option String}
    {saveElite : Bool} {accel : Option Accelerator} {llm : Bool} {res : List A} {ev : List (EvoStepGen.Ev A)}
    (h : tournament_selection_and_mutation o pop select (fun p => Mutations.mutation o s p false (d p))
      envName algo elitePath saveElite accel llm = some (res, ev)) :
    evoStep (opsM o) select (fun p => Evo.mutation (opsM o) (cfgM s) false (d p) p) pop envName algo elitePath
      saveElite (accelM accel) llm = some (res, ev.map evM) := by
  rw [← gen_evostep_eq, h]; rfl

/-- over the generated code, all paths: the generated step (calling the generated `Mutations.mutation`) IS the
    model's step -/
theorem C20_source_translation_evostep_eq {A M : Type} [BEq M] (o : AgentOps A M) (s : Mutations M)
    (d : List A → List M) (pop : List A) (select : List A → Option (A × List A)) (envName : String)
    (algo elitePath : Option String) (saveElite : Bool) (accel : Option Accelerator) (llm : Bool) :
    resM (tournament_selection_and_mutation o pop select (fun p => Mutations.mutation o s p false (d p))
        envName algo elitePath saveElite accel llm) =
      evoStep (opsM o) select (fun p => Evo.mutation (opsM o) (cfgM s) false (d p) p) pop envName algo
        elitePath saveElite (accelM accel) llm :=
  gen_evostep_eq o s d pop select envName algo elitePath saveElite accel llm

/-- over the generated code: (i) the returned population has the size of the one handed in -/
theorem C20_source_translation_evostep_size {A M : Type} [BEq M] (o : AgentOps A M) (s : Mutations M)
    (d : List A → List M) (select : List A → Option (A × List A))
    (hsel : ∀ p e sl, select p = some (e, sl) → sl.length = p.length)
    (pop : List A) (envName : String) (algo elitePath : Option String) (saveElite : Bool)
    (accel : Option Accelerator) (llm : Bool) (res : List A) (ev : List (EvoStepGen.Ev A))
    (h : tournament_selection_and_mutation o pop select (fun p => Mutations.mutation o s p false (d p))
      envName algo elitePath saveElite accel llm = some (res, ev)) : res.length = pop.length :=
  C20_evostep_size (opsM o) (cfgM s) d select hsel pop envName algo elitePath saveElite (accelM accel) llm res _
    (gen_evostep_some h)

/-- over the generated code: (ii) what is returned is the mutated SELECTED population: member `i` is
    `wrap_models (post (choice_i (selected_i)))` (no wrapping without accelerator) -/
theorem C20_source_translation_evostep_mutates_selected {A M : Type} [BEq M] (o : AgentOps A M) (s : Mutations M)
    (d : List A → List M) (select : List A → Option (A × List A)) (pop : List A) (envName : String)
    (algo elitePath : Option String) (saveElite : Bool) (accel : Option Accelerator) (llm : Bool) (res : List A)
    (ev : List (EvoStepGen.Ev A)) (hacc : ∀ a, accel = some a → a.is_main_process = true)
    (h : tournament_selection_and_mutation o pop select (fun p => Mutations.mutation o s p false (d p))
      envName algo elitePath saveElite accel llm = some (res, ev)) :
    ∃ (elite : A) (sel : List A) (ms : List M),
      select (Evo.entering (opsM o) (accelM accel) pop) = some (elite, sel) ∧
      applied (cfgM s) (d sel) = some ms ∧ res.length = sel.length ∧
      ∀ i : Nat, res[i]? = (match ms[i]?, sel[i]? with
        | some m, some a => (Evo.leaving (opsM o) (accelM accel) [o.post (o.call m a)]).head?
        | _, _ => none) := by
  have hne : accelM accel ≠ some false := by
    cases accel with
    | none => simp [accelM]
    | some a => simp [accelM, hacc a rfl]
  exact C20_evostep_mutates_selected (opsM o) (cfgM s) d select pop envName algo elitePath saveElite (accelM accel)
    llm res _ hne (gen_evostep_some h)

/-- over the generated code: (iii) `mutate_elite = False` ⇒ member 0 of the result is select's member 0 (the elite's
    clone) put through `no_mutation` and the per-individual tail only, and carries whatever those keep -/
theorem C20_source_translation_evostep_elite_unmutated {A M K : Type} [BEq M] (o : AgentOps A M) (s : Mutations M)
    (d : List A → List M) (select : List A → Option (A × List A)) (pop : List A) (envName : String)
    (algo elitePath : Option String) (saveElite : Bool) (llm : Bool) (res : List A) (ev : List (EvoStepGen.Ev A))
    (hme : s.mutate_elite = false) (key : A → K) (hno : ∀ a, key (o.call s.no_mutation a) = key a)
    (hpost : ∀ a, key (o.post a) = key a)
    (h : tournament_selection_and_mutation o pop select (fun p => Mutations.mutation o s p false (d p))
      envName algo elitePath saveElite none llm = some (res, ev)) :
    ∃ elite sel, select pop = some (elite, sel) ∧
      res.head? = sel.head?.map (fun a => o.post (o.call s.no_mutation a)) ∧
      res.head?.map key = sel.head?.map key :=
  C20_evostep_elite_unmutated (opsM o) (cfgM s) d select pop envName algo elitePath saveElite llm res _ hme key hno
    hpost (gen_evostep_some (accel := none) h)

/-- over the generated code: (iv) `index`, `steps`, `fitness` (anything the mutation methods, the tail and
    `wrap_models` keep) of every member are those of the selected population -/
theorem C20_source_translation_evostep_bookkeeping_untouched {A M O : Type} [BEq M] (o : AgentOps A M)
    (s : Mutations M) (d : List A → List M) (select : List A → Option (A × List A)) (pop : List A)
    (envName : String) (algo elitePath : Option String) (saveElite : Bool) (accel : Option Accelerator) (llm : Bool)
    (res : List A) (ev : List (EvoStepGen.Ev A)) (hacc : ∀ a, accel = some a → a.is_main_process = true)
    (obs : A → O) (hcall : ∀ m a, obs (o.call m a) = obs a) (hpost : ∀ a, obs (o.post a) = obs a)
    (hw : ∀ a, obs (o.wrap_models a) = obs a)
    (h : tournament_selection_and_mutation o pop select (fun p => Mutations.mutation o s p false (d p))
      envName algo elitePath saveElite accel llm = some (res, ev)) :
    ∃ elite sel, select (Evo.entering (opsM o) (accelM accel) pop) = some (elite, sel) ∧
      res.map obs = sel.map obs := by
  have hne : accelM accel ≠ some false := by
    cases accel with
    | none => simp [accelM]
    | some a => simp [accelM, hacc a rfl]
  exact C20_evostep_bookkeeping_untouched (opsM o) (cfgM s) d select pop envName algo elitePath saveElite
    (accelM accel) llm res _ hne obs hcall hpost hw (gen_evostep_some h)

/-- over the generated code: (v) `Mutations.mutation(population, pre_training_mut=True)` applies only methods of
    `self.pretraining_mut_options` that have a positive `self.pretraining_mut_proba` (entry 0: `no_mutation` when
    `mutate_elite = False`), and returns the members in the order of the population -/
theorem C20_source_translation_evostep_pretraining_options {A M : Type} [BEq M] [LawfulBEq M] (o : AgentOps A M)
    (s : Mutations M) (d : List M) (pop res : List A) (h : Mutations.mutation o s pop true d = some res) :
    ∃ ms, res = List.zipWith (fun m a => o.post (o.call m a)) ms pop ∧ ms.length = pop.length ∧
      res.length = pop.length ∧
      ∀ i m, ms[i]? = some m →
        (i = 0 ∧ s.mutate_elite = false ∧ m = s.no_mutation) ∨
        (∃ q, (m, q) ∈ List.zip s.pretraining_mut_options s.pretraining_mut_proba ∧ 0 < q) := by
  rw [gen_mutation_eq] at h
  exact C20_evostep_pretraining_options (opsM o) (cfgM s) d pop res h

/-- over the generated code: a process that is not the main one never raises because of the unbound `elite`: with
    or without `save_elite` it writes no file and returns its old members reloaded from the main process's files -/
theorem C20_source_translation_evostep_other_process_reloads {A M : Type} (o : AgentOps A M)
    (select : List A → Option (A × List A)) (mutate : List A → Option (List A)) (pop : List A) (envName : String)
    (algo : String) (elitePath : Option String) (saveElite llm : Bool) :
    tournament_selection_and_mutation o pop select mutate envName (some algo) elitePath saveElite
      (some { is_main_process := false }) llm =
      some (((pop.map o.unwrap_models).mapIdx
        (fun i a => o.load_checkpoint a (Evo.tempPath envName algo i))).map o.wrap_models, []) := by
  have h := gen_tsm_eq o pop select mutate envName (some algo) elitePath saveElite (some { is_main_process := false }) llm
  rw [show accelM (some { is_main_process := false }) = some false from rfl,
    C20_evostep_other_process_reloads] at h
  cases hh : tournament_selection_and_mutation o pop select mutate envName (some algo) elitePath saveElite
      (some { is_main_process := false }) llm with
  | none => rw [hh] at h; cases h
  | some r =>
    rw [hh] at h
    obtain ⟨r1, r2⟩ := r
    simp only [resM, Option.map_some, Option.some.injEq, Prod.mk.injEq, List.map_eq_nil_iff] at h
    obtain ⟨h1, h2⟩ := h
    subst h1; subst h2
    rfl

/-- over the generated code: for every population and BOTH values of `is_main_process` (and without accelerator)
    the step returns a population whenever `select` and `mutation.mutation` do: the main process / the
    accelerator-free run return the mutated selected population and save the elite `select` returned iff
    `save_elite` (after the temporary files, on the main process); a process that is not the main one returns its
    reloaded members and saves nothing -/
theorem C20_source_translation_evostep_returns_population {A M : Type} (o : AgentOps A M)
    (select : List A → Option (A × List A)) (mutate : List A → Option (List A)) (pop : List A)
    (envName algo : String) (elitePath : Option String) (saveElite llm : Bool) (accel : Option Accelerator)
    (elite : A) (sel r : List A)
    (hs : select (Evo.entering (opsM o) (accelM accel) pop) = some (elite, sel)) (hm : mutate sel = some r) :
    ∃ res ev, tournament_selection_and_mutation o pop select mutate envName (some algo) elitePath saveElite accel llm
        = some (res, ev) ∧ res.length = (if accelM accel = some false then pop.length else r.length) ∧
      ev.map evM =
        if accelM accel = some false then []
        else Evo.tempEvents (accelM accel) envName algo r ++
             Evo.eliteEvents saveElite llm envName algo elitePath elite := by
  have h := gen_tsm_eq o pop select mutate envName (some algo) elitePath saveElite accel llm
  generalize accelM accel = ac at h hs ⊢
  by_cases hacc : ac = some false
  · rw [hacc, C20_evostep_other_process_reloads] at h
    cases hh : tournament_selection_and_mutation o pop select mutate envName (some algo) elitePath saveElite accel llm with
    | none => rw [hh] at h; cases h
    | some x =>
      rw [hh] at h
      obtain ⟨res, ev⟩ := x
      simp only [resM, Option.map_some, Option.some.injEq, Prod.mk.injEq] at h
      refine ⟨res, ev, rfl, ?_, ?_⟩
      · rw [if_pos hacc, h.1]; simp
      · rw [if_pos hacc]; exact h.2
  · rw [(C20_evostep_returns_and_saves (opsM o) select mutate pop envName algo elitePath saveElite ac llm
      hacc elite sel r hs hm).1] at h
    cases hh : tournament_selection_and_mutation o pop select mutate envName (some algo) elitePath saveElite accel llm with
    | none => rw [hh] at h; cases h
    | some x =>
      rw [hh] at h
      obtain ⟨res, ev⟩ := x
      simp only [resM, Option.map_some, Option.some.injEq, Prod.mk.injEq] at h
      refine ⟨res, ev, rfl, ?_, ?_⟩
      · rw [if_neg hacc, h.1, Evo.leaving_length]
      · rw [if_neg hacc]; exact h.2

/-! non-vacuity: a population of (index, weights) pairs, three methods, elitist selection of member 1 -/
section EvoExample
abbrev XA := Nat × Nat           -- (index, weights)
def xOps : AgentOps XA Nat :=
  { class_name := fun _ => "DQN", unwrap_models := id, wrap_models := id, load_checkpoint := fun a _ => a,
    call := fun m a => (a.1, a.2 + m), post := id }
def xSelf : Mutations Nat :=
  { pretraining_mut_options := [5, 7], mut_options := [0, 5, 7], pretraining_mut_proba := [1/2, 1/2],
    mut_proba := [1/2, 1/4, 1/4], mutate_elite := false, no_mutation := 0 }
/-- elite = member 1; new population: its clone (index kept) first, then clones with fresh indices -/
def xSelect (p : List XA) : Option (XA × List XA) :=
  match p with
  | [a, b, c] => some (b, [b, (10, a.2), (11, b.2)])
  | _ => none
def xPop : List XA := [(0, 100), (1, 200), (2, 300)]

-- the selected population mutated (not the old one): the elite (1, 200) untouched although 7 was drawn for it,
-- members 1 and 2 of the SELECTED population changed by the methods drawn for them; the elite saved under the default name
example : (tournament_selection_and_mutation xOps xPop xSelect (fun p => Mutations.mutation xOps xSelf p false [7, 5, 0])
    "Env" none none true none false).map (fun r => (r.1, r.2.length)) = some ([(1, 200), (10, 105), (11, 200)], 1) := by
  decide +kernel
example : (tournament_selection_and_mutation xOps xPop xSelect (fun p => Mutations.mutation xOps xSelf p false [7, 5, 0])
    "Env" (some "X") none true none false).map (fun r => r.2.map (fun e => match e with
      | .save a p => (a, p) | .save_llm a _ => (a, "llm"))) = some [((1, 200), "Env-elite_X.pt")] := by
  decide +kernel
-- with mutate_elite the drawn 7 is applied to slot 0
example : (tournament_selection_and_mutation xOps xPop xSelect
    (fun p => Mutations.mutation xOps { xSelf with mutate_elite := true } p false [7, 5, 0])
    "Env" none none false none false).map (·.1) = some [(1, 207), (10, 105), (11, 200)] := by decide +kernel
-- a draw that `rng.choice` cannot return (3 is not an option; wrong length): not a run
example : Mutations.mutation xOps xSelf xPop false [3, 5, 0] = none := by decide +kernel
example : Mutations.mutation xOps xSelf xPop false [5, 0] = none := by decide +kernel
-- pre-training: `no_mutation` (0) is not an option; 5 and 7 are
example : Mutations.mutation xOps xSelf xPop true [0, 5, 7] = none := by decide +kernel
example : Mutations.mutation xOps xSelf xPop true [7, 5, 7] = some [(0, 100), (1, 205), (2, 307)] := by decide +kernel
-- main process: three temporary files, then the elite
example : (tournament_selection_and_mutation xOps xPop xSelect (fun p => Mutations.mutation xOps xSelf p false [7, 5, 0])
    "Env" none none true (some { is_main_process := true }) false).map (fun r => r.2.map (fun e => match e with
      | .save _ p => p | .save_llm _ _ => "llm")) =
    some ["models/Env/DQN_0.pt", "models/Env/DQN_1.pt", "models/Env/DQN_2.pt", "Env-elite_DQN.pt"] := by decide +kernel
-- an empty population: `population[0]` raises
example : tournament_selection_and_mutation xOps [] xSelect (fun p => Mutations.mutation xOps xSelf p false [])
    "Env" none none false none false = none := by decide +kernel
end EvoExample

namespace EvoLoop
open LoopGen LoopGenEq EvoStepGen EvoStepGenEq

/-! ### 12. the training loops with the generated evolution step

`Gen/LoopGen.lean` takes selection + mutation as an abstract function `tsm` (a field of the per-generation input).
Here it is INSTANTIATED by the generated `tournament_selection_and_mutation` calling the generated
`Mutations.mutation` (`evoTsm`), on the agents of the generated loops: a mutation method is (does it change the
weights, the fresh name of the new weights), `select` is the tournament outcome `sel` applied as `Loop.select`
describes it (the specification `Proofs/TournGenEq.lean` proves of the generated `TournamentSelection.select`),
`unwrap / wrap / load_checkpoint` are the identity on the modelled fields (assumption), the per-individual tail `post`
is the identity on them (C02).  `evoTsm_eq`: that instance IS the abstract function the accounting theorems were
proved for, so they hold for the six generated loops running the generated evolution step. -/

abbrev Meth := Bool × Nat

def opsL : AgentOps LoopGen.Agent Meth :=
  { class_name := fun _ => "Agent", unwrap_models := id, wrap_models := id, load_checkpoint := fun a _ => a,
    call := fun m a => if m.1 then { a with tag := m.2 } else a, post := id }

/-- the draw: member `i` gets (flag `i`, fresh name `nt + i`) -/
def choiceL (flags : List Bool) (nt n : Nat) : List Meth :=
  (List.range n).map (fun i => (flags.getD i false, nt + i))

def selfL (c : Loop.Cfg) (ch : List Meth) : Mutations Meth :=
  { pretraining_mut_options := [], pretraining_mut_proba := [],
    mut_options := (false, 0) :: ch, mut_proba := List.replicate (ch.length + 1) 1,
    mutate_elite := c.mutateElite, no_mutation := (false, 0) }

def selectL (c : Loop.Cfg) (sl : Loop.Sel) (pop : List LoopGen.Agent) : Option (LoopGen.Agent × List LoopGen.Agent) :=
  some (fromM ((pop.map (toM c.kind)).getD sl.elite default), (Loop.select c (pop.map (toM c.kind)) sl).map fromM)

/-- selection + mutation of one generation by the generated code; an exception (only: `mutate_elite = False` and an
    empty selected population — `evoTsm_raises_iff`) leaves no population -/
def evoTsm (c : Loop.Cfg) (sel : Option Loop.Sel) (flags : List Bool) :
    Nat → List LoopGen.Agent → Nat × List LoopGen.Agent :=
  fun nt pop => match sel with
    | none => (nt, pop)
    | some sl =>
      (nt + pop.length + 1,
       match tournament_selection_and_mutation opsL pop (selectL c sl)
          (fun p => Mutations.mutation opsL (selfL c (choiceL flags nt p.length)) p false (choiceL flags nt p.length))
          "env" (some "algo") none false none false with
       | some r => r.1
       | none => [])

theorem fromM_tag (a : Loop.Agent) (t : Nat) : fromM { a with tag := t } = { fromM a with tag := t } := rfl

theorem range_succ_map {β : Type} (n : Nat) (f : Nat → β) :
    (List.range (n + 1)).map f = f 0 :: (List.range n).map (fun i => f (i + 1)) := by
  rw [List.range_succ_eq_map]; simp [List.map_map, Function.comp_def]

/-- `mutateFrom` is the per-individual loop with the draw `(flag i, next + i)` -/
theorem mutateFrom_eq : ∀ (T : List Loop.Agent) (fs : List Bool) (nx : Nat),
    (Loop.mutateFrom nx T fs).map fromM =
      List.zipWith (fun m a => opsL.post (opsL.call m a))
        ((List.range T.length).map (fun i => (fs.getD i false, nx + i))) (T.map fromM)
  | [], fs, nx => by simp [Loop.mutateFrom]
  | a :: T, [], nx => by
    have ih := mutateFrom_eq T [] (nx + 1)
    have hT : Loop.mutateFrom (nx + 1) T [] = T := by cases T <;> rfl
    rw [hT] at ih
    simp only [Loop.mutateFrom, List.length_cons, range_succ_map, List.map_cons, List.zipWith_cons_cons]
    congr 1
    rw [ih]
    congr 2
    funext i
    simp [Nat.add_assoc, Nat.add_comm 1 i]
  | a :: T, f :: fs, nx => by
    have ih := mutateFrom_eq T fs (nx + 1)
    simp only [Loop.mutateFrom, List.length_cons, range_succ_map, List.map_cons, List.zipWith_cons_cons]
    congr 1
    · cases f <;> simp [opsL, fromM]
    · rw [ih]
      congr 2
      funext i
      simp [Nat.add_assoc, Nat.add_comm 1 i]

theorem zip_replicate_one (l : List Meth) : List.zip l (List.replicate l.length (1 : Rat)) = l.map (fun m => (m, 1)) := by
  induction l with
  | nil => rfl
  | cons a l ih => simp [List.replicate_succ, ih]

/-- the draw `choiceL` is a possible result of `rng.choice` for the options `selfL` lists -/
theorem drawOk_choiceL (c : Loop.Cfg) (ch : List Meth) (n : Nat) (h : ch.length = n) :
    Evo.drawOk (Evo.optionsOf (cfgM (selfL c ch)) false) (Evo.probaOf (cfgM (selfL c ch)) false) n ch = true := by
  have hz := zip_replicate_one ((false, 0) :: ch)
  simp only [List.length_cons] at hz
  show Evo.drawOk ((false, 0) :: ch) (List.replicate (ch.length + 1) 1) n ch = true
  unfold Evo.drawOk
  rw [hz]
  simp only [h, decide_true, List.length_cons, List.length_replicate, Bool.true_and, List.all_eq_true,
    List.any_eq_true, Bool.and_eq_true, beq_iff_eq, decide_eq_true_eq]
  intro m hm
  exact ⟨(m, 1), List.mem_map.mpr ⟨m, List.mem_cons_of_mem _ hm, rfl⟩, rfl, by show (0 : Rat) < 1; decide⟩

theorem choiceL_succ (flags : List Bool) (nt n : Nat) :
    choiceL flags nt (n + 1) =
      (flags.getD 0 false, nt) :: (List.range n).map (fun i => (flags.tail.getD i false, nt + 1 + i)) := by
  unfold choiceL
  rw [range_succ_map]
  congr 1
  apply List.map_congr_left
  intro i _
  cases flags <;> simp [Nat.add_assoc, Nat.add_comm 1 i]

theorem mutate_cons (c : Loop.Cfg) (nt : Nat) (a : Loop.Agent) (T : List Loop.Agent) (flags : List Bool) :
    Loop.mutate c nt (a :: T) flags =
      (if (flags.getD 0 false && c.mutateElite) = true then { a with tag := nt } else a) ::
        Loop.mutateFrom (nt + 1) T flags.tail := by
  cases flags with
  | nil =>
    have hT : Loop.mutateFrom (nt + 1) T [] = T := by cases T <;> rfl
    simp [Loop.mutate, hT]
  | cons f fs => simp [Loop.mutate]

theorem mutateWith_cons (m0 : Meth) (a : Loop.Agent) (T : List Loop.Agent) (fs : List Bool) (nx : Nat) :
    Evo.mutateWith (opsM opsL) (m0 :: (List.range T.length).map (fun i => (fs.getD i false, nx + i)))
        (fromM a :: T.map fromM) =
      opsL.call m0 (fromM a) :: (Loop.mutateFrom nx T fs).map fromM := by
  rw [mutateFrom_eq]
  simp [Evo.mutateWith, opsM, opsL]

/-- the model's `mutate` is `Loop.Evo.mutation` with the draw `choiceL` (where that does not raise) -/
theorem mutate_eq (c : Loop.Cfg) (nt : Nat) (T : List Loop.Agent) (flags : List Bool) :
    (match Evo.mutation (opsM opsL) (cfgM (selfL c (choiceL flags nt T.length))) false (choiceL flags nt T.length)
        (T.map fromM) with
     | some r => r
     | none => []) = (Loop.mutate c nt T flags).map fromM := by
  have hd := drawOk_choiceL c (choiceL flags nt T.length) (T.map fromM).length (by simp [choiceL])
  unfold Evo.mutation
  rw [if_pos hd]
  cases T with
  | nil =>
    cases hme : c.mutateElite <;> simp [Evo.applied, cfgM, selfL, choiceL, hme, Loop.mutate, Evo.mutateWith]
  | cons a T =>
    rw [mutate_cons, List.length_cons, choiceL_succ]
    cases hme : c.mutateElite with
    | true =>
      have : Evo.applied (cfgM (selfL c ((flags.getD 0 false, nt) ::
          (List.range T.length).map (fun i => (flags.tail.getD i false, nt + 1 + i)))))
          ((flags.getD 0 false, nt) :: (List.range T.length).map (fun i => (flags.tail.getD i false, nt + 1 + i))) =
          some ((flags.getD 0 false, nt) :: (List.range T.length).map (fun i => (flags.tail.getD i false, nt + 1 + i))) := by
        simp [Evo.applied, cfgM, selfL, hme]
      rw [this]
      show Evo.mutateWith _ _ _ = _
      rw [List.map_cons, mutateWith_cons, List.map_cons]
      congr 1
      cases flags.getD 0 false <;> simp [opsL, fromM]
    | false =>
      have : Evo.applied (cfgM (selfL c ((flags.getD 0 false, nt) ::
          (List.range T.length).map (fun i => (flags.tail.getD i false, nt + 1 + i)))))
          ((flags.getD 0 false, nt) :: (List.range T.length).map (fun i => (flags.tail.getD i false, nt + 1 + i))) =
          some ((false, 0) :: (List.range T.length).map (fun i => (flags.tail.getD i false, nt + 1 + i))) := by
        simp [Evo.applied, cfgM, selfL, hme]
      rw [this]
      show Evo.mutateWith _ _ _ = _
      rw [List.map_cons, mutateWith_cons, List.map_cons]
      congr 1
      simp [opsL]

/-- **the instance is the abstract function**: the generated evolution step, on the loop's agents, is the selection +
    mutation the model (`LoopGenEq.tsmM`: `Loop.select` then `Loop.mutate`) describes — for every population, every
    tournament outcome, every draw -/
theorem evoTsm_eq (c : Loop.Cfg) (sel : Option Loop.Sel) (flags : List Bool) :
    evoTsm c sel flags = tsmM c sel flags := by
  funext nt pop
  cases sel with
  | none => rfl
  | some sl =>
    simp only [evoTsm, tsmM]
    congr 1
    have h := gen_tsm_eq opsL pop (selectL c sl)
      (fun p => Mutations.mutation opsL (selfL c (choiceL flags nt p.length)) p false (choiceL flags nt p.length))
      "env" (some "algo") none false none false
    have hm : (fun p => Mutations.mutation opsL (selfL c (choiceL flags nt p.length)) p false (choiceL flags nt p.length)) =
        (fun p => Evo.mutation (opsM opsL) (cfgM (selfL c (choiceL flags nt p.length))) false
          (choiceL flags nt p.length) p) := by
      funext p; exact gen_mutation_eq _ _ _ _ _
    rw [hm] at h ⊢
    have hme := mutate_eq c nt (Loop.select c (pop.map (toM c.kind)) sl) flags
    simp only [resM, Evo.evoStep, accelM, selectL, Option.map_none, List.length_map] at h
    rw [← hme]
    cases hmu : Evo.mutation (opsM opsL)
        (cfgM (selfL c (choiceL flags nt (Loop.select c (pop.map (toM c.kind)) sl).length))) false
        (choiceL flags nt (Loop.select c (pop.map (toM c.kind)) sl).length)
        ((Loop.select c (pop.map (toM c.kind)) sl).map fromM) with
    | none =>
      rw [hmu] at h
      cases hg : tournament_selection_and_mutation opsL pop (selectL c sl)
          (fun p => Evo.mutation (opsM opsL) (cfgM (selfL c (choiceL flags nt p.length))) false
            (choiceL flags nt p.length) p) "env" (some "algo") none false none false with
      | none => rfl
      | some r => rw [hg] at h; cases h
    | some res =>
      rw [hmu] at h
      cases hg : tournament_selection_and_mutation opsL pop (selectL c sl)
          (fun p => Evo.mutation (opsM opsL) (cfgM (selfL c (choiceL flags nt p.length))) false
            (choiceL flags nt p.length) p) "env" (some "algo") none false none false with
      | none => rw [hg] at h; cases h
      | some r =>
        rw [hg] at h
        simp only [Option.map_some, Option.some.injEq, Prod.mk.injEq] at h
        exact h.1

/-- the per-generation input of the generated loops with the generated evolution step as `tsm` -/
def genInE (c : Loop.Cfg) (i : Loop.GenIn) : LoopGen.GenIn Nat :=
  { hp := i.hp, in0 := i.above, tsm := evoTsm c i.sel i.mutated }

theorem genInE_eq (c : Loop.Cfg) : genInE c = genIn c := by
  funext i
  simp only [genInE, genIn, evoTsm_eq]

end EvoLoop

open EvoLoop in
/-- over the generated code, end to end: the six generated training loops, running the GENERATED evolution step
    (`tournament_selection_and_mutation` + `Mutations.mutation`) on every generation that selects, are the model's `run` -/
theorem C20_source_translation_evostep_run_eq (c : Cfg) (tm : Bool) (ins : List GenIn) (s : LoopGen.St Mem Nat)
    (h : ∀ i ∈ ins, i.sel.isSome = tm) :
    LoopGenEq.stM c.kind (LoopGenEq.genRun c.kind (LoopGenEq.params c tm true) (LoopGenEq.ops c) s
      (ins.map (genInE c))) = run c (LoopGenEq.stM c.kind s) ins := by
  rw [genInE_eq]; exact LoopGenEq.genRun_eq c tm ins s h

open EvoLoop in
/-- over the generated code, end to end — the main accounting theorem with the abstract evolution function
    instantiated by the generated one: after any number of generations of any of the six generated training loops,
    each running the generated `tournament_selection_and_mutation` / `Mutations.mutation`, every agent's `steps[-1]`
    equals the environment steps its lineage took = `num_envs` × `env.step` calls -/
theorem C20_source_translation_evostep_steps_equal_env_steps (c : Cfg) (tm : Bool) (ins : List GenIn)
    (s : LoopGen.St Mem Nat) (hin : ∀ i ∈ ins, i.sel.isSome = tm)
    (h : ∀ a ∈ s.pop, a.cur = gEnv c.kind a ∧ gEnv c.kind a = stride c * gIts c.kind a) :
    ∀ a ∈ (LoopGenEq.genRun c.kind (LoopGenEq.params c tm true) (LoopGenEq.ops c) s (ins.map (genInE c))).pop,
      a.cur = gEnv c.kind a ∧ gEnv c.kind a = stride c * gIts c.kind a := by
  rw [genInE_eq]; exact C20_source_translation_steps_equal_env_steps c tm ins s hin h

open EvoLoop in
/-- over the generated code, end to end: size and distinct indices of the population through any number of
    generations of the generated loops running the generated evolution step -/
theorem C20_source_translation_evostep_population_size_indices (c : Cfg) (tm : Bool) (n : Nat) (ins : List GenIn)
    (s : LoopGen.St Mem Nat) (hin : ∀ i ∈ ins, i.sel.isSome = tm) (hn : s.pop.length = n)
    (hd : (s.pop.map (·.index)).Nodup)
    (hv : ∀ i ∈ ins, ∀ sel, i.sel = some sel → sel.valid c.elitism n) :
    let r := LoopGenEq.genRun c.kind (LoopGenEq.params c tm true) (LoopGenEq.ops c) s (ins.map (genInE c))
    r.pop.length = n ∧ (r.pop.map (·.index)).Nodup := by
  rw [genInE_eq]; exact C20_source_translation_population_size_indices c tm n ins s hin hn hd hv

-- the generated `train_off_policy` running the generated evolution step: the example of section 9 again
example : (LoopGen.Off.run (LoopGenEq.params exCfg true true) (LoopGenEq.ops exCfg) exGen
    ([exIn, exIn, exIn, exIn].map (EvoLoop.genInE exCfg))).pop.map (fun a => (a.index, a.cur, a.tag)) =
    [(3, 24, 1004), (4, 24, 1007)] := by decide +kernel

end Loop
