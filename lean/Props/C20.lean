import Proofs.LoopGen
import Proofs.LoopLearn
import Proofs.LoopGenEq

/-!
# C20 — training loops keep step and population accounting right

Model: `Model/Loop.lean` — the generation loop of the six training functions exactly as coded
(`whileStep` = one trip round the `while`, `run` = any number of trips, driven by an arbitrary list
of per-generation inputs: hyper-parameter values in force, tournament outcome, mutation flags,
early-stop bit).  Every theorem quantifies over all configurations (`evo_steps`, `num_envs`,
`max_steps`, `learn_step`, … arbitrary naturals), all populations and all input histories.

What is *not* here: that `learn`, `test`, `clone`, `save_checkpoint` of the real algorithms accept
what the loops hand them.  That part of C20 is integration behaviour; it is exercised by the
correspondence harness, whose extracted compatibility table is checked by `C20_compat_table`.
-/
namespace Loop

/-! ### 1. step counters = environment steps -/

/-- every agent's `steps[-1]` equals the environment steps its lineage took, and those are
    `stride` (= `num_envs`; 1 for bandits / offline) per rollout iteration executed -/
def Accounted (c : Cfg) (s : St) : Prop :=
  ∀ a ∈ s.pop, a.cur = a.env ∧ a.env = stride c * a.its

/-- after any number of generations — whatever `evo_steps`, `num_envs`, `max_steps`, whether or not
    `num_envs` divides `evo_steps`, with or without selection/mutation — each agent's step counter
    is the number of environment steps actually taken = `num_envs` × iterations executed -/
theorem C20_steps_equal_env_steps (c : Cfg) (s : St) (ins : List GenIn) (h : Accounted c s) :
    Accounted c (run c s ins) := by
  refine run_invariant c (Accounted c) ?_ ins s h
  intro s i hs _ _ x hx
  obtain ⟨a, ha, t⟩ := genBody_mem c s i x hx
  obtain ⟨h1, h2⟩ := hs a ha
  refine ⟨by rw [t.cur, t.env, h1], ?_⟩
  rw [t.env, t.its, h2, Nat.mul_add]

/-- what one generation adds to a counter, off-policy loops: `(evo_steps // num_envs) · num_envs`
    — at most `evo_steps`, short of it by less than `num_envs`, exactly `evo_steps` when `num_envs`
    divides it, and **zero** when `num_envs > evo_steps` -/
theorem C20_generation_increment_off (c : Cfg) (a : Agent) (hk : c.kind = .off ∨ c.kind = .maoff)
    (hne : 0 < c.numEnvs) :
    stride c * agentIters c a ≤ c.evoSteps ∧ c.evoSteps < stride c * agentIters c a + c.numEnvs ∧
    (c.numEnvs ∣ c.evoSteps → stride c * agentIters c a = c.evoSteps) ∧
    (c.evoSteps < c.numEnvs → stride c * agentIters c a = 0) := by
  have e : stride c * agentIters c a = c.numEnvs * (c.evoSteps / c.numEnvs) := by
    rcases hk with hk | hk <;> simp [stride, agentIters, hk]
  rw [e]
  have h1 := Nat.div_add_mod c.evoSteps c.numEnvs
  have h2 := Nat.mod_lt c.evoSteps hne
  refine ⟨by omega, by omega, ?_, ?_⟩
  · intro hd; exact Nat.mul_div_cancel' hd
  · intro hlt; rw [Nat.div_eq_of_lt hlt]; rfl

theorem le_ceilDiv_mul (a b : Nat) (hb : 0 < b) : a ≤ ceilDiv a b * b :=
  (ceilDiv_le_iff a b (ceilDiv a b) hb).mp (Nat.le_refl _)

/-- on-policy loops overshoot instead: a generation adds
    `ceil(evo_steps / learn_step) · ceil(learn_step / num_envs) · num_envs ≥ evo_steps` -/
theorem C20_generation_increment_on (c : Cfg) (a : Agent) (hk : c.kind = .on ∨ c.kind = .maon)
    (hne : 0 < c.numEnvs) (hls : 0 < a.ls) : c.evoSteps ≤ stride c * agentIters c a := by
  have e : stride c * agentIters c a =
      ceilDiv c.evoSteps a.ls * (ceilDiv a.ls c.numEnvs * c.numEnvs) := by
    rcases hk with hk | hk <;> simp only [stride, agentIters, hk] <;> ring
  rw [e]
  exact le_trans (le_ceilDiv_mul c.evoSteps a.ls hls)
    (Nat.mul_le_mul_left _ (le_ceilDiv_mul a.ls c.numEnvs hne))

/-! ### 2. the loop stops in the first generation in which the budget is met -/

theorem le_sumCur : ∀ (pop : List Agent) (a : Agent), a ∈ pop → a.cur ≤ sumCur pop
  | [], _, h => by cases h
  | b :: r, a, h => by
    simp only [sumCur, List.map_cons, List.sum_cons]
    rcases List.mem_cons.mp h with rfl | h
    · omega
    · have := le_sumCur r a h
      simp only [sumCur] at this
      omega

/-- the `while` condition is the negation of the documented budget: per agent ("some agent has
    done `max_steps`") for five loops, summed over the population for `train_multi_agent_on_policy` -/
theorem cond_iff_not_budgetMet (c : Cfg) (pop : List Agent) :
    cond c pop = true ↔ ¬ budgetMet c pop := by
  unfold cond budgetMet
  cases c.kind <;> simp [List.all_eq_true]

/-- a further generation is executed iff the function has not returned and the budget is not yet
    met; once it is met nothing runs any more, whatever inputs follow: the loop stops in the first
    generation in which the budget is met -/
theorem C20_stops_first_generation_over_budget (c : Cfg) (s : St) (i : GenIn) :
    ((whileStep c s i).gens = s.gens + 1 ↔ (s.halted = false ∧ ¬ budgetMet c s.pop)) ∧
    (budgetMet c s.pop → ∀ ins, run c s ins = s) := by
  constructor
  · rcases whileStep_cases c s i with ⟨e, hstop⟩ | ⟨e, hh, hc⟩
    · rw [e]
      constructor
      · intro h; omega
      · rintro ⟨hh, hb⟩
        rcases hstop with h | h
        · rw [hh] at h; cases h
        · have := (cond_iff_not_budgetMet c s.pop).mpr hb
          rw [h] at this; cases this
    · rw [e, genBody_gens]
      exact ⟨fun _ => ⟨hh, (cond_iff_not_budgetMet c s.pop).mp hc⟩, fun _ => rfl⟩
  · intro hb ins
    have hc : cond c s.pop = false := by
      cases h : cond c s.pop
      · rfl
      · exact absurd hb ((cond_iff_not_budgetMet c s.pop).mp h)
    induction ins with
    | nil => rfl
    | cons i ins ih =>
      rw [run_cons]
      have : whileStep c s i = s := by simp [whileStep, hc]
      rw [this]; exact ih

/-! ### 3. termination -/

/-- every generation moves every counter: the side condition under which the loops terminate -/
def Progress (c : Cfg) : Prop :=
  match c.kind with
  | .off | .maoff => 0 < c.numEnvs ∧ c.numEnvs ≤ c.evoSteps
  | .on | .maon => 0 < c.numEnvs ∧ 0 < c.evoSteps
  | .offline => 0 < c.evoSteps
  | .bandit => 0 < c.episodeSteps

theorem ceilDiv_pos (a b : Nat) (ha : 0 < a) (hb : 0 < b) : 0 < ceilDiv a b := by
  unfold ceilDiv; exact Nat.div_pos (by omega) hb

theorem progress_pos (c : Cfg) (x : Agent) (hp : Progress c) (hls : 1 ≤ x.ls) :
    1 ≤ stride c * agentIters c x := by
  unfold Progress at hp
  unfold stride agentIters
  cases hk : c.kind <;> simp only [hk] at hp ⊢
  · exact Nat.mul_pos hp.1 (Nat.div_pos hp.2 hp.1)
  · exact Nat.mul_pos hp.1 (Nat.mul_pos (ceilDiv_pos _ _ hp.2 hls) (ceilDiv_pos _ _ hls hp.1))
  · omega
  · omega
  · exact Nat.mul_pos hp.1 (Nat.div_pos hp.2 hp.1)
  · exact Nat.mul_pos hp.1 (Nat.mul_pos (ceilDiv_pos _ _ hp.2 hls) (ceilDiv_pos _ _ hls hp.1))

/-- inputs a run can really see: learn steps ≥ 1, tournaments configured for the population size -/
def InsOk (c : Cfg) (n : Nat) (ins : List GenIn) : Prop :=
  ∀ i ∈ ins, (∀ h ∈ i.hp, 1 ≤ h.1) ∧ ∀ sel, i.sel = some sel → sel.valid c.elitism n

theorem genSelect_length (c : Cfg) (s : St) (i : GenIn)
    (hv : ∀ sel, i.sel = some sel → sel.valid c.elitism s.pop.length) :
    (genSelect c s i).pop.length = s.pop.length := by
  unfold genSelect
  cases hs : i.sel with
  | none => rfl
  | some sel =>
    simp only
    split
    · simp only [mutate_length]; exact select_length c s.pop sel (hv sel hs)
    · rfl

theorem genBody_length (c : Cfg) (s : St) (i : GenIn)
    (hv : ∀ sel, i.sel = some sel → sel.valid c.elitism s.pop.length) :
    (genBody c s i).pop.length = s.pop.length := by
  unfold genBody
  simp only
  split
  · exact genTrain_length c s i.hp
  · rw [genCheckpoint_pop, genSelect_length c _ i (by rw [genTrain_length]; exact hv), genTrain_length]

theorem run_stopped (c : Cfg) (s : St) (h : s.halted = true ∨ cond c s.pop = false) :
    ∀ ins, run c s ins = s
  | [] => rfl
  | i :: ins => by
    rw [run_cons]
    have : whileStep c s i = s := by
      rcases h with h | h <;> simp [whileStep, h]
    rw [this]; exact run_stopped c s h ins

/-- the loop has returned: early stop, or the `while` condition is false -/
def Stopped (c : Cfg) (s : St) : Prop := s.halted = true ∨ budgetMet c s.pop

theorem terminates_aux (c : Cfg) (n : Nat) (hp : Progress c) :
    ∀ (ins : List GenIn) (s : St) (k : Nat), s.pop.length = n →
      (∀ a ∈ s.pop, 1 ≤ a.ls ∧ k ≤ a.cur) → InsOk c n ins →
      Stopped c (run c s ins) ∨
      ((run c s ins).pop.length = n ∧ ∀ a ∈ (run c s ins).pop, 1 ≤ a.ls ∧ k + ins.length ≤ a.cur)
  | [], s, k, hn, hq, _ => by
    right; simp only [run_nil, List.length_nil, Nat.add_zero]; exact ⟨hn, hq⟩
  | i :: ins, s, k, hn, hq, hok => by
    rw [run_cons]
    rcases whileStep_cases c s i with ⟨e, hstop⟩ | ⟨e, hh, hc⟩
    · left
      rw [e, run_stopped c s hstop ins]
      rcases hstop with h | h
      · exact Or.inl h
      · right
        by_contra hb
        have := (cond_iff_not_budgetMet c s.pop).mpr hb
        rw [h] at this; cases this
    · rw [e]
      obtain ⟨hhp, hsel⟩ := hok i (by simp)
      have hlen : (genBody c s i).pop.length = n := by
        rw [genBody_length c s i (by rw [hn]; exact hsel), hn]
      have hq' : ∀ a ∈ (genBody c s i).pop, 1 ≤ a.ls ∧ k + 1 ≤ a.cur := by
        intro x hx
        obtain ⟨a, ha, t⟩ := genBody_mem c s i x hx
        obtain ⟨hl, hk⟩ := hq a ha
        have hxl : 1 ≤ x.ls := by
          rcases t.hp with ⟨h1, _⟩ | h2
          · omega
          · exact hhp _ h2
        have := progress_pos c x hp hxl
        exact ⟨hxl, by rw [t.cur]; omega⟩
      have := terminates_aux c n hp ins (genBody c s i) (k + 1) hlen hq'
        (fun j hj => hok j (by simp [hj]))
      rcases this with h | ⟨h1, h2⟩
      · exact Or.inl h
      · refine Or.inr ⟨h1, fun a ha => ?_⟩
        have := h2 a ha
        simp only [List.length_cons]
        omega

/-- **termination** under the side condition that every generation adds at least one step to every
    counter (`num_envs ≤ evo_steps` for the off-policy loops): whatever the tournaments and
    mutations do, the loop has returned after at most `max_steps` generations.
    Partial: without the side condition the statement is false, see `C20_terminates_witness`. -/
theorem C20_terminates_partial (c : Cfg) (s : St) (ins : List GenIn) (hp : Progress c)
    (hn : 0 < s.pop.length) (hls : ∀ a ∈ s.pop, 1 ≤ a.ls) (hok : InsOk c s.pop.length ins)
    (hlen : c.maxSteps ≤ ins.length) : Stopped c (run c s ins) := by
  rcases terminates_aux c s.pop.length hp ins s 0 rfl (fun a ha => ⟨hls a ha, Nat.zero_le _⟩) hok with h | ⟨h1, h2⟩
  · exact h
  · right
    obtain ⟨a, ha⟩ := List.exists_mem_of_length_pos (by rw [h1]; exact hn)
    have hcur : c.maxSteps ≤ a.cur := by have := (h2 a ha).2; omega
    unfold budgetMet
    cases hk : c.kind <;> simp only
    case maon => exact le_trans hcur (le_sumCur _ a ha)
    all_goals exact ⟨a, ha, hcur⟩

/-- the complement: when `num_envs > evo_steps` the off-policy loops perform `evo_steps // num_envs = 0`
    iterations per generation, no counter ever moves, and the `while` condition stays true for ever
    (with or without tournaments; only the early-stop branch could leave the loop) -/
theorem C20_zero_iteration_never_stops (c : Cfg) (hk : c.kind = .off ∨ c.kind = .maoff)
    (hlt : c.evoSteps < c.numEnvs) (s : St) (ins : List GenIn)
    (hrun : s.halted = false ∧ ∀ a ∈ s.pop, a.cur < c.maxSteps) (hne : ∀ i ∈ ins, i.above = false) :
    (run c s ins).halted = false ∧ (∀ a ∈ (run c s ins).pop, a.cur < c.maxSteps) ∧
    cond c (run c s ins).pop = true := by
  have key : ∀ (ins : List GenIn) (s : St), (∀ i ∈ ins, i.above = false) →
      (s.halted = false ∧ ∀ a ∈ s.pop, a.cur < c.maxSteps) →
      ((run c s ins).halted = false ∧ ∀ a ∈ (run c s ins).pop, a.cur < c.maxSteps) := by
    intro ins
    induction ins with
    | nil => intro s _ h; exact h
    | cons i ins ih =>
      intro s hab h
      rw [run_cons]
      apply ih _ (fun j hj => hab j (by simp [hj]))
      rcases whileStep_cases c s i with ⟨e, _⟩ | ⟨e, _, _⟩
      · rw [e]; exact h
      · rw [e]
        constructor
        · have hi := hab i (by simp)
          unfold genBody
          simp only [earlyStop, hi, Bool.false_and]
          simp [genCheckpoint_halted, genSelect_halted, genTrain_halted, h.1]
        · intro x hx
          obtain ⟨a, ha, t⟩ := genBody_mem c s i x hx
          have := (C20_generation_increment_off c x hk (by omega)).2.2.2 hlt
          rw [t.cur, this]
          exact h.2 a ha
  obtain ⟨h1, h2⟩ := key ins s hne hrun
  refine ⟨h1, h2, ?_⟩
  unfold cond
  rcases hk with hk | hk <;> simp only [hk, List.all_eq_true, decide_eq_true_eq] <;> exact h2

/-- the configuration replayed on the real `train_off_policy` (with a wall-clock guard) -/
def witnessCfg : Cfg := { kind := .off, maxSteps := 10, evoSteps := 3, numEnvs := 4, cap := 64 }
def witnessSt : St := { pop := [{ index := 0 }, { index := 1 }] }

/-- non-termination witness: `train_off_policy(max_steps=10, evo_steps=3)` on a 4-env vector
    environment never returns — no number of generations stops it -/
theorem C20_terminates_witness :
    ¬ ∃ G : Nat, Stopped witnessCfg (run witnessCfg witnessSt (List.replicate G {})) := by
  rintro ⟨G, hstop⟩
  obtain ⟨h1, _, h3⟩ := C20_zero_iteration_never_stops witnessCfg (Or.inl rfl) (by decide) witnessSt
    (List.replicate G {}) ⟨rfl, by decide⟩ (fun i hi => by rw [List.eq_of_mem_replicate hi])
  rcases hstop with h | h
  · rw [h1] at h; cases h
  · exact (cond_iff_not_budgetMet _ _).mp h3 h

/-! ### 4. one fitness entry per agent and generation -/

/-- every agent carries `f0 + gens` fitness entries and a `steps` list of `h0 + gens` (+1) entries,
    `gens` = number of entries of the returned `pop_fitnesses` -/
def FitInv (f0 h0 : Nat) (s : St) : Prop :=
  ∀ a ∈ s.pop, a.fit = f0 + s.gens ∧ a.past.length = h0 + s.gens

theorem C20_one_fitness_per_generation (c : Cfg) (f0 h0 : Nat) (s : St) (ins : List GenIn)
    (h : FitInv f0 h0 s) : FitInv f0 h0 (run c s ins) ∧ (run c s ins).gens ≤ s.gens + ins.length := by
  constructor
  · refine run_invariant c (FitInv f0 h0) ?_ ins s h
    intro s i hs _ _ x hx
    obtain ⟨a, ha, t⟩ := genBody_mem c s i x hx
    obtain ⟨h1, h2⟩ := hs a ha
    rw [genBody_gens, t.fit, t.past, List.length_cons, h1, h2]
    exact ⟨by omega, by omega⟩
  · induction ins generalizing s with
    | nil => simp [run]
    | cons i ins ih =>
      rw [run_cons]
      have hstep : (whileStep c s i).gens ≤ s.gens + 1 := by
        rcases whileStep_cases c s i with ⟨e, _⟩ | ⟨e, _, _⟩
        · rw [e]; omega
        · rw [e, genBody_gens]
      have hinv : FitInv f0 h0 (whileStep c s i) := by
        have := run_invariant c (FitInv f0 h0) (by
          intro s i hs _ _ x hx
          obtain ⟨a, ha, t⟩ := genBody_mem c s i x hx
          obtain ⟨h1, h2⟩ := hs a ha
          rw [genBody_gens, t.fit, t.past, List.length_cons, h1, h2]
          exact ⟨by omega, by omega⟩) [i] s h
        simpa [run] using this
      have := ih (whileStep c s i) hinv
      simp only [List.length_cons]
      omega

/-! ### 5. population size and indices -/

theorem genBody_indices (c : Cfg) (s : St) (i : GenIn) (h : (s.pop.map (·.index)).Nodup) :
    ((genBody c s i).pop.map (·.index)).Nodup := by
  unfold genBody
  simp only
  split
  · simp only [genTrain_index]; exact h
  · rw [genCheckpoint_pop]
    unfold genSelect
    cases hs : i.sel with
    | none => simp only [genTrain_index]; exact h
    | some sel =>
      simp only
      split
      · simp only [mutate_index]; exact select_indices_nodup c _ sel
      · simp only [genTrain_index]; exact h

/-- the population keeps its size and pairwise distinct indices through any number of generations
    (tournaments configured with `population_size = len(pop)`) -/
theorem C20_population_size_indices (c : Cfg) (n : Nat) :
    ∀ (ins : List GenIn) (s : St), s.pop.length = n → (s.pop.map (·.index)).Nodup →
      (∀ i ∈ ins, ∀ sel, i.sel = some sel → sel.valid c.elitism n) →
      (run c s ins).pop.length = n ∧ ((run c s ins).pop.map (·.index)).Nodup
  | [], s, hn, hd, _ => ⟨hn, hd⟩
  | i :: ins, s, hn, hd, hv => by
    rw [run_cons]
    have hv' : ∀ j ∈ ins, ∀ sel, j.sel = some sel → sel.valid c.elitism n :=
      fun j hj => hv j (by simp [hj])
    rcases whileStep_cases c s i with ⟨e, _⟩ | ⟨e, _, _⟩
    · rw [e]; exact C20_population_size_indices c n ins s hn hd hv'
    · rw [e]
      refine C20_population_size_indices c n ins _ ?_ (genBody_indices c s i hd) hv'
      rw [genBody_length c s i (by rw [hn]; exact hv i (by simp)), hn]

/-! ### 6. the elite is carried -/

/-- with elitism the best agent (slot `sel.elite` of the evaluated population) is slot 0 of the
    selected population, unchanged — always; it is still unchanged after `Mutations.mutation` when
    `mutate_elite = False`; and the checkpoint step does not touch the population, so this is the
    agent the next generation starts from -/
theorem C20_elite_carried (c : Cfg) (s : St) (i : GenIn) (sel : Sel) (hsel : i.sel = some sel)
    (hel : c.elitism = true) (hgate : selGate c s s.pop = true) (he : sel.elite < s.pop.length) :
    (select c s.pop sel).head? = s.pop[sel.elite]? ∧
    (c.mutateElite = false →
      (genCheckpoint c (genSelect c s i)).pop.head? = s.pop[sel.elite]?) := by
  refine ⟨select_head c s.pop sel hel he, fun hm => ?_⟩
  rw [genCheckpoint_pop]
  unfold genSelect
  simp only [hsel, hgate, if_true]
  rw [mutate_head c _ _ _ hm, select_head c s.pop sel hel he]

/-! ### 7. learn calls per rollout -/

/-- closed formulas for the number of `learn` calls of one agent's rollout:
    * `train_off_policy` (uniform / prioritised memory holding `m.len` transitions at the start):
      `learnCallsOff` — a function of `evo_steps`, `num_envs`, `learn_step`, `batch_size`,
      `learning_delay`, the capacity and the fill level only;
    * on-policy loops: `ceil(evo_steps / learn_step)`;  * `train_offline`: `evo_steps` -/
theorem C20_learn_call_count (c : Cfg) (a : Agent) (m : Mem) :
    (c.kind = .off → c.nStep < 2 → 0 < c.numEnvs → m.len ≤ c.cap →
      (rollout c a m).learns = learnCallsOff c a m.len) ∧
    (c.kind = .on ∨ c.kind = .maon → (rollout c a m).learns = ceilDiv c.evoSteps a.ls) ∧
    (c.kind = .offline → (rollout c a m).learns = c.evoSteps) := by
  refine ⟨fun hk hn hne hcap => ?_, fun hk => ?_, fun hk => ?_⟩
  · rw [learnCallsOff_eq]
    simp only [rollout, hk]
    exact (iterate_offStep_learns c a m hk hn hne hcap _).2
  · rcases hk with hk | hk <;> simp only [rollout, hk] <;>
      simpa using (iterate_onOuter c a (ceilDiv c.evoSteps a.ls) { m := m }).2.2.2.1
  · simp only [rollout, hk]
    simpa using (iterate_offlineStep c.evoSteps { m := m }).2.2.1

/-- steady state (the memory already holds a batch and more than `learning_delay` transitions after
    the first add): `learn_step ≤ num_envs` ⇒ `num_envs // learn_step` learns per rollout iteration;
    `learn_step > num_envs` ⇒ one learn every `learn_step // num_envs` iterations -/
theorem C20_learn_call_count_steady (c : Cfg) (a : Agent) (m0 : Nat) (hne : 0 < c.numEnvs)
    (hopen : max a.bs (c.delay + 1) ≤ m0 + c.numEnvs) (hcap : max a.bs (c.delay + 1) ≤ c.cap) :
    learnCallsOff c a m0 =
      if c.numEnvs < a.ls then ceilDiv (c.evoSteps / c.numEnvs) (a.ls / c.numEnvs)
      else (c.evoSteps / c.numEnvs) * (c.numEnvs / a.ls) := by
  have h0 : firstOpen (max a.bs (c.delay + 1)) m0 c.numEnvs = 0 := by
    have := (open_iff (max a.bs (c.delay + 1)) m0 c.numEnvs 0 hne).mp (by simpa using hopen)
    omega
  unfold learnCallsOff
  simp only [h0, Nat.zero_min, Nat.sub_zero, multiplesIn, show ¬ c.cap < max a.bs (c.delay + 1) by omega,
    if_false]
  split
  · next hls =>
    have hk : 0 < a.ls / c.numEnvs := Nat.div_pos (by omega) hne
    have : ceilDiv 0 (a.ls / c.numEnvs) = 0 := by
      unfold ceilDiv; exact Nat.div_eq_of_lt (by omega)
    rw [this, Nat.sub_zero]
  · rfl

/-! ### 8. compatibility table -/

/-- lifting lemma: a table that passes the executable check has every claimed row accepted -/
theorem tableOk_spec (t : List Row) (h : tableOk t = true) :
    ∀ r ∈ t, claimed r = true → r.accepted = true := by
  intro r hr hc
  have := (List.all_eq_true.mp h) r hr
  simpa [rowOk, hc] using this

/-- every (loop, algorithm, memory) combination the training functions claim to support appears in
    the table extracted from the (repaired) tree and its batch form is accepted by `learn` -/
theorem C20_compat_table :
    tableComplete extractedTable = true ∧
    ∀ r ∈ extractedTable, claimed r = true → r.accepted = true :=
  ⟨by decide, tableOk_spec extractedTable (by decide)⟩

/-! ### non-vacuity -/

/-- a 2-agent off-policy run: 4 envs, `evo_steps = 10` (not a multiple of 4), `max_steps = 20`,
    elitist tournament after every generation -/
def exCfg : Cfg := { kind := .off, maxSteps := 20, evoSteps := 10, numEnvs := 4, cap := 32, checkpoint := 8,
                     mutateElite := false }
def exSt : St := { pop := [{ index := 0, ls := 2, bs := 8 }, { index := 1, ls := 8, bs := 8, tag := 1 }] }
def exIn : GenIn := { sel := some { elite := 1, parents := [0] }, mutated := [true, true] }

example : Accounted exCfg exSt := by unfold Accounted; decide
example : Progress exCfg := by simp [Progress, exCfg]
example : InsOk exCfg exSt.pop.length [exIn, exIn, exIn] := by
  intro i hi
  have : i = exIn := by simpa using hi
  subst this
  refine ⟨by simp [exIn], fun sel h => ?_⟩
  have : sel = { elite := 1, parents := [0] } := by simpa [exIn] using h.symm
  subst this; decide
example : FitInv 0 0 exSt := by unfold FitInv; decide
-- three generations of 8 steps each: 8, 16, 24 ≥ 20; a fourth trip does nothing
example : (run exCfg exSt [exIn, exIn, exIn, exIn]).pop.map (·.cur) = [24, 24] := by decide
example : (run exCfg exSt [exIn, exIn, exIn, exIn]).gens = 3 := by decide
example : (run exCfg exSt [exIn, exIn, exIn, exIn]).pop.map (·.index) = [3, 4] := by decide
example : (run exCfg exSt [exIn, exIn, exIn, exIn]).learns = [[4, 1], [1, 4], [2, 1]] := by decide
example : (run exCfg exSt [exIn]).saved = [[8, 8]] := by decide
-- the elite (slot 1, tag 1) arrives in slot 0 unchanged; with mutate_elite = True it does not
example : ((run exCfg exSt [exIn]).pop.map (·.tag)) = [1, 1001] := by decide
example : ((run { exCfg with mutateElite := true } exSt [exIn]).pop.map (·.tag)) = [1000, 1001] := by decide
-- per-agent budget: the loop stops although agent 1 has done 40 < 60 steps
example : cond { kind := .off, maxSteps := 60 } [{ cur := 60 }, { cur := 40 }] = false := by decide
-- summed budget of train_multi_agent_on_policy: 40 + 40 ≥ 60 stops, 20 + 20 does not
example : cond { kind := .maon, maxSteps := 60 } [{ cur := 40 }, { cur := 40 }] = false := by decide
example : cond { kind := .maon, maxSteps := 60 } [{ cur := 20 }, { cur := 20 }] = true := by decide
-- the unrepaired tree: TD3.learn rejects the sampler's TensorDict, the table check fails
example : tableOk [⟨"off", "TD3", "uniform", "tensordict", false⟩] = false := by decide
example : learnCallsOff exCfg { ls := 2, bs := 8 } 0 = 2 := by decide

/-! ### 9. source translation

`Gen/LoopGen.lean` is generated by `harness/py2lean_loop.py` from the source text of the six training functions
(loop structure, integer counters, budget test, learn scheduling, events in order; everything else sliced away after
checking that it cannot write a counter).  `Proofs/LoopGenEq.lean` proves every generated loop equal to the model
(`genRun_eq`); the main theorems are restated here over the generated loops.  `genRun k` / `genStep k` / `genCond k`
select the generated `run` / `whileStep` / `cond` of the training function of kind `k`. -/

open LoopGenEq in
/-- the six generated training functions, run on arbitrary per-generation inputs, are the model's `run`
    (tournament and mutation objects are arguments of the function: present in every generation or in none) -/
theorem C20_source_translation_run_eq (c : Cfg) (tm : Bool) (ins : List GenIn) (s : LoopGen.St Mem Nat)
    (h : ∀ i ∈ ins, i.sel.isSome = tm) :
    stM c.kind (genRun c.kind (params c tm true) (ops c) s (ins.map (genIn c))) = run c (stM c.kind s) ins :=
  genRun_eq c tm ins s h

/-- environment steps / `env.step` calls of a generated agent's lineage (`train_offline` performs no environment
    step: its counter counts learn steps) -/
def gEnv (k : Kind) (a : LoopGen.Agent) : Nat := if k = .offline then a.env + a.learns else a.env
def gIts (k : Kind) (a : LoopGen.Agent) : Nat := if k = .offline then a.its + a.learns else a.its

/-- over the generated code: after any number of generations of any of the six training functions, every agent's
    `steps[-1]` equals the environment steps its lineage took = `num_envs` × `env.step` calls -/
theorem C20_source_translation_steps_equal_env_steps (c : Cfg) (tm : Bool) (ins : List GenIn)
    (s : LoopGen.St Mem Nat) (hin : ∀ i ∈ ins, i.sel.isSome = tm)
    (h : ∀ a ∈ s.pop, a.cur = gEnv c.kind a ∧ gEnv c.kind a = stride c * gIts c.kind a) :
    ∀ a ∈ (LoopGenEq.genRun c.kind (LoopGenEq.params c tm true) (LoopGenEq.ops c) s (ins.map (LoopGenEq.genIn c))).pop,
      a.cur = gEnv c.kind a ∧ gEnv c.kind a = stride c * gIts c.kind a := by
  have hacc : Accounted c (LoopGenEq.stM c.kind s) := by
    intro x hx
    simp only [LoopGenEq.stM, List.mem_map] at hx
    obtain ⟨a, ha, rfl⟩ := hx
    exact h a ha
  have := C20_steps_equal_env_steps c _ ins hacc
  rw [← LoopGenEq.genRun_eq c tm ins s hin] at this
  intro a ha
  exact this (LoopGenEq.toM c.kind a) (by simp only [LoopGenEq.stM]; exact List.mem_map_of_mem ha)

/-- the documented budget over a generated population -/
def gBudgetMet (c : Cfg) (pop : List LoopGen.Agent) : Prop :=
  match c.kind with
  | .maon => c.maxSteps ≤ (pop.map (·.cur)).sum
  | _ => ∃ a ∈ pop, c.maxSteps ≤ a.cur

theorem gBudgetMet_iff (c : Cfg) (pop : List LoopGen.Agent) :
    gBudgetMet c pop ↔ budgetMet c (pop.map (LoopGenEq.toM c.kind)) := by
  unfold gBudgetMet budgetMet
  cases c.kind <;> simp [sumCur, List.map_map, Function.comp_def]

/-- over the generated code: a further generation runs iff the function has not returned and the budget (per
    agent; summed for `train_multi_agent_on_policy`) is unmet, and once it is met nothing runs any more — the
    generated loop stops in the first generation in which the budget is met -/
theorem C20_source_translation_stops_first_generation_over_budget (c : Cfg) (s : LoopGen.St Mem Nat) (i : GenIn) :
    ((LoopGenEq.genStep c.kind (LoopGenEq.params c i.sel.isSome true) (LoopGenEq.ops c) (LoopGenEq.genIn c i) s).gens
        = s.gens + 1 ↔ (s.halted = false ∧ ¬ gBudgetMet c s.pop)) ∧
    (gBudgetMet c s.pop → ∀ (tm : Bool) (ins : List (LoopGen.GenIn Nat)),
      LoopGenEq.genRun c.kind (LoopGenEq.params c tm true) (LoopGenEq.ops c) s ins = s) := by
  constructor
  · have h := (C20_stops_first_generation_over_budget c (LoopGenEq.stM c.kind s) i).1
    rw [← LoopGenEq.genStep_eq c i s] at h
    rw [gBudgetMet_iff]
    exact h
  · intro hb tm ins
    apply LoopGenEq.genRun_stop
    rw [LoopGenEq.genCond_eq]
    have : cond c (s.pop.map (LoopGenEq.toM c.kind)) = false := by
      cases hc : cond c (s.pop.map (LoopGenEq.toM c.kind))
      · rfl
      · exact absurd ((gBudgetMet_iff c s.pop).mp hb) ((cond_iff_not_budgetMet c _).mp hc)
    simp [this]

/-- over the generated code: one fitness entry and one `steps` entry per agent and executed generation -/
theorem C20_source_translation_one_fitness_per_generation (c : Cfg) (tm : Bool) (f0 h0 : Nat)
    (s : LoopGen.St Mem Nat) (ins : List GenIn) (hin : ∀ i ∈ ins, i.sel.isSome = tm)
    (h : ∀ a ∈ s.pop, a.fit = f0 + s.gens ∧ a.past.length = h0 + s.gens) :
    let r := LoopGenEq.genRun c.kind (LoopGenEq.params c tm true) (LoopGenEq.ops c) s (ins.map (LoopGenEq.genIn c))
    (∀ a ∈ r.pop, a.fit = f0 + r.gens ∧ a.past.length = h0 + r.gens) ∧ r.gens ≤ s.gens + ins.length := by
  have hinv : FitInv f0 h0 (LoopGenEq.stM c.kind s) := by
    intro x hx
    simp only [LoopGenEq.stM, List.mem_map] at hx
    obtain ⟨a, ha, rfl⟩ := hx
    exact h a ha
  obtain ⟨h1, h2⟩ := C20_one_fitness_per_generation c f0 h0 _ ins hinv
  rw [← LoopGenEq.genRun_eq c tm ins s hin] at h1 h2
  refine ⟨fun a ha => ?_, h2⟩
  exact h1 (LoopGenEq.toM c.kind a) (by simp only [LoopGenEq.stM]; exact List.mem_map_of_mem ha)

/-- over the generated code: the population keeps its size and pairwise distinct indices -/
theorem C20_source_translation_population_size_indices (c : Cfg) (tm : Bool) (n : Nat) (ins : List GenIn)
    (s : LoopGen.St Mem Nat) (hin : ∀ i ∈ ins, i.sel.isSome = tm) (hn : s.pop.length = n)
    (hd : (s.pop.map (·.index)).Nodup)
    (hv : ∀ i ∈ ins, ∀ sel, i.sel = some sel → sel.valid c.elitism n) :
    let r := LoopGenEq.genRun c.kind (LoopGenEq.params c tm true) (LoopGenEq.ops c) s (ins.map (LoopGenEq.genIn c))
    r.pop.length = n ∧ (r.pop.map (·.index)).Nodup := by
  have hidx : ∀ p : List LoopGen.Agent, (p.map (LoopGenEq.toM c.kind)).map (·.index) = p.map (·.index) := by
    intro p; simp [List.map_map, Function.comp_def, LoopGenEq.toM]
  obtain ⟨h1, h2⟩ := C20_population_size_indices c n ins (LoopGenEq.stM c.kind s)
    (by simp [LoopGenEq.stM, hn]) (by simp only [LoopGenEq.stM, hidx]; exact hd) hv
  rw [← LoopGenEq.genRun_eq c tm ins s hin] at h1 h2
  simp only [LoopGenEq.stM, List.length_map, hidx] at h1 h2
  exact ⟨h1, h2⟩

/-- over the generated code: the events of every executed trip round the loop of any of the six training functions,
    in order — every agent trains, every agent is tested (one fitness entry each), the fitness list is appended, every
    `steps` list is extended; then either the early return, or selection + mutation (if configured and due)
    followed by the checkpoint (if due) -/
theorem C20_source_translation_event_order (c : Cfg) (P : LoopGen.Params) (o : LoopGen.MemOps Mem)
    (i : LoopGen.GenIn Nat) (s : LoopGen.St Mem Nat) (hs : s.halted = false)
    (hc : LoopGenEq.genCond c.kind P s.pop = true) :
    ∃ ret sel sav : Bool,
      (LoopGenEq.genStep c.kind P o i s).events =
        [.train, .test, .fitnessAppend, .stepsAppend] ++
          (if ret then [.earlyReturn] else (if sel then [.select] else []) ++ (if sav then [.save] else [])) ∧
      (LoopGenEq.genStep c.kind P o i s).halted = ret :=
  LoopGenEq.genStep_events c.kind P o i s hs hc

/-- the generated `train_off_policy`, 2 agents on 4 envs, `evo_steps = 10`, `max_steps = 20`, elitist tournament:
    three generations of 8 steps, a fourth trip does nothing; checkpoint after the first -/
def exGen : LoopGen.St Mem Nat :=
  LoopGen.Off.start [{ index := 0, ls := 2, bs := 8 }, { index := 1, ls := 8, bs := 8, tag := 1 }] {} 1000
example : (LoopGen.Off.run (LoopGenEq.params exCfg true true) (LoopGenEq.ops exCfg) exGen
    ([exIn, exIn, exIn, exIn].map (LoopGenEq.genIn exCfg))).pop.map (·.cur) = [24, 24] := by decide
example : (LoopGen.Off.run (LoopGenEq.params exCfg true true) (LoopGenEq.ops exCfg) exGen
    ([exIn, exIn, exIn, exIn].map (LoopGenEq.genIn exCfg))).gens = 3 := by decide
example : (LoopGen.Off.run (LoopGenEq.params exCfg true true) (LoopGenEq.ops exCfg) exGen
    ([exIn].map (LoopGenEq.genIn exCfg))).events =
    [.train, .test, .fitnessAppend, .stepsAppend, .select, .save] := by decide
example : ∀ a ∈ exGen.pop, a.cur = gEnv exCfg.kind a ∧ gEnv exCfg.kind a = stride exCfg * gIts exCfg.kind a := by
  decide

end Loop
